"""Handler path rules on the statement CFG: status typestate (S-STATUS), validation dominance (D-VALIDATE),
who-may-write (W-ATTR), reply discipline (P-REPLYBIT, P-ONE, P-ACT, D-ECHO), bundle rules (P-ORDER, P-EACH, P-CLOSURE),
containment (E-CONTAIN), route decision table (B-ROUTE, D-REFUSE, C-MAIN), forwards key shape (K-FORWARDS)."""
import ast, itertools

from .core import ( rule, Result, AnalysisError, dotted, call_name, is_call_to, names_in, attrs_in, walk_no_nested,
                    norm_text, dotted_in, stmt_of, pmatch, pfind, txt )
from .core import Matcher
from .fold import fold, try_fold, NoFold, run_block, Record, Raises, method_calls
from .cfg import CFG, INF
from . import spec

LOGIX = 'server/enip/logix.py'
DEVICE = 'server/enip/device.py'
UCMM = 'server/enip/ucmm.py'
MAIN = 'server/enip/main.py'
CLIENT = 'server/enip/client.py'

TOP = 'TOP'
NONZERO = 'NONZERO'

BENIGN_CALLEE_PREFIX = ( 'log.', 'logging.', 'traceback.', 'sys.', 'misc.reprlib.' )
BENIGN_CALLEES = { 'enip_format', 'parser.enip_format', 'len', 'str', 'repr', 'isinstance', 'dict', 'bytearray', 'bytes', 'list',
                   'type', 'ord', 'range', 'zip', 'dotdict', 'hasattr', 'int', 'bool', 'tuple', 'set', 'sorted', 'min', 'max' }


def status_may_raise( art='data' ):
    """may-raise predicate of the status discipline: asserts, raises, calls into repo code and subscript loads on objects other
    than the request artifact; bookkeeping on the artifact itself, logging and plain attribute loads are benign"""
    def may( node ):
        if node is None:
            return False
        for n in ast.walk( node ):
            if isinstance( n, ( ast.Assert, ast.Raise )):
                return True
            if isinstance( n, ast.Call ):
                cn = call_name( n )
                if cn in BENIGN_CALLEES or any( cn.startswith( p ) for p in BENIGN_CALLEE_PREFIX ):
                    continue
                if cn in ( art + '.pop', art + '.get', art + '.setdefault' ):
                    continue
                if isinstance( n.func, ast.Attribute ) and n.func.attr in ( 'join', 'format' ) and isinstance( n.func.value, ast.Constant ):
                    continue
                return True
            if isinstance( n, ast.Subscript ):
                base = dotted( n.value ) or ''
                if base == art or base.startswith( art + '.' ):
                    continue
                return True
            if isinstance( n, ( ast.BinOp, )) and isinstance( n.op, ( ast.Div, ast.FloorDiv, ast.Mod )):
                return True
        return False
    return may


def _ext_value( e ):
    """abstract value of a status_ext assignment: tuple of its data words"""
    v = try_fold_dict( e )
    if isinstance( v, dict ) and 'data' in v:
        try:
            return tuple( v['data'] )
        except TypeError:
            return TOP
    return TOP


def try_fold_dict( e ):
    if isinstance( e, ast.Dict ):
        out = {}
        for k, v in zip( e.keys, e.values ):
            kk = try_fold( k ) if k is not None else None
            vv = try_fold( v )
            if kk is None:
                return None
            out[kk] = vv
        return out
    return None


def _status_values( e, src, stmt ):
    """abstract value of an expression assigned to <art>.status"""
    v = try_fold( e, default=NoFold )
    if v is not NoFold and isinstance( v, int ):
        return frozenset( [ v ] )
    if isinstance( e, ast.IfExp ):
        a, b = _status_values( e.body, src, stmt ), _status_values( e.orelse, src, stmt )
        if a in ( TOP, NONZERO ) or b in ( TOP, NONZERO ):
            return TOP
        return a | b
    # forced-failure idiom:  if X: <art>.status = X
    par = src.parent.get( stmt )
    if isinstance( par, ast.If ) and stmt in par.body and txt( par.test ) == txt( e ):
        return NONZERO
    return TOP


def status_states( src, fn, art, status_attr='status', ext_attr='status_ext', may_raise=None ):
    """forward typestate of <art>.status / <art>.status_ext over fn's CFG -> ( cfg, state_in per node, edge_state fn )"""
    cfg = CFG( fn, may_raise=may_raise or status_may_raise( art ))
    s_name, e_name = '%s.%s' % ( art, status_attr ), '%s.%s' % ( art, ext_attr )

    def assigned( n ):
        st = n.stmt
        if n.kind != 'stmt' or st is None:
            return {}
        out = {}
        if isinstance( st, ast.Assign ):
            for t in st.targets:
                d = dotted( t )
                if d == s_name:
                    out['status'] = _status_values( st.value, src, st )
                elif d == e_name:
                    out['ext'] = frozenset( [ _ext_value( st.value ) ] ) if _ext_value( st.value ) is not TOP else TOP
                elif isinstance( t, ast.Subscript ) and dotted( t.value ) == art and try_fold( t.slice ) in ( status_attr, ):
                    out['status'] = _status_values( st.value, src, st )
        elif isinstance( st, ast.Expr ) and isinstance( st.value, ast.Call ) and call_name( st.value ) == art + '.pop' \
             and st.value.args and try_fold( st.value.args[0] ) == ext_attr:
            out['ext'] = frozenset( [ 'absent' ] )
        return out

    def transfer( n, label, state ):
        if label == 'exc':
            return state				# the statement did not complete
        a = assigned( n )
        if not a:
            return state
        st = dict( state )
        st.update( a )
        return tuple( sorted( st.items(), key=lambda kv: kv[0] ))

    def join( a, b ):
        da, db = dict( a ), dict( b )
        out = {}
        for k in ( 'status', 'ext' ):
            x, y = da.get( k, TOP ), db.get( k, TOP )
            if x == y:
                out[k] = x
            elif TOP in ( x, y ) or NONZERO in ( x, y ):
                out[k] = TOP if TOP in ( x, y ) or x != y else NONZERO
            else:
                out[k] = x | y
        return tuple( sorted( out.items(), key=lambda kv: kv[0] ))

    init = tuple( sorted( { 'status': TOP, 'ext': TOP }.items() ))
    state_in = cfg.forward( init, transfer, join )
    return cfg, { n: dict( s ) for n, s in state_in.items() }


def _show( v ):
    if v in ( TOP, NONZERO ):
        return v
    return '{' + ','.join( '0x%02X' % x if isinstance( x, int ) else str( x ) for x in sorted( v, key=str )) + '}'


def _request_try( src, fn, art ):
    """the try statement(s) of a handler that implement the status discipline: handler catches Exception and the body pre-sets <art>.status"""
    out = []
    for t in walk_no_nested( fn ):
        if isinstance( t, ast.Try ) and any( h.type is not None and dotted( h.type ) == 'Exception' for h in t.handlers ):
            pre = [ s for s in ast.walk( t ) if isinstance( s, ast.Assign ) and any( dotted( x ) == art + '.status' for x in s.targets ) ]
            if pre:
                out.append( t )
    return out


HANDLERS = (	# ( file, qualified function, artifact name, success statuses )
    ( DEVICE, 'Object.request', 'data', ( 0x00, )),
    ( DEVICE, 'Message_Router.request', 'data', ( 0x00, )),
    ( LOGIX, 'Logix.request', 'data', ( 0x00, 0x06 )),
    ( DEVICE, 'Connection_Manager.request', 'data', ( 0x00, )),
)


@rule( 'S-STATUS', props=( 'C05', 'C07', 'C08', 'C15' ), floor=40 )
def s_status( ctx ):
    """typestate of data.status: at every statement in a request handler's try that may raise, the status is a non-success constant; the handler converts, never re-raises"""
    res = Result( 'S-STATUS' )
    for rel, qn, art, success in HANDLERS:
        src = ctx.src( rel )
        fn = src.get( qn )
        tries = _request_try( src, fn, art )
        if not tries:
            res.bad( src, fn, qn, 'no try/except Exception with a pre-set failure status: exceptions of request processing escape instead of becoming an error reply' )
            continue
        cfg, st = status_states( src, fn, art )
        for t in tries:
            # the dispatch node of this try
            disp = [ n for n in cfg.nodes if n.kind == 'dispatch' and n.stmt is t ]
            if not disp:
                raise AnalysisError( '%s: no dispatch node for the request try' % qn )
            disp = disp[0]
            # a handler that itself stores a failure constant ( a statement of its own body, ahead of anything that renders ) converts whatever
            # the status was when the exception was raised
            hx = [ x for x in t.handlers if x.type is not None and dotted( x.type ) == 'Exception' ][0]
            own = [ b for b in hx.body if isinstance( b, ast.Assign ) and any( dotted( x ) == art + '.status' for x in b.targets )
                    and isinstance( try_fold( b.value ), int ) and try_fold( b.value ) not in success and try_fold( b.value ) != 0 ]
            for p, label in cfg.pred[disp]:
                if label != 'exc' or p not in st:
                    continue
                if own:
                    res.ok( src, p.stmt if p.kind == 'stmt' else p.expr, 'may raise: the handler stores the failure status 0x%02X itself' % try_fold( own[0].value ))
                    continue
                sv = st[p].get( 'status', TOP )
                what = p.stmt if p.kind == 'stmt' else p.expr
                if p.kind == 'stmt' and isinstance( p.stmt, ast.Raise ) and sv == NONZERO:
                    res.ok( src, p.stmt, 'forced-failure idiom: status = configured error, then raise' )
                    continue
                if sv in ( TOP, NONZERO ):
                    res.bad( src, what, what, 'may raise while %s.status is not a known failure constant (%s): the error reply would carry an undefined status' % ( art, sv ), func=qn )
                elif set( sv ) & set( success ):
                    res.bad( src, what, what, 'may raise while %s.status can be a success code %s: a failed request would be acknowledged as successful' % ( art, _show( sv )), func=qn )
                else:
                    res.ok( src, what, 'may raise with status %s ext %s' % ( _show( sv ), _show( st[p].get( 'ext', TOP ))))
            # the handler: no re-raise, no reset to success; its sanity assert agrees with the typestate
            h = [ x for x in t.handlers if x.type is not None and dotted( x.type ) == 'Exception' ][0]
            hn = [ n for n in cfg.nodes if n.kind == 'handler' and n.stmt is h ]
            hstate = st.get( hn[0], {} ).get( 'status', TOP ) if hn else TOP
            bad_h = False
            for s in ast.walk( h ):
                if isinstance( s, ast.Raise ):
                    res.bad( src, s, s, 'the request handler re-raises: the requester gets no error reply', func=qn ); bad_h = True
                if isinstance( s, ast.Assign ) and any( dotted( x ) == art + '.status' for x in s.targets ):
                    v = try_fold( s.value )
                    if v in success:
                        res.bad( src, s, s, 'exception handler resets the status to success', func=qn ); bad_h = True
                if isinstance( s, ( ast.Return, )):
                    res.bad( src, s, s, 'exception handler returns without producing the error reply', func=qn ); bad_h = True
            if not bad_h:
                res.ok( src, h, 'handler converts the exception to status %s (no re-raise, no reset)' % _show( hstate ))
    # ---- Logix named program points: the codes the property states
    src = ctx.src( LOGIX )
    fn = src.get( 'Logix.request' )
    cfg, st = status_states( src, fn, 'data' )
    def at( node_pred, want_status, want_ext, what ):
        hits = [ n for n in cfg.nodes if n.kind == 'stmt' and n.stmt is not None and node_pred( n.stmt ) and n in st ]
        if not hits:
            raise AnalysisError( 'Logix.request: program point "%s" not found' % what )
        for n in hits:
            sv, ev = st[n].get( 'status', TOP ), st[n].get( 'ext', TOP )
            if sv == frozenset( [ want_status ] ) and ev == frozenset( [ want_ext ] ):
                res.ok( src, n.stmt, '%s fails with status 0x%02X ext %s' % ( what, want_status, [ hex( x ) for x in want_ext ] ))
            else:
                res.bad( src, n.stmt, n.stmt, '%s must fail with status 0x%02X extended %s, but the pre-set status here is %s extended %s' % (
                    what, want_status, [ '0x%04X' % x for x in want_ext ], _show( sv ), _show( ev )), func='Logix.request' )
    at( lambda s: any( is_call_to( c, 'resolve', 'lookup' ) for c in ast.walk( s ) if isinstance( c, ast.Call )) and isinstance( s, ast.Assign ),
        0x05, ( 0x0000, ), 'unknown tag/attribute (resolve/lookup)' )
    # ... the attribute the path names does not exist ( lookup gave None ): still "path destination unknown", not an element range error
    looked = { t_.id for a_ in ast.walk( fn ) if isinstance( a_, ast.Assign ) and is_call_to( a_.value, 'lookup', 'device.lookup' ) for t_ in a_.targets if isinstance( t_, ast.Name ) }
    at( lambda s: isinstance( s, ast.Assert ) and isinstance( s.test, ast.Compare ) and isinstance( s.test.ops[0], ast.IsNot )
        and any( isinstance( a_, ast.Name ) and a_.id in looked and isinstance( b_, ast.Constant ) and b_.value is None
                 for a_, b_ in (( s.test.left, s.test.comparators[0] ), ( s.test.comparators[0], s.test.left ))),
        0x05, ( 0x0000, ), 'unknown attribute ( lookup gave nothing )' )
    at( lambda s: isinstance( s, ast.Assert ) and isinstance( s.test, ast.Compare ) and isinstance( s.test.ops[0], ast.In )
        and 'type' in attrs_in( s.test.left ),
        0xFF, ( 0x2107, ), 'data type mismatch (type-compatibility assert)' )
    at( lambda s: any( is_call_to( c, 'self.reply_elements' ) for c in ast.walk( s )),
        0xFF, ( 0x2105, ), 'element range error (reply_elements)' )
    # ---- the generic attribute services: an Attribute the Object does not have is "path destination unknown" there too ( Get / Set Attribute
    #      Single naming attribute 99 of an existing Object is answered 0x05, as Read Tag on the same path is - not 0x08, "service not supported" )
    dsrc_ = ctx.src( DEVICE )
    ofn_ = dsrc_.get( 'Object.request' )
    ocfg_, ost_ = status_states( dsrc_, ofn_, 'data' )
    exists_ = [ n for n in ocfg_.nodes if n.kind == 'stmt' and isinstance( n.stmt, ast.Assert ) and n in ost_
                and any( isinstance( c_, ast.Compare ) and len( c_.ops ) == 1 and isinstance( c_.ops[0], ast.In ) and dotted( c_.comparators[0] ) == 'self.attribute' for c_ in ast.walk( n.stmt.test )) ]
    if not exists_:
        raise AnalysisError( 'Object.request: the test that the Attribute named by the path exists ( assert ... in self.attribute ) not found' )
    for n in exists_:
        sv = ost_[n].get( 'status', TOP )
        if sv == frozenset( [ 0x05 ] ):
            res.ok( dsrc_, n.stmt, 'Object.request: an Attribute the Object does not have fails with status 0x05' )
        else:
            res.bad( dsrc_, n.stmt, n.stmt, 'an Attribute the Object does not have must fail with status 0x05, but the pre-set status here is %s' % _show( sv ), func='Object.request' )
    # ---- the routing branch of Connection_Manager.request re-raises; UCMM.request converts to a non-zero encapsulation status
    usrc = ctx.src( UCMM )
    ureq = usrc.get( 'UCMM.request' )
    outer = [ t for t in ureq.body if isinstance( t, ast.Try ) ]
    if len( outer ) != 1:
        raise AnalysisError( 'UCMM.request: expected one top-level try' )
    h = [ x for x in outer[0].handlers if x.type is not None and dotted( x.type ) in ( 'Exception', 'BaseException' ) ]
    if not h:
        res.bad( usrc, outer[0], 'UCMM.request try', 'exceptions of request processing are not caught: the session dies instead of getting a non-zero encapsulation status' )
    else:
        h = h[0]
        conv = [ n for n in ast.walk( h ) if isinstance( n, ast.If ) and
                 ( pmatch( n.test, "'enip.status' not in data or data.enip.status == 0" )
                   or pmatch( n.test, "'enip.status' not in data or not data.enip.status" )) ]
        stores = [ s for s in h.body if isinstance( s, ast.Assign ) and ( txt( s.targets[0] ) in ( "data['enip.status']", 'data.enip.status' )) ]
        ok = False
        for c in conv:
            for s in c.body:
                if isinstance( s, ast.Assign ) and txt( s.targets[0] ) in ( "data['enip.status']", 'data.enip.status' ):
                    v = try_fold( s.value )
                    if isinstance( v, int ) and v != 0:
                        ok = True
        for s in stores:
            v = try_fold( s.value )
            if isinstance( v, int ) and v != 0:
                ok = True
        if any( isinstance( s, ast.Raise ) for s in ast.walk( h )):
            res.bad( usrc, h, 'UCMM.request handler', 're-raises: an unroutable/unsupported request gets no reply frame' )
        elif not ok:
            res.bad( usrc, h, 'UCMM.request handler', 'must store a non-zero enip.status when it is absent or 0' )
        else:
            res.ok( usrc, h, 'UCMM.request: any exception -> non-zero enip.status (0x08 unless already set), no re-raise' )
    return res


# ---------------------------------------------------------------------------------------- helpers: local def-use, service feasibility

class LocalDefs:
    """name -> [ defining expressions ] for the locals of one function (tuple targets map every element to the whole value)"""
    def __init__( self, fn ):
        self.defs = {}
        for s in walk_no_nested( fn ):
            if isinstance( s, ast.Assign ):
                for t in s.targets:
                    self._bind( t, s.value )
            elif isinstance( s, ast.AugAssign ):
                self._bind( s.target, s.value )
            elif isinstance( s, ( ast.For, )):
                self._bind( s.target, s.iter )
            elif isinstance( s, ast.With ):
                for it in s.items:
                    if it.optional_vars is not None:
                        self._bind( it.optional_vars, it.context_expr )

    def _bind( self, t, v ):
        if isinstance( t, ast.Name ):
            self.defs.setdefault( t.id, [] ).append( v )
        elif isinstance( t, ( ast.Tuple, ast.List )):
            for e in t.elts:
                self._bind( e, v )

    def roots( self, name, seen=None ):
        """set of defining expressions reachable transitively from name (including through other locals)"""
        seen = set() if seen is None else seen
        out = []
        if name in seen:
            return out
        seen.add( name )
        for v in self.defs.get( name, [] ):
            out.append( v )
            for n in names_in( v ):
                if n in self.defs and n != name:
                    out += self.roots( n, seen )
        return out

    def depends( self, expr, pred ):
        """some defining expression reachable from the names in expr (or expr itself) satisfies pred"""
        if pred( expr ):
            return True
        for n in names_in( expr ):
            for r in self.roots( n ):
                if pred( r ):
                    return True
        return False

    def direct( self, name, pred ):
        return any( pred( v ) for v in self.defs.get( name, [] ))


def class_consts_env( ctx, cname, service_value=None, art='data' ):
    """env for fold(): self.X / cls.X -> class constant of cname (through the MRO); <art>.service -> service_value"""
    from .grammar import grammar_of
    g = grammar_of( ctx )
    def env( d ):
        if d == art + '.service' and service_value is not None:
            return service_value
        if d.startswith( 'self.' ) or d.startswith( 'cls.' ):
            v = g.class_const( cname, d.split( '.', 1 )[1], default=NoFold )
            return v
        if '.' in d:
            c, a = d.rsplit( '.', 1 )
            if c in g.classes:
                return g.class_const( c, a, default=NoFold )
        return NoFold
    return env


def feasible_services( ctx, cfg, cname, target, candidates, art='data' ):
    """service values for which `target` is reachable, deciding every If test that folds once <art>.service is fixed"""
    feas = []
    tests = [ n for n in cfg.nodes if n.kind == 'test' ]
    for v in candidates:
        env = class_consts_env( ctx, cname, v, art )
        fixed = {}
        for t in tests:
            if ( art + '.service' ) not in dotted_in( t.expr ):
                continue
            # only the part of a test that depends on the service alone can be decided; `a or b` with unknown b stays open
            try:
                fixed[t] = bool( fold( t.expr, env ))
            except NoFold:
                r = _partial( t.expr, env )
                if r is not None:
                    fixed[t] = r
        def edge_ok( n, m, label ):
            if n in fixed and label in ( 'true', 'false' ):
                return ( label == 'true' ) == fixed[n]
            return True
        if target in cfg.reachable( cfg.entry, edge_ok=edge_ok ):
            feas.append( v )
    return feas


def _partial( e, env ):
    """three-valued evaluation of and/or with unknown operands: True/False when decided, else None"""
    if isinstance( e, ast.BoolOp ):
        vals = [ _partial( x, env ) for x in e.values ]
        if isinstance( e.op, ast.Or ):
            if any( v is True for v in vals ): return True
            if all( v is False for v in vals ): return False
            return None
        if any( v is False for v in vals ): return False
        if all( v is True for v in vals ): return True
        return None
    if isinstance( e, ast.UnaryOp ) and isinstance( e.op, ast.Not ):
        v = _partial( e.operand, env )
        return None if v is None else not v
    try:
        return bool( fold( e, env ))
    except NoFold:
        return None


def _fold_len( e, envf, Ln ):
    """fold() with len( self ) = Ln"""
    class LenSub( ast.NodeTransformer ):
        def visit_Call( self, node ):
            if is_call_to( node, 'len' ) and node.args and dotted( node.args[0] ) == 'self':
                return ast.copy_location( ast.Constant( value=Ln ), node )
            return self.generic_visit( node )
    import copy
    return fold( LenSub().visit( copy.deepcopy( e )), envf )


def is_attribute_receiver( expr, ld ):
    """expr denotes an Attribute object: bound from lookup( ... ) or self.attribute[ ... ] (directly or via a local)"""
    def base_pred( v ):
        if is_call_to( v, 'lookup', 'device.lookup' ):
            return True
        if isinstance( v, ast.Subscript ) and ( dotted( v.value ) or '' ).endswith( '.attribute' ):
            return True
        return False
    if base_pred( expr ):
        return True
    if isinstance( expr, ast.Name ):
        return ld.direct( expr.id, base_pred ) or any( isinstance( v, ast.Name ) and is_attribute_receiver( v, ld ) for v in ld.defs.get( expr.id, [] ) if v is not expr )
    return False


MUTATORS = ( 'append', 'extend', 'insert', 'pop', 'remove', 'clear', 'sort', 'reverse', '__setitem__', '__delitem__', 'update' )


def attribute_mutations( fn, ld ):
    """statements of fn that can mutate an Attribute's storage -> [ ( stmt, description ) ]"""
    out = []
    for s in walk_no_nested( fn ):
        targets = []
        if isinstance( s, ast.Assign ):
            targets = s.targets
        elif isinstance( s, ast.AugAssign ):
            targets = [ s.target ]
        elif isinstance( s, ast.Delete ):
            targets = s.targets
        for t in targets:
            for tt in ( t.elts if isinstance( t, ( ast.Tuple, ast.List )) else [ t ] ):
                if isinstance( tt, ast.Subscript ) and is_attribute_receiver( tt.value, ld ):
                    out.append(( s, 'element store' ))
                elif isinstance( tt, ast.Attribute ) and tt.attr in ( 'value', 'default', 'scalar', 'parser' ) and is_attribute_receiver( tt.value, ld ):
                    out.append(( s, '.%s store' % tt.attr ))
                elif isinstance( tt, ast.Subscript ) and isinstance( tt.value, ast.Attribute ) and tt.value.attr in ( 'value', 'default' ) \
                     and is_attribute_receiver( tt.value.value, ld ):
                    out.append(( s, '.%s element store' % tt.value.attr ))
        if isinstance( s, ast.Expr ) and isinstance( s.value, ast.Call ) and isinstance( s.value.func, ast.Attribute ) \
           and s.value.func.attr in MUTATORS:
            recv = s.value.func.value
            if is_attribute_receiver( recv, ld ) or ( isinstance( recv, ast.Attribute ) and recv.attr in ( 'value', 'default' )
                                                     and is_attribute_receiver( recv.value, ld )):
                out.append(( s, 'mutator call .%s()' % s.value.func.attr ))
        if isinstance( s, ast.Expr ) and is_call_to( s.value, 'setattr' ) and s.value.args and is_attribute_receiver( s.value.args[0], ld ):
            out.append(( s, 'setattr' ))
    return out


REQUEST_FUNCS = (	# ( file, qualified function, class whose constants its tests use, write-service constant names )
    ( DEVICE, 'Object.request', 'Object', ( 'SA_SNG_RPY', )),
    ( DEVICE, 'Message_Router.request', 'Message_Router', () ),
    ( DEVICE, 'Connection_Manager.request', 'Connection_Manager', () ),
    ( DEVICE, 'Connection_Manager.forward_open', 'Connection_Manager', () ),
    ( DEVICE, 'Connection_Manager.forward_close', 'Connection_Manager', () ),
    ( LOGIX, 'Logix.request', 'Logix', ( 'WR_TAG_RPY', 'WR_FRG_RPY' )),
    ( LOGIX, 'Logix.reply_elements', 'Logix', () ),
    ( LOGIX, 'process', None, () ),
    ( UCMM, 'UCMM.request', None, () ),
    ( UCMM, 'UCMM.list_identity', None, () ),
    ( UCMM, 'UCMM.list_services', None, () ),
    ( UCMM, 'UCMM.list_interfaces', None, () ),
    ( UCMM, 'UCMM.legacy', None, () ),
)


def _service_candidates( ctx, cname ):
    """all *_REQ / *_RPY constants of the class plus the bit-flipped forms"""
    from .grammar import grammar_of
    g = grammar_of( ctx )
    vals = {}
    for c in g.mro( cname ):
        for s in g.classes[c][0].body:
            if isinstance( s, ast.Assign ) and isinstance( s.targets[0], ast.Name ) and ( s.targets[0].id.endswith( '_REQ' ) or s.targets[0].id.endswith( '_RPY' )):
                v = g.class_const( cname, s.targets[0].id )
                if isinstance( v, int ):
                    vals[s.targets[0].id] = v
    return vals


@rule( 'W-ATTR', props=( 'C03', 'C05', 'C08' ), floor=13 )
def w_attr( ctx ):
    """who may write: every statement of the request-processing functions that can mutate an Attribute is reachable only for write services"""
    res = Result( 'W-ATTR' )
    n_mut = 0
    for rel, qn, cname, wnames in REQUEST_FUNCS:
        src = ctx.src( rel )
        fn = src.get( qn, required=( qn in ( 'Object.request', 'Logix.request', 'Message_Router.request', 'Connection_Manager.request', 'UCMM.request' )))
        if fn is None:
            continue
        ld = LocalDefs( fn )
        muts = attribute_mutations( fn, ld )
        if not muts:
            res.ok( src, fn, '%s: no statement mutates an Attribute' % qn, nontrivial=False )
            continue
        if cname is None or not wnames:
            for s, what in muts:
                res.bad( src, s, s, '%s of a tag outside the write services (this function handles no write service)' % what, func=qn )
            continue
        consts = _service_candidates( ctx, cname )
        cfg = CFG( fn )
        cand = sorted( set( consts.values() ) | { 0x7F, 0xFF } )
        wvals = { consts[w] for w in wnames if w in consts }
        if len( wvals ) != len( wnames ):
            raise AnalysisError( '%s: write service constants %s not all found' % ( qn, wnames ))
        for s, what in muts:
            n_mut += 1
            node = cfg.node_of( s )
            if node is None:
                raise AnalysisError( '%s: mutation statement not in CFG' % qn )
            feas = feasible_services( ctx, cfg, cname, node, cand )
            extra = [ v for v in feas if v not in wvals ]
            if extra:
                names = [ k for k, v in consts.items() if v in extra ] or [ hex( v ) for v in extra ]
                res.bad( src, s, s, '%s is reachable for non-write service(s) %s: a read or unrecognised request can change a tag' % ( what, names ), func=qn )
            elif not feas:
                res.bad( src, s, s, '%s is unreachable for every service (write services can no longer store)' % what, func=qn )
            else:
                res.ok( src, s, '%s reachable only for %s' % ( what, [ k for k, v in consts.items() if v in feas ] ))
    if n_mut < 2:
        raise AnalysisError( 'W-ATTR: expected the two tag stores (Logix write, Set Attribute Single), found %d' % n_mut )
    # Attribute's own methods: only __setitem__ and the value setter store
    src = ctx.src( DEVICE )
    cd = src.get( 'Attribute' )
    # __setitem__ stores what it is given, decided by value: the statements from the _validate_key test on, run on a record standing for the
    # Attribute.  "Only when it changes something" is not the same: == does not tell -0.0 from 0.0 ( nor True from 1 ), the write is
    # acknowledged and the old octets are read back
    si = src.get( 'Attribute.__setitem__' )
    KEY, VAL = [ a.arg for a in si.args.args ][1:3]
    start = [ k for k, st in enumerate( si.body ) if isinstance( st, ast.If ) and '_validate_key' in txt( st.test ) ]
    if not start:
        raise AnalysisError( 'Attribute.__setitem__: the test of _validate_key( key ) not found' )
    cells = (( False, slice( 0, 1 ), [ -0.0 ], [ 0.0, 5.0 ], '[-0.0, 5.0]' ), ( False, slice( 1, 2 ), [ True ], [ 0, 1 ], '[0, True]' ),
              ( False, 1, 9, [ 0, 5 ], '[0, 9]' ), ( False, slice( 0, 2 ), [ 3, 4 ], [ 0, 5 ], '[3, 4]' ),
              ( True, slice( 0, 1 ), [ -0.0 ], 0.0, '-0.0' ), ( True, 0, 7, 0, '7' ))
    wrong = []
    for scalar, key, value, held, want in cells:
        inst = Record( scalar=scalar, value=( list( held ) if isinstance( held, list ) else held ))
        env = { 'self': inst, KEY: key, VAL: value, 'slice': slice, 'int': int, 'next': next, 'iter': iter,
                'self._validate_key': lambda k: slice if isinstance( k, slice ) else int }
        try:
            run_block( si.body[start[0]:], env, ignore_calls=( 'log', ))
        except NoFold as exc:
            raise AnalysisError( 'Attribute.__setitem__: not a decision fragment: %s' % exc )
        if repr( inst.value ) != want:
            wrong.append(( scalar, key, value, held, repr( inst.value ), want ))
    if wrong:
        scalar, key, value, held, got, want = wrong[0]
        res.bad( src, si, 'Attribute.__setitem__( %r, %r ) on a %s holding %r leaves %s, not %s' % ( key, value, 'scalar' if scalar else 'vector', held, got, want ),
                 'an acknowledged write stores the values it carried, also where they compare equal to what is held ( -0.0 over 0.0 ): later reads return the old octets' )
    else:
        res.ok( src, si, 'Attribute.__setitem__ stores exactly the value( s ) it is given ( %d cells: scalar / vector x index / slice, -0.0 over 0.0 )' % len( cells ))
    for m in cd.body:
        if isinstance( m, ast.FunctionDef ) and m.name not in ( '__init__', '__setitem__', 'value' ):
            stores = [ s for s in walk_no_nested( m ) if isinstance( s, ( ast.Assign, ast.AugAssign ))
                       and any( isinstance( y, ( ast.Attribute, ast.Subscript )) and isinstance( y.ctx, ast.Store ) and ( dotted( y if isinstance( y, ast.Attribute ) else y.value ) or '' ).startswith( 'self' )
                                for t in ( s.targets if isinstance( s, ast.Assign ) else [ s.target ] ) for y in ast.walk( t )) ]
            if stores:
                res.bad( src, stores[0], stores[0], 'Attribute.%s mutates the tag: reading must not write' % m.name )
            else:
                res.ok( src, m, 'Attribute.%s does not store' % m.name, nontrivial=False )
    return res


def _dotted_all( node ):
    return [ d for d in ( dotted( n ) for n in ast.walk( node ) if isinstance( n, ( ast.Attribute, ast.Name ))) if d ]


@rule( 'D-VALIDATE', props=( 'C05', 'C08' ), floor=8 )
def d_validate( ctx ):
    """validation dominates the store: type assert + reply_elements before the Logix slice store; the four range guards exist; byte-count assert before Set Attribute Single"""
    res = Result( 'D-VALIDATE' )
    src = ctx.src( LOGIX )
    fn = src.get( 'Logix.request' )
    ld = LocalDefs( fn )
    cfg = CFG( fn )
    stores = [ s for s, what in attribute_mutations( fn, ld ) ]
    if not stores:
        raise AnalysisError( 'Logix.request: tag store not found' )
    type_asserts = [ n for n in cfg.nodes if n.kind == 'stmt' and isinstance( n.stmt, ast.Assert ) and isinstance( n.stmt.test, ast.Compare )
                     and isinstance( n.stmt.test.ops[0], ast.In ) and 'type' in attrs_in( n.stmt.test.left ) ]
    range_calls = [ n for n in cfg.nodes if n.kind == 'stmt' and n.stmt is not None and any( is_call_to( c, 'self.reply_elements' ) for c in ast.walk( n.stmt )) ]
    for s in stores:
        node = cfg.node_of( s )
        if not type_asserts:
            res.bad( src, s, s, 'no type-compatibility assert exists before the tag store' )
        elif cfg.must_pass( cfg.entry, node, type_asserts ):
            res.ok( src, s, 'type-compatibility assert dominates the store' )
        else:
            res.bad( src, s, s, 'a path reaches the tag store without passing the type-compatibility assert' )
        if not range_calls:
            res.bad( src, s, s, 'reply_elements (range validation) is not called before the tag store' )
        elif cfg.must_pass( cfg.entry, node, range_calls ):
            res.ok( src, s, 'reply_elements call dominates the store' )
        else:
            res.bad( src, s, s, 'a path reaches the tag store without passing reply_elements' )
        # every refusal is decided ahead of the store: behind it nothing refuses any more ( a configured error code included )
        behind = cfg.reachable( [ m for m, label in cfg.succ[node] if label != 'exc' ], edge_ok=lambda a_, b_, label: label != 'exc' )
        late = sorted(( n_ for n_ in behind if n_.kind == 'stmt' and isinstance( n_.stmt, ( ast.Assert, ast.Raise )) and n_ is not node ), key=lambda n_: n_.stmt.lineno )
        if late:
            res.bad( src, late[0].stmt, 'a refusal ( %s ) is reachable behind the tag store of Logix.request' % norm_text( late[0].stmt )[:60],
                     'a Write Tag refused there is answered with a failure status although the tag already holds the new values' )
        else:
            res.ok( src, s, 'nothing behind the tag store of Logix.request refuses the request' )
        # the stored slice bounds must be the ones reply_elements returned
        if isinstance( s, ast.Assign ) and isinstance( s.targets[0], ast.Subscript ) and isinstance( s.targets[0].slice, ast.Slice ):
            sl = s.targets[0].slice
            lo, hi = dotted( sl.lower ) if sl.lower is not None else None, dotted( sl.upper ) if sl.upper is not None else None
            bound = None
            for n in range_calls:
                if isinstance( n.stmt, ast.Assign ) and isinstance( n.stmt.targets[0], ast.Tuple ):
                    names = [ dotted( e ) for e in n.stmt.targets[0].elts ]
                    bound = names[:2]
            if bound and [ lo, hi ] == bound and sl.step is None:
                res.ok( src, s, 'store slice [%s:%s] = the validated ( beg, end )' % ( lo, hi ))
            else:
                res.bad( src, s, s, 'the stored slice is not the validated (beg, end) pair returned by reply_elements' )
    # ---- the range guards inside reply_elements
    re_fn = src.get( 'Logix.reply_elements' )
    rld = LocalDefs( re_fn )
    params = [ a.arg for a in re_fn.args.args ]
    attr_p, data_p = params[1], params[2]
    is_cnt = lambda v: is_call_to( v, 'len' ) and v.args and dotted( v.args[0] ) == attr_p
    is_idx = lambda v: is_call_to( v, 'resolve_element' ) or ( isinstance( v, ast.Subscript ) and isinstance( v.value, ast.Name )
                                                              and rld.direct( v.value.id, lambda w: is_call_to( w, 'resolve_element' )))
    is_elm = lambda v: isinstance( v, ast.Call ) and isinstance( v.func, ast.Attribute ) and v.func.attr == 'get' and v.args and try_fold( v.args[0] ) == 'elements'
    is_wlen = lambda v: is_call_to( v, 'len' ) and v.args and isinstance( v.args[0], ast.Attribute ) and v.args[0].attr == 'data' \
        and data_p in names_in( v.args[0] )
    cnt_vars = { n for n in rld.defs if rld.direct( n, is_cnt ) }
    elm_vars = { n for n in rld.defs if rld.direct( n, lambda v: any( is_elm( w ) for w in ast.walk( v ))) }
    # the count default is selected by PRESENCE of .elements ( .get( 'elements', default )), never by truthiness: an explicit count of 0
    # is an invalid request and must stay 0 so that the range assertions refuse it
    for n_ in sorted( elm_vars ):
        for v in rld.defs[n_]:
            if is_elm( v ) and len( v.args ) == 2:
                res.ok( src, v, 'element count = .get( \'elements\', default ): the default applies only when the request carries no count' )
            else:
                res.bad( src, v, v, 'the element count default is selected by truthiness: an explicit count of 0 is turned into "all remaining elements", so a zero-count write carrying data is accepted and stored instead of refused' )
    ret = [ s for s in re_fn.body if isinstance( s, ast.Return ) ]
    if not ret or not isinstance( ret[-1].value, ast.Tuple ) or len( ret[-1].value.elts ) < 3:
        raise AnalysisError( 'reply_elements: return tuple not found' )
    beg_v, end_v, endact_v = [ dotted( e ) for e in ret[-1].value.elts[:3] ]
    if not cnt_vars or not elm_vars:
        raise AnalysisError( 'reply_elements: roles cnt=%s elm=%s not found' % ( cnt_vars, elm_vars ))
    # collect raising comparisons: asserts (and `if not cond: raise`)
    guards = []
    for s in walk_no_nested( re_fn ):
        if isinstance( s, ast.Assert ):
            guards.append(( s, s.test ))
    def pairs( test ):
        """( left, op, right ) triples of every comparison link of an and-ed test"""
        out = []
        for c in ( test.values if isinstance( test, ast.BoolOp ) and isinstance( test.op, ast.And ) else [ test ] ):
            if isinstance( c, ast.Compare ):
                left = c.left
                for op, r in zip( c.ops, c.comparators ):
                    # orientation-normalised: a > b is reported as b < a
                    if isinstance( op, ast.Gt ):
                        out.append(( r, ast.Lt(), left, c ))
                    elif isinstance( op, ast.GtE ):
                        out.append(( r, ast.LtE(), left, c ))
                    else:
                        out.append(( left, op, r, c ))
                    left = r
        return out
    found = { 'beg>=0': None, 'beg<cnt': None, 'elm<=cnt': None, 'beg<end': None, 'wend<=endactual': None, 'endactual<=cnt': None }
    wrong = []
    for s, test in guards:
        for l, op, r, c in pairs( test ):
            ld_, rd_ = dotted( l ), dotted( r )
            # 0 <= beg
            if try_fold( l ) == 0 and rd_ == beg_v:
                if isinstance( op, ast.LtE ): found['beg>=0'] = s
                else: wrong.append(( s, c, 'lower bound of the first element must be 0 <= beg' ))
            if try_fold( r ) == 0 and ld_ == beg_v and isinstance( op, ast.GtE ):
                found['beg>=0'] = s
            # beg < cnt
            if ld_ == beg_v and rd_ in cnt_vars:
                if isinstance( op, ast.Lt ): found['beg<cnt'] = s
                else: wrong.append(( s, c, 'first element must be strictly below the tag length (beg < cnt); %s admits beg == len' % type( op ).__name__ ))
            if rd_ == beg_v and ld_ in cnt_vars:
                if isinstance( op, ast.Gt ): found['beg<cnt'] = s
                else: wrong.append(( s, c, 'first element must be strictly below the tag length' ))
            # elm <= cnt
            if ld_ in elm_vars and rd_ in cnt_vars:
                if isinstance( op, ( ast.LtE, )): found['elm<=cnt'] = s
                elif isinstance( op, ast.Lt ): wrong.append(( s, c, 'element count equal to the tag length must be accepted (elm <= cnt)' ))
                else: wrong.append(( s, c, 'element count must be bounded by the tag length (elm <= cnt)' ))
            # endactual <= cnt: the WHOLE requested extent lies inside the tag.  ( The slice check of Attribute refuses a range past the end
            # only in the reply that finally reaches it: a transfer of several fragments has by then delivered - or stored - its leading
            # fragments with status 0x06 / 0x00. )
            if ld_ == endact_v and rd_ in cnt_vars:
                if isinstance( op, ast.LtE ) and src.parent.get( s ) is re_fn: found['endactual<=cnt'] = s
                elif isinstance( op, ast.LtE ): pass		# a further check inside one branch: harmless, and not the guard looked for
                else: wrong.append(( s, c, 'a range ending exactly at the end of the tag must be accepted, one past it refused (endactual <= cnt)' ))
            # beg < end
            if ld_ == beg_v and rd_ == end_v:
                if isinstance( op, ast.Lt ): found['beg<end'] = s
                else: wrong.append(( s, c, 'an empty or reversed range must be refused (beg < end)' ))
            # write capacity: X <= endactual where X depends on len( data[context].data )
            if rd_ == endact_v and isinstance( l, ( ast.Name, ast.BinOp )) and rld.depends( l, is_wlen ):
                if isinstance( op, ast.LtE ): found['wend<=endactual'] = s
                else: wrong.append(( s, c, 'written elements must not extend past the requested range (endmax <= endactual)' ))
    for s, c, why in wrong:
        res.bad( src, s, c, why, func='Logix.reply_elements' )
    # ---- a path with several element segments ( Q[1,99] ) is refused: reply_elements asserts that the index tuple has ONE entry, and
    # resolve_element collects EVERY element segment - a loop that stops at the first one ( break / return inside it ) makes the assertion
    # dead: the second index is dropped silently, Q[1,99] is served as Q[1]
    dsrc = ctx.src( 'server/enip/device.py' )
    rel_ = dsrc.get( 'resolve_element' )
    loops_ = [ l_ for l_ in walk_no_nested( rel_ ) if isinstance( l_, ast.For ) and any( isinstance( c_, ast.Call ) and isinstance( c_.func, ast.Attribute ) and c_.func.attr == 'append' for c_ in ast.walk( l_ )) ]
    one_dim = [ a_ for a_ in walk_no_nested( re_fn ) if isinstance( a_, ast.Assert ) and any( isinstance( c_, ast.Compare ) and is_call_to( c_.left, 'len' ) and isinstance( c_.ops[0], ast.Eq ) and try_fold( c_.comparators[0] ) == 1
                                                                                            and c_.left.args and rld.direct( dotted( c_.left.args[0] ) or '', lambda w: is_call_to( w, 'resolve_element' )) for c_ in ast.walk( a_.test )) ]
    if not loops_:
        raise AnalysisError( 'resolve_element: the loop collecting element segments not found' )
    early_ = [ b_ for b_ in ast.walk( loops_[0] ) if isinstance( b_, ( ast.Break, ast.Return )) ]
    if one_dim and not early_:
        res.ok( src, one_dim[0], 'a path with more than one element segment is refused ( every element segment is collected, exactly one is accepted )' )
    elif not one_dim:
        res.bad( src, re_fn, 'reply_elements does not assert a single-dimensional index', 'a multi-dimensional index would be served through its first entry', func='Logix.reply_elements' )
    else:
        res.bad( dsrc, early_[0], 'resolve_element stops at the first element segment', 'the assertion in reply_elements that the index has one entry can never fail: Q[1,99] is served as Q[1] - read and WRITTEN - with status success', func='resolve_element' )
    # a PLAIN Write Tag carries exactly the elements it announces ( for the Fragmented service the count is that of the whole range ): an
    # assert `<fragmented service> or <written end> == <requested end>` ( or len( data ) == elements ).  Sized from the data present alone,
    # a truncated Write Tag that announces 5 elements and carries 2 is acknowledged and stores the 2.
    found['plain write: written == announced'] = None
    for s_, test in guards:
        alts = test.values if isinstance( test, ast.BoolOp ) and isinstance( test.op, ast.Or ) else [ test ]
        eqs = [ c_ for c_ in alts if isinstance( c_, ast.Compare ) and len( c_.ops ) == 1 and isinstance( c_.ops[0], ast.Eq )
                and (( rld.depends( c_.left, is_wlen ) and ( dotted( c_.comparators[0] ) == endact_v or dotted( c_.comparators[0] ) in elm_vars ))
                     or ( rld.depends( c_.comparators[0], is_wlen ) and ( dotted( c_.left ) == endact_v or dotted( c_.left ) in elm_vars ))) ]
        others = [ c_ for c_ in alts if c_ not in eqs ]
        if eqs and all( 'WR_FRG_RPY' in attrs_in( o_ ) and 'WR_TAG_RPY' not in attrs_in( o_ ) for o_ in others ):
            found['plain write: written == announced'] = s_
    if found['endactual<=cnt'] is not None and found['elm<=cnt'] is None and not wrong:
        found['elm<=cnt'] = found['endactual<=cnt']   # implied: beg >= 0
    for k, s in found.items():
        if s is None:
            if not any( True for _ in wrong ):
                res.bad( src, re_fn, 'range obligation %s has no raising guard in reply_elements' % k,
                         'out-of-range requests would be acknowledged (or tags truncated/extended by the slice store)', func='Logix.reply_elements' )
            else:
                res.bad( src, re_fn, 'range obligation %s has no raising guard in reply_elements' % k, 'guard missing or altered', func='Logix.reply_elements' )
        else:
            res.ok( src, s, 'guard %s: %s' % ( k, norm_text( s.test )))
    # endactual must be beg0 + elm (the guard compares against the *requested* extent)
    if rld.depends( ast.Name( id=endact_v, ctx=ast.Load() ), is_elm ) and rld.depends( ast.Name( id=endact_v, ctx=ast.Load() ), is_idx ):
        res.ok( src, re_fn, '%s derives from the path index and the requested element count' % endact_v )
    else:
        res.bad( src, re_fn, endact_v, 'the requested extent must derive from the path element index and .elements', func='Logix.reply_elements' )
    # ... and is not clamped to the tag length: a request reaching past the end must stay detectable (the slice check refuses it)
    cnt_dep = any( is_cnt( y ) or ( isinstance( y, ast.Name ) and y.id in cnt_vars ) for d_ in rld.defs.get( endact_v, [] ) for y in ast.walk( d_ ))
    # ( an assert `endactual <= cnt` on a clamped extent is vacuous )
    if cnt_dep:
        d0 = rld.defs.get( endact_v, [ None ] )[0]
        res.bad( src, d0 if d0 is not None else re_fn, '%s = %s' % ( endact_v, norm_text( d0 ) if d0 is not None else '?' ),
                 'the requested extent is clamped to the tag length: a request for elements past the end of the tag is silently shortened and acknowledged instead of being refused with 0xFF/0x2105', func='Logix.reply_elements' )
    else:
        res.ok( src, re_fn, '%s is the requested extent (not clamped to the tag length)' % endact_v )
    # end = min( endactual, endmax )
    ends = rld.defs.get( end_v, [] )
    if any( is_call_to( v, 'min' ) and endact_v in [ dotted( a ) for a in v.args ] for v in ends ):
        res.ok( src, re_fn, '%s = min( %s, ... ): the end can only shrink' % ( end_v, endact_v ))
    else:
        res.bad( src, re_fn, '%s' % end_v, 'end must be min( endactual, endmax )', func='Logix.reply_elements' )
    # ---- Attribute._validate_key: slice store cannot truncate or extend
    dsrc = ctx.src( DEVICE )
    vk = dsrc.get( 'Attribute._validate_key' )
    # decision-table check of the slice acceptance condition: evaluate it over a finite domain of ( tag length, requested slice ) and
    # compare with the specification "stride 1, non-empty, inside the tag, and the requested stop was not clipped by slice.indices()"
    unpack = [ ( n, m ) for n, m in pfind( vk, '( _a, _b, _c ) = key.indices( len( self ))' ) ]
    accept_if = None
    for i in ast.walk( vk ):
        if isinstance( i, ast.If ) and any( pmatch( b_, 'return slice' ) for b_ in i.body ) and unpack:
            accept_if = i
    if not unpack or accept_if is None:
        res.bad( dsrc, vk, '_validate_key slice branch', 'slice keys must be normalised with key.indices( len( self )) and accepted only under an explicit condition' )
    else:
        na, nb, nc = ( unpack[0][1][k].id for k in ( '_a', '_b', '_c' ))
        cells = wrong = 0
        first_bad = None
        for Ln in range( 0, 5 ):
            for a_ in ( None, -1, 0, 1, 2, 3, 5 ):
                for b_ in ( None, -1, 0, 1, 2, 3, 4, 5, 7 ):
                    for c_ in ( None, 1, 2, -1 ):
                        st_, sp_, sd_ = slice( a_, b_, c_ ).indices( Ln )
                        env = { na: st_, nb: sp_, nc: sd_, 'key.stop': b_, 'key.start': a_, 'key.step': c_ }
                        def envf( d, env=env, Ln=Ln ):
                            if d in env: return env[d]
                            return NoFold
                        class _E( dict ): pass
                        try:
                            got = bool( _fold_len( accept_if.test, envf, Ln ))
                        except NoFold as exc:
                            raise AnalysisError( '_validate_key condition outside the modelled subset: %s' % exc )
                        want = sd_ == 1 and 0 <= st_ < sp_ <= Ln and ( b_ is None or b_ == sp_ )
                        cells += 1
                        if got != want:
                            wrong += 1
                            if first_bad is None:
                                first_bad = ( Ln, a_, b_, c_, got, want )
        res.cells += cells
        if wrong == 0:
            res.ok( dsrc, accept_if, '_validate_key accepts exactly stride-1, non-empty, in-range, unclipped slices (%d cells): %s' % ( cells, norm_text( accept_if.test )))
        else:
            Ln, a_, b_, c_, got, want = first_bad
            res.bad( dsrc, accept_if, accept_if.test, 'slice acceptance differs from "stride 1, non-empty, within the tag, not clipped" on %d of %d cells, e.g. tag length %d, '
                     'key [%s:%s:%s] is %s (a clipped slice silently truncates a read / lets a write extend the tag)' % ( wrong, cells, Ln, a_, b_, c_, 'accepted' if got else 'refused' ))
    si = dsrc.get( 'Attribute.__setitem__' ); gi = dsrc.get( 'Attribute.__getitem__' )
    for f in ( si, gi ):
        calls = [ n for n in ast.walk( f ) if is_call_to( n, 'self._validate_key' ) ]
        c2 = CFG( f )
        subs = [ n for n in c2.nodes if n.kind == 'stmt' and n.stmt is not None and any(
            isinstance( y, ast.Subscript ) and txt( y.value ) == 'self.value' for y in ast.walk( n.stmt )) ]
        vnodes = [ n for n in c2.nodes if n.stmt is not None and ( n.kind in ( 'stmt', 'test' )) and any( is_call_to( y, 'self._validate_key' ) for y in ast.walk( n.expr if n.kind == 'test' else n.stmt )) ]
        if subs and vnodes and all( c2.must_pass( c2.entry, n, vnodes ) for n in subs ):
            res.ok( dsrc, f, '%s: _validate_key dominates every access to the underlying list' % f.name )
        else:
            res.bad( dsrc, f, f.name, 'key validation must precede every access to the underlying list' )
    # ---- Object.request: exact byte count before Set Attribute Single store
    ofn = dsrc.get( 'Object.request' )
    old = LocalDefs( ofn )
    ocfg = CFG( ofn )
    ostores = [ s for s, w in attribute_mutations( ofn, old ) ]
    cnt_asserts = [ n for n in ocfg.nodes if n.kind == 'stmt' and isinstance( n.stmt, ast.Assert )
                    and any( isinstance( c, ast.Compare ) and isinstance( c.ops[0], ast.Eq ) and is_call_to( c.left, 'len' )
                             and 'set_attribute_single' in attrs_in( c.left )
                             and isinstance( c.comparators[0], ast.BinOp ) and isinstance( c.comparators[0].op, ast.Mult )
                             for c in ast.walk( n.stmt.test )) ]
    if not ostores:
        raise AnalysisError( 'Object.request: Set Attribute Single store not found' )
    for s in ostores:
        if not cnt_asserts:
            res.bad( dsrc, s, s, 'no exact byte-count assert ( len( data ) == size * len( attribute )) precedes the Set Attribute Single store' )
        elif ocfg.must_pass( ocfg.entry, ocfg.node_of( s ), cnt_asserts ):
            res.ok( dsrc, s, 'exact byte-count assert dominates the Set Attribute Single store' )
        else:
            res.bad( dsrc, s, s, 'a path reaches the Set Attribute Single store without the exact byte-count assert' )
    # ... and element k of the stored list is decoded from the octets [ k*size, (k+1)*size ): evaluated on a 3-element, 4-octet sample
    for s in ostores:
        vname = dotted( s.value )
        comps = [ d for d in old.defs.get( vname, [] ) if isinstance( d, ast.ListComp ) ] if vname else ( [ s.value ] if isinstance( s.value, ast.ListComp ) else [] )
        if not comps:
            raise AnalysisError( 'Object.request: decoding of the Set Attribute Single elements not recognised' )
        comp = comps[0]
        g = comp.generators[0]
        names_ = { n_ for n_ in names_in( comp ) }
        env = {}
        for nm in names_:
            for d in old.defs.get( nm, [] ):
                if pmatch( d, '_a.parser.struct_calcsize' ) is not None:
                    env[nm] = 4
                elif is_call_to( d, 'bytearray', 'bytes' ):
                    env[nm] = bytes( 12 )
                elif isinstance( d, ast.Subscript ) and 'attribute' in attrs_in( d ):
                    env[nm] = [ 0, 0, 0 ]
        off = width = None
        um = pmatch( comp.elt, 'struct.unpack( _fmt, _buf[_a:_b] )[0]' )
        uf = pmatch( comp.elt, 'struct.unpack_from( _fmt, _buf, _o )[0]' )
        try:
            idx = fold( g.iter, env )
            offs = []
            for i_ in idx:
                e2 = dict( env ); e2[g.target.id] = i_
                if um is not None:
                    offs.append(( fold( um['_a'], e2 ), fold( um['_b'], e2 ) - fold( um['_a'], e2 )))
                elif uf is not None:
                    offs.append(( fold( uf['_o'], e2 ), 4 ))
                else:
                    raise AnalysisError( 'Object.request: Set Attribute Single element decoder not recognised: %s' % norm_text( comp.elt ))
        except NoFold as exc:
            if res.findings:
                continue			# the byte-count clause above already reports this store; its decoding need not be modelled as well
            raise AnalysisError( 'Object.request: Set Attribute Single decoding outside the modelled subset: %s' % str( exc )[:80] )
        res.cells += 3
        if offs == [ ( 0, 4 ), ( 4, 4 ), ( 8, 4 ) ]:
            res.ok( dsrc, comp, 'Set Attribute Single: element k is decoded from octets [ k*size, (k+1)*size )' )
        else:
            res.bad( dsrc, comp, 'Set Attribute Single decodes 3 x 4-octet elements from ( offset, width ) %s' % offs,
                     'element k must come from octets k*size .. (k+1)*size: with the element index used as the byte offset an array of 2-, 4- or 8-octet values is stored as garbage although the reply says success' )
    # ... every refusal of the attribute services is decided ahead of the store: behind it, nothing may refuse any more
    for s in ostores:
        sn = ocfg.node_of( s )
        behind = ocfg.reachable( [ m for m, label in ocfg.succ[sn] if label != 'exc' ], edge_ok=lambda n, m, label: label != 'exc' )
        late = sorted(( n for n in behind if n.kind == 'stmt' and isinstance( n.stmt, ( ast.Assert, ast.Raise )) and n is not sn ),
                      key=lambda n: n.stmt.lineno )
        if late:
            res.bad( dsrc, late[0].stmt, 'a refusal ( %s ) is reachable behind the Set Attribute Single store' % norm_text( late[0].stmt )[:60],
                     'a request refused there is answered with a failure status although the Attribute already holds the new values' )
        else:
            res.ok( dsrc, s, 'nothing behind the Set Attribute Single store refuses the request' )
    # ... and the refusals the read arm is under hold for the store too ( existence, availability mask )
    reads = [ n for n in ocfg.nodes if n.kind == 'stmt' and isinstance( n.stmt, ast.AugAssign )
              and any( isinstance( c, ast.Call ) and isinstance( c.func, ast.Attribute ) and c.func.attr == 'produce' and not c.args
                       for c in ast.walk( n.stmt.value ))
              and any( isinstance( t, ast.If ) and any( a.endswith( 'GA_SNG_RPY' ) for a in _dotted_all( t.test )) and 'SA_SNG_RPY' not in txt( t.test )
                       for t in dsrc.ancestors( n.stmt )) ]
    guards = [ n for n in ocfg.nodes if n.kind == 'stmt' and isinstance( n.stmt, ast.Assert )
               and 'set_attribute_single' not in attrs_in( n.stmt.test ) and 'get_attribute_single' not in attrs_in( n.stmt.test ) ]
    if len( reads ) != 1:
        raise AnalysisError( 'Object.request: Get Attribute Single read ( result += <attribute>.produce() under the GA_SNG_RPY test ) found %d times' % len( reads ))
    # ( a test written inside the Get arm counts when it is about the addressed Attribute - reads self.attribute[ ... ] or a local bound to it -
    #   not when it is about the reply being rendered there )
    ga_arm = [ t for t in dsrc.ancestors( reads[0].stmt ) if isinstance( t, ast.If ) and any( a.endswith( 'GA_SNG_RPY' ) for a in _dotted_all( t.test )) and 'SA_SNG_RPY' not in txt( t.test ) ]
    in_arm = lambda st: any( st is x for t in ga_arm for b in t.body for x in ast.walk( b ))
    def about_attribute( test ):
        if 'attribute' in attrs_in( test ):
            return True
        return any( isinstance( x, ast.Name ) and any( isinstance( v, ast.Subscript ) and ( dotted( v.value ) or '' ).endswith( 'attribute' ) for v in old.defs.get( x.id, [] )) for x in ast.walk( test ))
    over_read = [ g for g in guards if ocfg.must_pass( ocfg.entry, reads[0], [ g ] ) and ( not in_arm( g.stmt ) or about_attribute( g.stmt.test )) ]
    if len( over_read ) < 2:
        res.bad( dsrc, reads[0].stmt, 'Get Attribute Single is served under %d refusal tests' % len( over_read ),
                 'the Attribute must exist and be available ( mask ) before it is rendered' )
    for s in ostores:
        sn = ocfg.node_of( s )
        def alike( g ):	# the same test written again in the store's own arm ( through a local for the Attribute, say )
            def key( t ):
                return ( frozenset( attrs_in( t )) - { 'attribute' },
                         tuple( type( o ).__name__ for o in ast.walk( t ) if isinstance( o, ( ast.operator, ast.unaryop, ast.cmpop, ast.boolop ))))
            return [ h for h in guards if h is not g and key( h.stmt.test ) == key( g.stmt.test ) ]
        missing = [ g for g in over_read if not ocfg.must_pass( ocfg.entry, sn, [ g ] + alike( g )) ]
        if missing:
            res.bad( dsrc, missing[0].stmt, 'the refusal test %s guards Get Attribute Single but not the Set Attribute Single store' % norm_text( missing[0].stmt.test )[:70],
                     'an Attribute withheld from the single-attribute services is overwritten and the write acknowledged' )
        else:
            res.ok( dsrc, s, 'the %d refusal tests of Get Attribute Single dominate the Set Attribute Single store too' % len( over_read ))
    return res


@rule( 'D-TYPE', props=( 'C03', ), floor=2 )
def d_type( ctx ):
    """read replies report the tag's own type: .type / .structure_tag are assigned from attribute.parser, never from request data"""
    res = Result( 'D-TYPE' )
    src = ctx.src( LOGIX )
    fn = src.get( 'Logix.request' )
    ld = LocalDefs( fn )
    n = 0
    for s in walk_no_nested( fn ):
        if isinstance( s, ast.Assign ):
            for t in s.targets:
                if isinstance( t, ast.Attribute ) and t.attr in ( 'type', 'structure_tag' ) and 'data' in names_in( t ):
                    n += 1
                    v = s.value
                    ok = isinstance( v, ast.Attribute ) and isinstance( v.value, ast.Attribute ) and v.value.attr == 'parser' \
                        and is_attribute_receiver( v.value.value, ld ) \
                        and (( t.attr == 'type' and v.attr == 'tag_type' ) or ( t.attr == 'structure_tag' and v.attr == 'structure_tag' ))
                    if ok:
                        res.ok( src, s, s )
                    else:
                        res.bad( src, s, s, 'the reply must report the tag\'s own CIP type (attribute.parser.%s)' % ( 'tag_type' if t.attr == 'type' else 'structure_tag' ))
    # the .type store must be reachable for (exactly) the read services
    if n == 0:
        res.bad( src, fn, 'Logix.request read branch', 'the read reply never reports the tag type' )
    # a scalar tag keeps the Python type of its configured default: the value setter converts EVERY assigned value with type( self.default ) -
    # unconditionally.  Skipped for values that "already are" of that type, a bool ( a subclass of int: what a BOOL-typed write delivers )
    # is stored as such, becomes the new default, and every later write is converted with bool(): writing 1234 reads back 1
    dsrc = ctx.src( 'server/enip/device.py' )
    setter = [ f for f in ast.walk( dsrc.tree ) if isinstance( f, ast.FunctionDef ) and f.name == 'value' and dsrc.qualname_of( f ).startswith( 'Attribute' )
               and any( isinstance( d_, ast.Attribute ) and d_.attr == 'setter' for d_ in f.decorator_list ) ]
    if len( setter ) != 1:
        raise AnalysisError( 'Attribute.value setter not found' )
    st_ = [ a_ for a_ in ast.walk( setter[0] ) if isinstance( a_, ast.Assign ) and any( dotted( t_ ) == 'self.default' for t_ in a_.targets ) ]
    PV = setter[0].args.args[1].arg
    if st_ and all( pmatch( a_.value, 'type( self.default )( %s )' % PV ) is not None and dsrc.parent.get( a_ ) is setter[0] for a_ in st_ ):
        res.ok( dsrc, st_[0], 'a scalar tag stores type( self.default )( value ), unconditionally' )
    else:
        res.bad( dsrc, st_[0] if st_ else setter[0], 'Attribute.value setter stores the assigned value without converting it on some path', 'a value of a SUBCLASS of the tag\'s Python type ( bool for an integer tag: a BOOL-typed write ) is kept as it is and becomes the new default: from then on every write to the tag is converted with bool()' )
    # read data comes from the attribute slice [beg:end]
    reads = pfind( fn, '_r = _a[_b:_e]', nested=False )
    got = [ ( node, m ) for node, m in reads if is_attribute_receiver( m['_a'], ld ) ]
    if got:
        node, m = got[0]
        res.ok( src, node, 'read data = attribute[%s:%s]' % ( txt( m['_b'] ), txt( m['_e'] )))
    else:
        res.bad( src, fn, 'Logix.request read branch', 'read data must be the attribute slice [beg:end]' )
    return res


@rule( 'R-SNAPSHOT', props=( 'C03', 'C09' ), floor=4 )
def r_snapshot( ctx ):
    """Attribute slice read/write is one list operation (atomic under the GIL); produce iterates a slice copy, never by index"""
    res = Result( 'R-SNAPSHOT' )
    src = ctx.src( DEVICE )
    gi = src.get( 'Attribute.__getitem__' ); si = src.get( 'Attribute.__setitem__' ); pr = src.get( 'Attribute.produce' )
    for f in ( gi, si ):
        loops = [ n for n in walk_no_nested( f ) if isinstance( n, ( ast.For, ast.While, ast.ListComp, ast.GeneratorExp )) ]
        if loops:
            res.bad( src, loops[0], loops[0], 'element-wise loop in %s: a concurrent reader can observe a half-written range' % f.name )
        else:
            res.ok( src, f, '%s: no element-wise loop' % f.name )
    stores = [ s for s in walk_no_nested( si ) if isinstance( s, ast.Assign ) and any( isinstance( t, ast.Subscript ) and txt( t.value ) == 'self.value' for t in s.targets ) ]
    if stores and all( txt( s.targets[0].slice ) == 'key' for s in stores ):
        res.ok( src, si, 'vector store is the single statement self.value[key] = value' )
    else:
        res.bad( src, si, '__setitem__', 'vector store must be the single list operation self.value[key] = value' )
    # a vector is written IN PLACE: its storage list is never re-bound ( self.value = ... / self.default = ... only for a scalar, under
    # `self.scalar` ) - copy, modify, install is not atomic: two sessions writing disjoint ranges both start from the old list and the later
    # install discards the other's acknowledged write
    rebinds = []
    for a_ in walk_no_nested( si ):
        if isinstance( a_, ( ast.Assign, ast.AugAssign )):
            for t_ in ( a_.targets if isinstance( a_, ast.Assign ) else [ a_.target ] ):
                if dotted( t_ ) in ( 'self.value', 'self.default' ):
                    under_scalar = False
                    cur_ = a_
                    for g_ in src.ancestors( a_ ):
                        if isinstance( g_, ast.If ) and pmatch( g_.test, 'self.scalar' ) is not None and any( cur_ is x_ or any( cur_ is y_ for y_ in ast.walk( x_ )) for x_ in g_.body ):
                            under_scalar = True
                        if g_ is si:
                            break
                    if not under_scalar:
                        rebinds.append( a_ )
    if rebinds:
        res.bad( src, rebinds[0], 'Attribute.__setitem__ re-binds the storage of a vector ( %s )' % norm_text( rebinds[0] ), 'the write is a copy-modify-install: between the copy and the install another session\'s write to other elements of the same array is lost, although it was acknowledged' )
    else:
        res.ok( src, si, '__setitem__ re-binds the storage only for a scalar; a vector is written in place' )
    # the request handlers use that operation ONCE per request: a multi-element write is one store of a slice ( att[:] = values,
    # attribute[beg:end] = data ), never a loop of element stores - between two element stores another session's multi-element read
    # observes part of the write
    for rel_, qn_ in (( DEVICE, 'Object.request' ), ( LOGIX, 'Logix.request' )):
        hsrc = ctx.src( rel_ )
        hf = hsrc.get( qn_ )
        atts = { t_.id for a_ in ast.walk( hf ) if isinstance( a_, ast.Assign ) and any( is_call_to( c_, 'lookup', 'resolve_tag', 'self.attribute.get' ) or ( isinstance( c_, ast.Subscript ) and 'attribute' in txt( c_.value )) for c_ in ast.walk( a_.value ))
                 for t_ in a_.targets if isinstance( t_, ast.Name ) } | { 'attribute', 'att' }
        elem = [ a_ for a_ in ast.walk( hf ) if isinstance( a_, ( ast.Assign, ast.AugAssign )) for t_ in ( a_.targets if isinstance( a_, ast.Assign ) else [ a_.target ] )
                 if isinstance( t_, ast.Subscript ) and isinstance( t_.value, ast.Name ) and t_.value.id in atts
                 and any( isinstance( l_, ( ast.For, ast.While )) for l_ in hsrc.ancestors( a_ ) if any( l_ is y_ for y_ in ast.walk( hf ))) ]
        if elem:
            res.bad( hsrc, elem[0], '%s stores into an Attribute inside a loop ( %s )' % ( qn_, norm_text( ast.unparse( elem[0] ))[:60] ),
                     'a multi-element write becomes one store per element: a concurrent multi-element read of the same Attribute returns part of the new and part of the old values ( a torn read ) - each request must take effect atomically', func=qn_ )
        else:
            res.ok( hsrc, hf, '%s: every store into an Attribute is a single ( slice ) store outside any loop' % qn_ )
    loads = [ n for n in walk_no_nested( gi ) if isinstance( n, ast.Subscript ) and txt( n.value ) == 'self.value' ]
    if loads and all( txt( n.slice ) == 'key' for n in loads ):
        res.ok( src, gi, 'vector load is the single expression self.value[key]' )
    else:
        res.bad( src, gi, '__getitem__', 'vector load must be the single list operation self.value[key]' )
    # what a load hands out is a COPY ( a slice of the list, or a fresh one-element list ), never the live storage list itself: the reply is
    # encoded element by element from what was returned, so handing out self.value lets one read observe several moments of the array.
    # The bare self.value is only ever returned for a scalar ( an immutable number ): under `self.scalar`.
    live = []
    for r_ in walk_no_nested( gi ):
        if not isinstance( r_, ast.Return ) or r_.value is None:
            continue
        def arms( e, under_scalar ):
            if isinstance( e, ast.IfExp ):
                pos = pmatch( e.test, 'self.scalar' ) is not None
                neg = pmatch( e.test, 'not self.scalar' ) is not None
                for x in arms( e.body, under_scalar or pos ): yield x
                for x in arms( e.orelse, under_scalar or neg ): yield x
            else:
                yield e, under_scalar
        guarded = any( isinstance( a_, ast.If ) and pmatch( a_.test, 'self.scalar' ) is not None and any( r_ is x for b_ in a_.body for x in ast.walk( b_ )) for a_ in src.ancestors( r_ ))
        for e, us in arms( r_.value, guarded ):
            if dotted( e ) == 'self.value' and not us:
                live.append( r_ )
    if live:
        res.bad( src, live[0], 'Attribute.__getitem__ returns the live storage list ( %s )' % norm_text( live[0] ), 'a whole-array read is encoded from the list other sessions are writing into: one reply can show elements from before and after a concurrent multi-element write - a state the array never had' )
    else:
        res.ok( src, gi, '__getitem__ hands out a copy ( slice / fresh list ); the bare value only for a scalar' )
    it = [ n for n in ast.walk( pr ) if isinstance( n, ( ast.GeneratorExp, ast.ListComp )) ]
    ok = False
    for gnr in it:
        for c in gnr.generators:
            if pmatch( c.iter, 'self[_a:_b]' ):
                ok = True
    fors = [ n for n in ast.walk( pr ) if isinstance( n, ast.For ) and pmatch( n.iter, 'self[_a:_b]' ) ]
    if ok or fors:
        res.ok( src, pr, 'produce iterates over the slice copy self[start:stop]' )
    else:
        res.bad( src, pr, 'Attribute.produce', 'produce must iterate one slice copy self[start:stop], not index element by element' )
    # the request handlers move a whole range with ONE subscript operation on the tag: a loop storing / loading element by element lets
    # another session's request interleave between two elements (a torn read, or two writes mixed)
    lsrc = ctx.src( LOGIX )
    lr = lsrc.get( 'Logix.request' )
    un = [ s_ for s_ in ast.walk( lr ) if isinstance( s_, ast.Assign ) and is_call_to( s_.value, 'self.reply_elements' ) and s_.value.args ]
    ATT = dotted( un[0].value.args[0] ) if un else 'attribute'
    subs = [ n for n in ast.walk( lr ) if isinstance( n, ast.Subscript ) and dotted( n.value ) == ATT ]
    tagops = [ n for n in subs if not ( isinstance( n.slice, ast.Constant ) and isinstance( n.slice.value, str )) ]
    if not tagops:
        raise AnalysisError( 'Logix.request: no subscript access to the tag found' )
    for n in tagops:
        inloop = [ a for a in lsrc.ancestors( n ) if isinstance( a, ( ast.For, ast.While, ast.ListComp, ast.GeneratorExp, ast.comprehension )) and any( a is x for x in ast.walk( lr )) ]
        kind = 'store' if isinstance( n.ctx, ast.Store ) else 'load'
        if inloop or not isinstance( n.slice, ast.Slice ):
            res.bad( lsrc, n, 'Logix.request: element-wise %s %s' % ( kind, norm_text( n )), 'the requested range must be moved by one slice operation on the tag; element-by-element access is not atomic with respect to other sessions\' requests', func='Logix.request' )
        else:
            res.ok( lsrc, n, 'Logix.request: the range is moved by the single slice %s %s' % ( kind, norm_text( n )))
    return res


# ---------------------------------------------------------------------------------------- C06: X-SERVICES, P-REPLYBIT, P-ONE, D-ECHO; C02: P-ACT

SERVICE_CLASSES = (( DEVICE, 'Object' ), ( DEVICE, 'Message_Router' ), ( DEVICE, 'Connection_Manager' ), ( LOGIX, 'Logix' ))


def _mentioned_consts( ctx, fn, cname ):
    env = class_consts_env( ctx, cname )
    out = {}
    for d in dotted_in( fn ):
        if ( d.startswith( 'self.' ) or d.startswith( 'cls.' )) and ( d.endswith( '_REQ' ) or d.endswith( '_RPY' )) and d.count( '.' ) == 1:
            v = env( d )
            if isinstance( v, int ):
                out[d.split( '.' )[1]] = v
    return out


@rule( 'X-SERVICES', props=( 'C06', 'C01' ), floor=30 )
def x_services( ctx ):
    """exhaustiveness across siblings: registered service parsers = services dispatched by request() = services produce() encodes; *_RPY = *_REQ | 0x80"""
    from .grammar import grammar_of
    res = Result( 'X-SERVICES' )
    g = grammar_of( ctx )
    for rel, cname in SERVICE_CLASSES:
        src = ctx.src( rel )
        cd = src.get( cname )
        own = {}
        for s in cd.body:
            if isinstance( s, ast.Assign ) and isinstance( s.targets[0], ast.Name ) and ( s.targets[0].id.endswith( '_REQ' ) or s.targets[0].id.endswith( '_RPY' )):
                v = g.class_const( cname, s.targets[0].id )
                if not isinstance( v, int ):
                    raise AnalysisError( '%s.%s does not fold' % ( cname, s.targets[0].id ))
                own[s.targets[0].id] = ( v, s )
        regs = [ r for r in g.registrations if r['cls'] == cname ]
        R = { r['number'] for r in regs if isinstance( r['number'], int ) and r['number'] is not True }
        # 1. reply constants
        for name, ( v, node ) in sorted( own.items() ):
            if name.endswith( '_RPY' ):
                req = own.get( name[:-4] + '_REQ' )
                if req is None:
                    raise AnalysisError( '%s.%s has no matching _REQ constant' % ( cname, name ))
                if v == req[0] | 0x80 and not ( req[0] & 0x80 ):
                    res.ok( src, node, '%s.%s = 0x%02X = %s | 0x80' % ( cname, name, v, name[:-4] + '_REQ' ))
                else:
                    res.bad( src, node, '%s.%s = 0x%02X' % ( cname, name, v ), 'a reply service code must be the request code with bit 0x80 set (0x%02X)' % ( req[0] | 0x80 ))
        # 2. every declared service has a registered parser
        for name, ( v, node ) in sorted( own.items() ):
            if v in R:
                res.ok( src, node, '%s.%s 0x%02X has a registered parser' % ( cname, name, v ))
            else:
                res.bad( src, node, '%s.%s 0x%02X has no register_service_parser' % ( cname, name, v ), 'a message with this service code cannot be parsed' )
        # 3. every registered parser is dispatched by produce() and (requests) by request()
        pfn = src.get( cname + '.produce' ); rfn = src.get( cname + '.request' )
        P = set( _mentioned_consts( ctx, pfn, cname ).values() )
        Q = set( _mentioned_consts( ctx, rfn, cname ).values() )
        for r in regs:
            n = r['number']
            if n is True or not isinstance( n, int ):
                continue
            class L: lineno = r['site'][1]
            if n not in set( v for v, _ in own.values() ):
                res.bad( src, L, 'register_service_parser( number=0x%02X, %r )' % ( n, r['name'] ), 'registered code is not one of %s\'s service constants' % cname )
                continue
            if n not in P:
                res.bad( src, L, 'service 0x%02X %r' % ( n, r['name'] ), '%s.produce has no branch for a service it can parse' % cname )
            elif not ( n & 0x80 ) and n not in Q:
                res.bad( src, L, 'service 0x%02X %r' % ( n, r['name'] ), '%s.request never tests for a request it can parse: it would be answered as unrecognised' % cname )
            else:
                res.ok( src, L, 'service 0x%02X %r: parser, produce%s' % ( n, r['name'], '' if n & 0x80 else ', request' ))
        # registrations: numbers distinct
        nums = [ r['number'] for r in regs if r['number'] is not True ]
        if len( nums ) != len( set( nums )):
            res.bad( src, cd, 'duplicate register_service_parser numbers %s' % sorted( nums ), 'a later registration replaces an earlier parser' )
    return res


def _produce_stores( cfg, art='data' ):
    return [ n for n in cfg.nodes if n.kind == 'stmt' and isinstance( n.stmt, ast.Assign ) and dotted( n.stmt.targets[0] ) == art + '.input'
             and any( is_call_to( c, 'self.produce' ) for c in ast.walk( n.stmt.value )) ]


def _replybit_nodes( cfg, art='data' ):
    return [ n for n in cfg.nodes if n.kind == 'stmt' and isinstance( n.stmt, ast.AugAssign ) and dotted( n.stmt.target ) == art + '.service'
             and isinstance( n.stmt.op, ast.BitOr ) and try_fold( n.stmt.value ) == 0x80 ]


@rule( 'P-REPLYBIT', props=( 'C06', ), floor=12 )
def p_replybit( ctx ):
    """the reply bit is set exactly once on every path to the reply producer; every normal exit produces a reply or delegates"""
    res = Result( 'P-REPLYBIT' )
    for rel, qn, art, success in HANDLERS:
        src = ctx.src( rel )
        fn = src.get( qn )
        cfg = CFG( fn )
        stores = _produce_stores( cfg, art )
        bits = _replybit_nodes( cfg, art )
        if not stores:
            res.bad( src, fn, qn, 'no `%s.input = bytearray( self.produce( %s ))`: the handler produces no reply' % ( art, art ))
            continue
        if not bits:
            res.bad( src, fn, qn, 'the reply bit (service |= 0x80) is never set' )
            continue
        # other writes to .service (besides |= 0x80 and setdefault in tests) break the echo of the request's service code
        for n in cfg.nodes:
            if n.kind == 'stmt' and isinstance( n.stmt, ( ast.Assign, ast.AugAssign )) and n not in bits:
                tg = n.stmt.targets if isinstance( n.stmt, ast.Assign ) else [ n.stmt.target ]
                if any( dotted( t ) == art + '.service' for t in tg ):
                    res.bad( src, n.stmt, n.stmt, 'the reply service code must be the request code with only bit 0x80 added', func=qn )
        for st in stores:
            cnt = cfg.effect_counts( cfg.entry, bits, [ st ], cut_back=True )
            if st not in cnt:
                raise AnalysisError( '%s: produce store unreachable' % qn )
            lo, hi = cnt[st]
            if hi > 1:
                res.bad( src, st.stmt, 'service |= 0x80 executes %s times on some path' % hi, 'the reply bit must be set exactly once', func=qn )
            else:
                res.ok( src, st.stmt, '%s: reply bit set at most once on every path to the producer' % qn )
            # zero-times paths must go through a raise (unrecognised request)
            normal = ( 'next', 'true', 'false', 'back', 'break', 'continue', 'return', 'loop-exit' )
            if st in cfg.reachable( cfg.entry, avoid=set( bits ), labels=normal ):
                res.bad( src, st.stmt, st.stmt, 'a non-raising path reaches the reply producer without setting the reply bit', func=qn )
            else:
                res.ok( src, st.stmt, '%s: every non-raising path to the producer sets the reply bit' % qn )
        # a request that is REFUSED AS UNRECOGNISED keeps its request service code: the frame-level handler tells "not mine" (answered with a
        # non-zero encapsulation status) from "mine, failed" (an in-band CIP reply) by the escaping RequestUnrecognized and by what it finds in
        # the artifact - with the reply bit already set, the generic producer renders it as an ordinary reply inside a status-0 frame
        unrec = [ n for n in cfg.nodes if n.kind == 'stmt' and isinstance( n.stmt, ast.Raise ) and n.stmt.exc is not None and is_call_to( n.stmt.exc, 'RequestUnrecognized' ) ]
        def dispatch_else( stmt ):
            # the final `else` of an if / elif chain every test of which compares <art>.service ( the reply-side dispatch ): unreachable for a
            # recognised request as long as the dispatch is exhaustive, which X-SERVICES decides
            chain = src.parent.get( stmt )
            if not isinstance( chain, ast.If ) or stmt not in chain.orelse:
                return False
            top = chain
            while isinstance( src.parent.get( top ), ast.If ) and src.parent[top].orelse == [ top ]:
                top = src.parent[top]
            c_ = top
            while True:
                if not any( dotted( x_ ) == art + '.service' for x_ in ast.walk( c_.test )):
                    return False
                if len( c_.orelse ) == 1 and isinstance( c_.orelse[0], ast.If ):
                    c_ = c_.orelse[0]
                else:
                    return True
        for u in unrec:
            hit = [ b for b in bits if u in cfg.reachable( b, labels=( 'next', 'true', 'false', 'back', 'break', 'continue', 'loop-exit' )) ]
            if hit and dispatch_else( u.stmt ):
                res.ok( src, u.stmt, '%s: the `else` of the reply-side dispatch on %s.service ( exhaustive per X-SERVICES ) raises RequestUnrecognized' % ( qn, art ), nontrivial=False )
                continue
            if hit:
                res.bad( src, u.stmt, '%s: raise RequestUnrecognized after the reply bit was set ( %s )' % ( qn, norm_text( hit[0].stmt )), 'an unsupported service is rendered as an ordinary reply and sent in a frame with encapsulation status 0; the client is told "success" at the frame level for a request nobody processed', func=qn )
            else:
                res.ok( src, u.stmt, '%s: an unrecognised request is refused with its service code untouched' % qn )
        # a failure status is only ever pre-set on what already is a reply: whatever raises behind it is answered in band with that status,
        # and the answer is recognised as a reply ( by the peer, and by the producer here ) by its reply bit alone
        for n in sorted(( n for n in cfg.nodes if n.kind == 'stmt' and isinstance( n.stmt, ast.Assign ) and dotted( n.stmt.targets[0] ) == art + '.status' ),
                        key=lambda n: n.stmt.lineno ):
            vals = _status_values( n.stmt.value, src, n.stmt )
            if isinstance( vals, frozenset ) and vals <= set( success ):
                continue
            if cfg.must_pass( cfg.entry, n, bits ):
                res.ok( src, n.stmt, '%s: the failure status is pre-set on a reply ( reply bit already set )' % qn, nontrivial=False )
                continue
            # ... or ahead of the recognition of the request: then nothing but that recognition ( tests, raise RequestUnrecognized - which keeps the
            # request's service code on purpose, see below - and the removal of a stale extended status ) lies between it and the reply bit
            between = [ m for m in cfg.reachable( n, avoid=set( bits ), edge_ok=lambda a, b, label: label != 'exc' and not ( a.kind == 'stmt' and isinstance( a.stmt, ast.Raise )))
                        if m is not n and m.kind == 'stmt' and m.stmt is not None
                        and not isinstance( m.stmt, ( ast.Pass, ast.Raise ))
                        and not ( isinstance( m.stmt, ast.Expr ) and isinstance( m.stmt.value, ast.Call )
                                  and ( dotted( m.stmt.value.func ) == art + '.pop' or ( dotted( m.stmt.value.func ) or '' ).split( '.' )[0] in ( 'log', 'logging' ))) ]
            if not between and bits:
                res.ok( src, n.stmt, '%s: the failure status pre-set ahead of the recognition of the request: nothing else happens before the reply bit' % qn, nontrivial=False )
            else:
                res.bad( src, n.stmt, '%s: a failure status is pre-set ( %s ) on a path that has not set the reply bit yet' % ( qn, norm_text( n.stmt )[:50] ),
                         'a request refused behind it is answered with its own request service code: the peer cannot pair the failure with its request', func=qn )
        # success assignment implies exactly one reply bit
        succ = [ n for n in cfg.nodes if n.kind == 'stmt' and isinstance( n.stmt, ast.Assign ) and dotted( n.stmt.targets[0] ) == art + '.status'
                 and isinstance( _status_values( n.stmt.value, src, n.stmt ), frozenset ) and _status_values( n.stmt.value, src, n.stmt ) & set( success ) ]
        cnt = cfg.effect_counts( cfg.entry, bits, succ, cut_back=True )
        for s_ in succ:
            if s_ in cnt and cnt[s_] == ( 1, 1 ):
                res.ok( src, s_.stmt, '%s: success status implies reply bit set exactly once' % qn )
            elif s_ in cnt:
                res.bad( src, s_.stmt, s_.stmt, 'success is reported on a path that set the reply bit %s..%s times' % cnt[s_], func=qn )
        # every normal exit: produced a reply, delegated, or the empty-data termination signal
        for n in cfg.nodes:
            if n.kind == 'stmt' and isinstance( n.stmt, ast.Return ):
                v = n.stmt.value
                if v is not None and isinstance( v, ast.Call ) and isinstance( v.func, ast.Attribute ) and v.func.attr == 'request':
                    res.ok( src, n.stmt, '%s: delegation %s' % ( qn, norm_text( v )[:60] ), nontrivial=False ); continue
                par = src.parent.get( n.stmt )
                if isinstance( par, ast.If ) and pmatch( par.test, 'not ' + art ):
                    res.ok( src, n.stmt, '%s: empty-request termination signal' % qn, nontrivial=False ); continue
                deleg = [ m for m in cfg.nodes if m.kind == 'stmt' and isinstance( m.stmt, ast.Expr ) and isinstance( m.stmt.value, ast.Call )
                          and isinstance( m.stmt.value.func, ast.Attribute ) and m.stmt.value.func.attr == 'request' ]
                # ... or an error reply rendered for the request on a handler path ( <x>.input = bytearray( <Class>.produce( <x> )) )
                errs = [ m for m in cfg.nodes if m.kind == 'stmt' and isinstance( m.stmt, ast.Assign ) and ( dotted( m.stmt.targets[0] ) or '' ).endswith( '.input' )
                         and any( isinstance( c_, ast.Call ) and isinstance( c_.func, ast.Attribute ) and c_.func.attr == 'produce' for c_ in ast.walk( m.stmt.value )) ]
                if cfg.must_pass( cfg.entry, n, set( stores ) | set( deleg ) | set( errs )):
                    res.ok( src, n.stmt, '%s: normal exit after producing the reply / delegating' % qn )
                else:
                    res.bad( src, n.stmt, n.stmt, 'a normal exit is reachable without producing a reply', func=qn )
    return res


def _loop_nodes( cfg, loop ):
    """( header node, first body nodes, sources of back/continue edges to the header )"""
    h = cfg.node_of( loop )
    first = [ m for m, l in cfg.succ[h] if l == 'true' ]
    backs = [ p for p, l in cfg.pred[h] if l in ( 'back', 'continue' ) ]
    return h, first, backs


def _inside( src, node, kinds, stop ):
    for a in src.ancestors( node ):
        if a is stop:
            return None
        if isinstance( a, kinds ):
            return a
    return None


def server_roles( fn ):
    """local names of a connection handler (enip_srv_tcp / enip_srv_udp) by ROLE, discovered from the constructs that define them:
    machine = the `with parser.enip_machine( ... ) as <m>` variable; run = the <m>.run( source=<s>, data=<d> ) call; engine = the variable the
    run (possibly under contextlib.closing) is bound to / iterated; msg = what network.recv*/ is assigned to; stats, connkey = stats_for()"""
    r = {}
    for w in ast.walk( fn ):
        if isinstance( w, ast.With ):
            for it in w.items:
                if is_call_to( it.context_expr, 'parser.enip_machine', 'enip_machine' ) and isinstance( it.optional_vars, ast.Name ):
                    r['machine'] = it.optional_vars.id
    if 'machine' not in r:
        for a in ast.walk( fn ):
            if isinstance( a, ast.Assign ) and is_call_to( a.value, 'parser.enip_machine', 'enip_machine' ) and isinstance( a.targets[0], ast.Name ):
                r['machine'] = a.targets[0].id
    for c in ast.walk( fn ):
        if isinstance( c, ast.Call ) and isinstance( c.func, ast.Attribute ) and c.func.attr == 'run' and dotted( c.func.value ) == r.get( 'machine' ):
            kw = { k.arg: k.value for k in c.keywords }
            r['run'] = c
            if isinstance( kw.get( 'source' ), ast.Name ): r['source'] = kw['source'].id
            if isinstance( kw.get( 'data' ), ast.Name ): r['data'] = kw['data'].id
    for w in ast.walk( fn ):
        if isinstance( w, ast.With ):
            for it in w.items:
                if r.get( 'run' ) is not None and any( x is r['run'] for x in ast.walk( it.context_expr )) and isinstance( it.optional_vars, ast.Name ):
                    r['engine'] = it.optional_vars.id
        if isinstance( w, ast.Assign ) and r.get( 'run' ) is not None and any( x is r['run'] for x in ast.walk( w.value )) and isinstance( w.targets[0], ast.Name ):
            r['engine'] = w.targets[0].id
        if isinstance( w, ast.Assign ) and is_call_to( w.value, 'network.recv', 'network.recvfrom', 'recv', 'recvfrom' ):
            t = w.targets[0]
            if isinstance( t, ast.Name ): r['msg'] = t.id
            elif isinstance( t, ast.Tuple ) and isinstance( t.elts[0], ast.Name ): r['msg'] = t.elts[0].id
        if isinstance( w, ast.Assign ) and is_call_to( w.value, 'stats_for' ) and isinstance( w.targets[0], ast.Tuple ) and len( w.targets[0].elts ) == 2 \
           and all( isinstance( e, ast.Name ) for e in w.targets[0].elts ):
            r['stats'], r['connkey'] = ( e.id for e in w.targets[0].elts )
    return r


@rule( 'P-ONE', props=( 'C06', 'C02' ), floor=6 )
def p_one( ctx ):
    """server connection loop: per received frame exactly one enip_process, at most one send, send only for a truthy result, strictly sequential"""
    res = Result( 'P-ONE' )
    src = ctx.src( MAIN )
    for qn, send_attr in (( 'enip_srv_tcp', 'send' ), ( 'enip_srv_udp', 'sendto' )):
        fn = src.get( qn )
        loops = [ n for n in walk_no_nested( fn ) if isinstance( n, ast.While ) and _inside( src, n, ( ast.While, ast.For ), fn ) is None ]
        if len( loops ) != 1:
            raise AnalysisError( '%s: expected one top-level receive loop, found %d' % ( qn, len( loops )))
        loop = loops[0]
        cfg = CFG( fn )
        h, first, backs = _loop_nodes( cfg, loop )
        proc_param = 'enip_process'
        roles = server_roles( fn )
        DATA = roles.get( 'data' )
        if DATA is None:
            raise AnalysisError( '%s: the per-frame data artifact ( <machine>.run( ..., data=<name> )) not found' % qn )
        acts = [ n for n in cfg.nodes if n.stmt is not None and n.kind in ( 'stmt', 'test' ) and any(
            is_call_to( c, proc_param ) and any( k.arg == 'data' and dotted( k.value ) == DATA for k in c.keywords )
            for c in ast.walk( n.expr if n.kind == 'test' else n.stmt ) if isinstance( c, ast.Call )) ]
        if not acts:
            res.bad( src, fn, qn, 'enip_process( addr, data=data ) is never called: requests are not acted upon' )
            continue
        # the request processor sees the connection's parse data only where a frame was completely received - inside the receive loop; every
        # other call ( the end of the session, an exception handler ) hands it an EMPTY artifact, its "session over" signal.  Handed the
        # data of a frame that was cut off, it acts on whatever of the request arrived: a write is executed from an incomplete frame
        outside = [ a for a in acts if not any( a.stmt is x for x in ast.walk( loop )) ]
        for a in outside:
            res.bad( src, a.stmt, '%s: enip_process is handed the connection\'s parse data outside the receive loop' % qn,
                     'in an exception handler the data is that of a frame which was NOT completely received: the request is acted upon although its final byte never arrived ( the item parsers take the announced length as an upper limit only )', func=qn )
        acts = [ a for a in acts if a not in outside ]
        others = [ c for c in ast.walk( fn ) if is_call_to( c, proc_param ) and not any( c is x for a in acts for x in ast.walk( a.stmt if a.kind == 'stmt' else a.expr )) and not any( c is x for a in outside for x in ast.walk( a.stmt )) ]
        for c in others:
            dv = [ k.value for k in c.keywords if k.arg == 'data' ]
            empty = dv and (( isinstance( dv[0], ast.Call ) and not dv[0].args and not dv[0].keywords and ( call_name( dv[0] ) or '' ).split( '.' )[-1] in ( 'dotdict', 'dict' )) or ( isinstance( dv[0], ast.Dict ) and not dv[0].keys ))
            if empty:
                res.ok( src, c, '%s: outside the per-frame call enip_process is given an empty artifact ( the end-of-session signal )' % qn )
            else:
                res.bad( src, c, '%s: %s' % ( qn, norm_text( ast.unparse( c ))[:70] ), 'outside the per-frame call the request processor must be given an empty artifact: anything else is acted upon as a request', func=qn )
        if not acts:
            continue
        # between the completion of a frame and its processing the handler does not look INTO the request: the only consumer of its fields
        # is enip_process ( whose failures become a reply or a controlled end ).  A field read in the loop itself - to log it, to show it in
        # the statistics - is evaluated for every value a peer can send: eight arbitrary octets of sender context do not decode as UTF-8,
        # the statement raises, and a complete well-formed request gets no reply at all
        looks = [ x for x in ast.walk( loop ) if (( isinstance( x, ast.Attribute ) and dotted( x ) and dotted( x ).startswith( DATA + '.request' ))
                                                   or ( isinstance( x, ast.Subscript ) and dotted( x.value ) == DATA and isinstance( try_fold( x.slice ), str ) and try_fold( x.slice ).startswith( 'request' )))
                  and isinstance( getattr( x, 'ctx', None ), ast.Load ) ]
        looks = [ x for x in looks if not isinstance( src.parent.get( x ), ast.Attribute ) ]
        if looks:
            res.bad( src, looks[0], '%s reads a field of the request itself ( %s ) in the receive loop' % ( qn, norm_text( ast.unparse( looks[0] ))[:60] ),
                     'evaluated for whatever the peer sent, outside the request processor: a value the expression cannot handle ( a sender context that is not UTF-8 ) raises, the frame is never processed and never answered, and everything pipelined behind it is lost', func=qn )
        else:
            res.ok( src, loop, '%s: the receive loop hands the parsed request to enip_process without looking into it' % qn )
        # a reply is transmitted by ONE conn.send( ... ) whose result is not looked at: that is complete only on a fully blocking socket - no
        # time-out / non-blocking mode is set on the accepted connection ( here or in network.server_main )
        part = [ c for c in ast.walk( fn ) if isinstance( c, ast.Call ) and isinstance( c.func, ast.Attribute ) and c.func.attr == 'send' and dotted( c.func.value ) == 'conn'
                 and isinstance( src.parent.get( c ), ast.Expr ) ]
        if part and qn == 'enip_srv_tcp':
            nsrc = ctx.src( 'server/network.py' )
            modes = [ ( s_, c ) for s_ in ( src, nsrc ) for c in ast.walk( s_.tree ) if isinstance( c, ast.Call ) and isinstance( c.func, ast.Attribute ) and c.func.attr in ( 'settimeout', 'setblocking' )
                      and dotted( c.func.value ) == 'conn' and not ( c.func.attr == 'setblocking' and c.args and try_fold( c.args[0] ) is True )
                      and not ( c.func.attr == 'settimeout' and c.args and isinstance( c.args[0], ast.Constant ) and c.args[0].value is None ) ]
            if modes:
                res.bad( modes[0][0], modes[0][1], 'the accepted connection is given a time-out / non-blocking mode ( %s ) while replies are sent by a single conn.send( ... )' % norm_text( ast.unparse( modes[0][1] ))[:50],
                         'with the send buffer full ( many requests written before any reply is read ) send() transmits part of the reply or raises socket.timeout, which the handler takes for "client abandoned": processed requests go unanswered, the stream carries a truncated frame', func=qn )
            else:
                res.ok( src, part[0], 'replies are sent with one blocking conn.send( ... ): no time-out or non-blocking mode is set on the accepted connection' )
        # a request whose processing fails ends the connection: the handler of the try around the per-frame enip_process hands the exception on
        # on EVERY path through it ( it always ends in `raise` ).  Swallowed on some path - the clean-up and the raise slipped into the inner
        # handler that only guards a log call - the frame gets no reply, the connection stays open, and the peer waits for ever
        def always_raises_( stmts ):
            for st in stmts:
                if isinstance( st, ast.Raise ):
                    return True
                if isinstance( st, ast.If ) and st.orelse and always_raises_( st.body ) and always_raises_( st.orelse ):
                    return True
                if isinstance( st, ast.Try ) and ( always_raises_( st.finalbody ) or ( always_raises_( st.body + st.orelse ) and all( always_raises_( h_.body ) for h_ in st.handlers ))):
                    return True
            return False
        if qn == 'enip_srv_tcp':
            for a in acts:
                tr = [ t_ for t_ in src.ancestors( a.stmt ) if isinstance( t_, ast.Try ) and any( t_ is x for x in ast.walk( loop )) and any( a.stmt is x or any( a.stmt is y for y in ast.walk( x )) for x in t_.body ) ]
                for t_ in tr[:1]:
                    for h_ in t_.handlers:
                        if always_raises_( h_.body ):
                            res.ok( src, h_, 'enip_srv_tcp: a failure of the request processor is handed on on every path through its handler ( the connection ends )' )
                        else:
                            res.bad( src, h_, 'enip_srv_tcp: the handler of a failed request can complete without raising',
                                     'the failure is swallowed: no reply is sent for the frame, no clean-up signal reaches the request processor, and the connection is left open - the peer waits for a reply that never comes', func=qn )
        for a in acts:
            # outside the frame-parsing loop (the for over the engine)
            inner = _inside( src, a.stmt, ( ast.For, ), loop ) or _inside( src, a.stmt, ( ast.While, ), loop )
            if inner is not None:
                res.bad( src, a.stmt, 'enip_process call inside `%s`' % norm_text( inner ).split( ':' )[0][:60],
                         'a request would be acted upon before its frame is complete (per parser step instead of per frame)', func=qn )
            else:
                res.ok( src, a.stmt, '%s: enip_process is called after the frame-parsing loop' % qn )
        if not first or not backs:
            raise AnalysisError( '%s: loop structure not recognised' % qn )
        ends = backs
        cnt = cfg.effect_counts( first[0], acts, ends, cut_back=True, skip_labels=( 'exc', ))
        if not cnt:
            raise AnalysisError( '%s: no normal path through the loop body' % qn )
        for e, ( lo, hi ) in cnt.items():
            # paths that `continue` early without a frame are only legitimate before any act (none in the repo)
            if ( lo, hi ) == ( 1, 1 ):
                res.ok( src, e.stmt or loop, '%s: exactly one enip_process per loop iteration' % qn )
            else:
                res.bad( src, e.stmt or loop, 'enip_process executes %s..%s times per iteration' % ( lo, hi ),
                         'every complete frame must be processed exactly once', func=qn )
        sends = [ n for n in cfg.nodes if n.kind == 'stmt' and n.stmt is not None and any(
            isinstance( c, ast.Call ) and isinstance( c.func, ast.Attribute ) and c.func.attr in ( 'send', 'sendto', 'sendall' ) and dotted( c.func.value ) == 'conn'
            for c in ast.walk( n.stmt )) ]
        if not sends:
            res.bad( src, fn, qn, 'no conn.%s: replies are never transmitted' % send_attr )
            continue
        cnt = cfg.effect_counts( first[0], sends, ends, cut_back=True )
        worst = max( hi for lo, hi in cnt.values() ) if cnt else 0
        if worst > 1:
            res.bad( src, sends[-1].stmt, 'conn.%s executes up to %s times per iteration' % ( send_attr, worst ), 'at most one reply frame per request frame', func=qn )
        else:
            res.ok( src, sends[0].stmt, '%s: at most one conn.%s per iteration' % ( qn, send_attr ))
        # send is control-dependent on the truthy result of enip_process: every path to the send passes the true edge of `if enip_process(...)`
        tests = [ a for a in acts if a.kind == 'test' ]
        for s_ in sends:
            if tests:
                true_succ = [ m for t in tests for m, l in cfg.succ[t] if l == 'true' ]
                if cfg.must_pass( first[0], s_, true_succ, correlated=False ):
                    res.ok( src, s_.stmt, '%s: reply is sent only when enip_process returned a truthy result' % qn )
                else:
                    res.bad( src, s_.stmt, s_.stmt, 'a reply can be sent on a path where enip_process did not report a reply', func=qn )
            else:
                res.bad( src, s_.stmt, s_.stmt, 'the send is not conditioned on the result of enip_process', func=qn )
            # and the payload sent is the encoding of this iteration's response
            enc = [ n for n in cfg.nodes if n.kind == 'stmt' and isinstance( n.stmt, ast.Assign ) and is_call_to( n.stmt.value, 'parser.enip_encode', 'enip_encode' ) ]
            sendcall = [ c for c in ast.walk( s_.stmt ) if isinstance( c, ast.Call ) and isinstance( c.func, ast.Attribute ) and c.func.attr in ( 'send', 'sendto', 'sendall' ) and dotted( c.func.value ) == 'conn' ][0]
            payload = dotted( sendcall.args[0] ) if sendcall.args else None
            encname = dotted( enc[0].stmt.targets[0] ) if enc else None
            # the payload local has no other definition than this iteration's encoding (nothing accumulated / carried over)
            others = [ n for n in cfg.nodes if n.kind == 'stmt' and isinstance( n.stmt, ( ast.Assign, ast.AugAssign )) and n not in enc
                       and any( dotted( t ) == payload for t in ( n.stmt.targets if isinstance( n.stmt, ast.Assign ) else [ n.stmt.target ] )) ]
            if enc and pmatch( enc[0].stmt.value, 'parser.enip_encode( %s.response.enip )' % DATA ) and cfg.must_pass( first[0], s_, enc, correlated=False ) \
               and payload == encname and not others:
                res.ok( src, s_.stmt, '%s: sent bytes = enip_encode( data.response.enip ) of this iteration' % qn )
            else:
                res.bad( src, s_.stmt, s_.stmt, 'the reply sent must be exactly enip_encode( data.response.enip ) computed in the same iteration (not a buffer accumulated over several requests)', func=qn )
        # every reply is transmitted in the iteration that produced it: from the truthy outcome of enip_process every normal path to the next
        # iteration passes the send (a reply that is held back is lost when the session ends or fails before the next flush)
        tests = [ a for a in acts if a.kind == 'test' ]
        if tests and sends:
            for t in tests:
                for m, l in cfg.succ[t]:
                    if l != 'true':
                        continue
                    miss = [ b for b in backs if b in cfg.reachable( m, avoid=set( sends ), edge_ok=lambda x, y, lab: lab != 'exc' and y is not h ) ]
                    if miss:
                        res.bad( src, t.stmt, 'a path from a truthy enip_process to the next iteration avoids conn.%s' % send_attr,
                                 'a produced reply is not transmitted in its own iteration: if the session ends (Unregister, error, EOF) before a later flush the client never receives the reply to a request that was executed', func=qn )
                    else:
                        res.ok( src, t.stmt, '%s: every produced reply is transmitted before the next frame is read' % qn )
        # replies are written with blocking sends: no socket timeout / non-blocking mode on the connection (receive timeouts are done with select in network.recv)
        for scope in ( fn, src.get( 'enip_srv', required=False )):
            if scope is None:
                continue
            for c in ast.walk( scope ):
                if isinstance( c, ast.Call ) and isinstance( c.func, ast.Attribute ) and c.func.attr in ( 'settimeout', 'setblocking' ) and dotted( c.func.value ) == 'conn':
                    res.bad( src, c, c, 'a timeout / non-blocking mode on the connection socket makes conn.send fail or send partially when the client pipelines many requests before reading: replies are dropped or truncated', func=qn )
        # strictly sequential: no thread / queue / deferred send in the connection handler
        for c in ast.walk( fn ):
            if isinstance( c, ast.Call ) and ( call_name( c ).split( '.' )[-1] in ( 'Thread', 'start_new_thread', 'Queue', 'submit', 'apply_async', 'Process' )):
                res.bad( src, c, c, 'the connection handler must process frames strictly sequentially', func=qn )
        # `data` is a fresh artifact per iteration
        fresh = [ n for n in cfg.nodes if n.kind == 'stmt' and isinstance( n.stmt, ast.Assign ) and dotted( n.stmt.targets[0] ) == DATA and is_call_to( n.stmt.value, 'dotdict' ) ]
        if fresh and all( cfg.must_pass( first[0], a, fresh, correlated=False ) for a in acts ):
            res.ok( src, fresh[0].stmt, '%s: a fresh data artifact per frame' % qn )
        else:
            res.bad( src, loop, 'data = dotdict()', 'each frame must be parsed into a fresh artifact (no leakage between requests)', func=qn )
    return res


@rule( 'P-ACT', props=( 'C02', 'C13' ), floor=7 )
def p_act( ctx ):
    """a request is acted upon only after its frame is complete: enip_process outside the parse loop; EOF flag; client yields only terminal frames and drops its engine on error"""
    res = Result( 'P-ACT' )
    src = ctx.src( MAIN )
    fn = src.get( 'enip_srv_tcp' )
    # the only other enip_process call is the empty-data clean-up in an exception handler that re-raises
    roles = server_roles( fn )
    for need in ( 'machine', 'source', 'data', 'engine', 'msg', 'stats' ):
        if need not in roles:
            raise AnalysisError( 'enip_srv_tcp: role %r not found (machine.run( source=, data= ) under closing, network.recv, stats_for)' % need )
    MACHINE, SOURCE, DATA, ENGINE, MSG, STATS = ( roles[k] for k in ( 'machine', 'source', 'data', 'engine', 'msg', 'stats' ))
    others = [ c for c in ast.walk( fn ) if is_call_to( c, 'enip_process' ) and not any( k.arg == 'data' and dotted( k.value ) == DATA for k in c.keywords ) ]
    for c in others:
        h = _inside( src, c, ( ast.ExceptHandler, ), fn )
        empty = any( k.arg == 'data' and is_call_to( k.value, 'dotdict' ) and not k.value.args and not k.value.keywords for k in c.keywords )
        # ... or the release of the session's state in the connection's `finally` ( an empty request is no request: nothing of a half-received
        # frame reaches the processor )
        fin = [ t for t in ast.walk( fn ) if isinstance( t, ast.Try ) and any( c is x for b_ in t.finalbody for x in ast.walk( b_ )) ]
        if h is not None and empty and isinstance( h.body[-1], ast.Raise ):
            res.ok( src, c, 'clean-up call enip_process( addr, data=dotdict() ) in a re-raising handler' )
        elif fin and empty:
            res.ok( src, c, 'release of the session\'s state, enip_process( addr, data=dotdict() ), in the connection\'s finally' )
        else:
            res.bad( src, c, c, 'enip_process may only be called with the parsed frame, or with empty data from the failure handler' )
    # frame complete: the engine loop only `continue`s or receives; nothing in it stores into data or calls the processor
    loop = [ n for n in ast.walk( fn ) if isinstance( n, ast.For ) and dotted( n.iter ) == ENGINE ]
    if len( loop ) != 1:
        raise AnalysisError( 'enip_srv_tcp: frame-parsing loop `for ... in engine` not found' )
    withs = [ w for w in ast.walk( fn ) if isinstance( w, ast.With ) and any(
        is_call_to( it.context_expr, 'contextlib.closing' ) and it.context_expr.args and is_call_to( it.context_expr.args[0], MACHINE + '.run' ) for it in w.items ) ]
    if withs:
        run = withs[0].items[0].context_expr.args[0]
        kw = { k.arg: k.value for k in run.keywords }
        if dotted( kw.get( 'source' )) == SOURCE and dotted( kw.get( 'data' )) == DATA and pfind( fn, '%s = rememberable()' % SOURCE ) + pfind( fn, '%s = cpppo.rememberable()' % SOURCE ):
            res.ok( src, run, 'frame parsed from the connection source into this iteration\'s data: ' + norm_text( run ))
        else:
            res.bad( src, run, run, 'the frame must be parsed from the per-connection source into the per-iteration data' )
    else:
        res.bad( src, fn, 'machine.run', 'frame parser is not run under contextlib.closing' )
    # the only ways out of the frame-parsing loop are exhaustion of the engine (frame complete) or an exception: no break / return
    escapes = [ b for b in ast.walk( loop[0] ) if isinstance( b, ast.Return ) or ( isinstance( b, ast.Break ) and src.enclosing( b, ( ast.For, ast.While )) is loop[0] ) ]
    if escapes:
        par = src.parent.get( escapes[0] )
        res.bad( src, escapes[0], ( 'if %s: ' % norm_text( par.test ) if isinstance( par, ast.If ) else '' ) + norm_text( escapes[0] ),
                 'the frame-parsing loop is left before the engine finished: a truncated frame (e.g. connection closed mid-frame) is handed to the request processor and acted upon' )
    else:
        res.ok( src, loop[0], 'the frame-parsing loop ends only by engine exhaustion or exception' )
    # received blocks are chained, EOF sets the eof flag
    if pfind( loop[0], '%s.chain( %s )' % ( SOURCE, MSG )):
        res.ok( src, loop[0], 'each received block is chained to the source' )
    else:
        res.bad( src, loop[0], 'recv loop', 'received bytes must be chained to the parser source' )
    eofs = pfind( loop[0], "%s['eof'] = %s['eof'] or not len( %s )" % ( STATS, STATS, MSG )) + pfind( loop[0], "%s['eof'] = not len( %s ) or %s['eof']" % ( STATS, MSG, STATS ))
    if eofs:
        res.ok( src, eofs[0][0], 'EOF (empty recv) sets stats.eof' )
    else:
        res.bad( src, loop[0], 'recv loop', 'an empty recv (EOF) must set stats[\'eof\']' )
    # each time the framer runs dry the server receives AFRESH: nothing assigned inside the frame-parsing loop is read on a path of an
    # iteration that has not assigned it (a received block left over from the previous wait makes the loop skip recv() and re-enter the
    # engine without input: "no progress", the connection is dropped although the request was delivered completely - in two blocks)
    from .cfg import carried_reads
    scfg = CFG( fn )
    stale = carried_reads( scfg, src, loop[0] )
    if stale:
        v_, n_ = stale[0]
        res.bad( src, n_.stmt, 'enip_srv_tcp: %r is read ( %s ) in the frame-parsing loop on a path of the iteration that has not assigned it' % ( v_, norm_text( n_.own())[:60] ),
                 'the value of the previous wait for input is used: a request that arrives in two or more recv() blocks ( any split offset, byte-at-a-time, frames above the receive size ) is never framed or answered' )
    else:
        res.ok( src, loop[0], 'enip_srv_tcp: no local of the frame-parsing loop is carried over from one wait for input to the next' )
    # ---- client.__next__
    csrc = ctx.src( CLIENT )
    nx = csrc.get( 'client.__next__' )
    cfg = CFG( nx )
    # result (non-None) only under self.frame.terminal
    nrets = [ r for r in nx.body if isinstance( r, ast.Return ) and isinstance( r.value, ast.Name ) ]
    if not nrets:
        raise AnalysisError( 'client.__next__: final `return <result>` not found' )
    RESULT = nrets[-1].value.id
    assigns = [ n for n in cfg.nodes if n.kind == 'stmt' and isinstance( n.stmt, ast.Assign ) and dotted( n.stmt.targets[0] ) == RESULT
                and not ( isinstance( n.stmt.value, ast.Constant ) and n.stmt.value.value is None ) ]
    term_tests = [ n for n in cfg.nodes if n.kind == 'test' and pmatch( n.expr, 'self.frame.terminal' ) ]
    if not assigns:
        res.bad( csrc, nx, 'client.__next__', 'no result is ever produced' )
    for a in assigns:
        tsucc = [ m for t in term_tests for m, l in cfg.succ[t] if l == 'true' ]
        if term_tests and cfg.must_pass( cfg.entry, a, tsucc, correlated=False ):
            res.ok( csrc, a.stmt, 'client.__next__: a response is returned only when the frame machine is terminal' )
        else:
            res.bad( csrc, a.stmt, a.stmt, 'a response can be returned although its frame has not been completely received' )
    # the frame engine is dropped on every exception of the framing loop
    # the framing engine persists across calls while a frame is incomplete: it must never be closed on the `return None` (need more input) path
    closers = [ c for c in ast.walk( nx ) if ( is_call_to( c, 'contextlib.closing', 'closing' ) and c.args and dotted( c.args[0] ) in ( 'self.engine', 'engine' ))
                or is_call_to( c, 'self.engine.close' ) ]
    if closers:
        res.bad( csrc, closers[0], closers[0], 'the persistent framing engine is closed when __next__ returns for more input: a reply split over several received chunks can never be completed' )
    else:
        res.ok( csrc, nx, 'client.__next__ keeps its framing engine alive while a frame is incomplete (no close / closing)' )
    # the artifact the persistent engine fills is created together with that engine, and only then: the engine keeps a reference to the
    # data object it was started with, so rebinding self.data while an engine is running makes __next__ return an object the engine never fills
    runs = [ s_ for s_ in ast.walk( nx ) if isinstance( s_, ast.Assign ) and dotted( s_.targets[0] ) == 'self.engine' and is_call_to( s_.value, 'self.frame.run' ) ]
    if len( runs ) != 1:
        raise AnalysisError( 'client.__next__: creation of the framing engine ( self.engine = self.frame.run( ... )) not found' )
    rkw = { k.arg: k.value for k in runs[0].value.keywords }
    DATAATTR = dotted( rkw.get( 'data' )) or 'self.data'
    blk = csrc.parent.get( runs[0] )
    dstores = [ s_ for s_ in ast.walk( nx ) if isinstance( s_, ( ast.Assign, ast.AugAssign )) and any( dotted( t ) == DATAATTR for t in ( s_.targets if isinstance( s_, ast.Assign ) else [ s_.target ] )) ]
    if isinstance( blk, ast.If ) and pmatch( blk.test, 'self.engine is None' ) is not None and dstores and all( csrc.parent.get( d ) is blk and d in blk.body and blk.body.index( d ) < blk.body.index( runs[0] ) for d in dstores ):
        res.ok( csrc, runs[0], 'client.__next__: %s is (re)created only where a new framing engine is started on it ( if self.engine is None )' % DATAATTR )
    else:
        off = [ d for d in dstores if not ( csrc.parent.get( d ) is blk and isinstance( blk, ast.If )) ]
        res.bad( csrc, off[0] if off else runs[0], '%s rebound outside the block that starts the framing engine' % DATAATTR,
                 'a response that needs more than one received chunk is parsed by the engine started on the OLD object; __next__ then returns the fresh, empty one: the reply is lost although all its bytes arrived' )
    # "no input available" is source.peek() is None - never the truthiness of the symbol: a pending 0x00 octet (the first byte of a NOP
    # frame, of a zero session handle ...) is data
    for s_src, f_ in (( csrc, nx ), ( src, fn ), ( src, src.get( 'enip_srv_udp' ))):
        for n_ in ast.walk( f_ ):
            tests_ = []
            if isinstance( n_, ( ast.If, ast.While, ast.IfExp )):
                tests_.append( n_.test )
            elif isinstance( n_, ast.BoolOp ):
                tests_ += n_.values
            elif isinstance( n_, ast.UnaryOp ) and isinstance( n_.op, ast.Not ):
                tests_.append( n_.operand )
            for t_ in tests_:
                if isinstance( t_, ast.Call ) and isinstance( t_.func, ast.Attribute ) and t_.func.attr == 'peek' and not t_.args:
                    res.bad( s_src, t_, 'truthiness of %s decides whether input is pending' % norm_text( t_ ),
                             'a pending zero octet is falsy: the receiver goes back to the socket instead of parsing it; a frame that starts with 0x00 (NOP) and is already buffered is withheld, and dropped if EOF follows', func=s_src.qualname_of( f_ ))
    peeks = [ c_ for f_ in ( nx, fn ) for c_ in ast.walk( f_ ) if isinstance( c_, ast.Compare ) and isinstance( c_.left, ast.Call ) and isinstance( c_.left.func, ast.Attribute ) and c_.left.func.attr == 'peek'
              and isinstance( c_.ops[0], ( ast.Is, ast.IsNot )) ]
    if peeks:
        res.ok( csrc, peeks[0], 'pending input is tested with source.peek() is [not] None (%d sites)' % len( peeks ))
    def engine_loop( x ):
        return isinstance( x, ast.For ) and dotted( x.iter ) in ( 'self.engine', 'engine' )
    # the framing engine is (re-)entered only with something to parse: it is suspended awaiting a symbol, and entered without one it detects
    # "no progress", is discarded, and the rest of the half-received frame is parsed as a new header.  On the branch where the non-blocking
    # receive gave NOTHING ( <rcvd> is None; the source was empty ) the engine loop must be unreachable.
    rc = [ s_ for s_ in ast.walk( nx ) if isinstance( s_, ast.Assign ) and is_call_to( s_.value, 'self.recvfrom' ) ]
    if len( rc ) != 1:
        raise AnalysisError( 'client.__next__: the non-blocking receive ( ... = self.recvfrom( timeout=0 )) not found' )
    tg = rc[0].targets[0]
    RCVD = tg.elts[0].id if isinstance( tg, ast.Tuple ) and isinstance( tg.elts[0], ast.Name ) else ( tg.id if isinstance( tg, ast.Name ) else None )
    eloops = [ n for n in cfg.nodes if n.kind == 'for' and engine_loop( n.stmt ) ]
    nothing = []
    for n in cfg.nodes:
        if n.kind == 'test' and isinstance( n.expr, ast.Compare ) and len( n.expr.ops ) == 1 and isinstance( n.expr.ops[0], ( ast.Is, ast.IsNot )) \
           and any( dotted( a_ ) == RCVD and isinstance( b_, ast.Constant ) and b_.value is None for a_, b_ in (( n.expr.left, n.expr.comparators[0] ), ( n.expr.comparators[0], n.expr.left ))):
            lab = 'true' if isinstance( n.expr.ops[0], ast.Is ) else 'false'
            nothing += [ m for m, l in cfg.succ[n] if l == lab ]
    # ... and a frame is taken for complete only when the engine FINISHED ( the loop over it ran out ): the frame machine reports `terminal`
    # already during the last repeat cycle of the payload, so leaving the loop early ( break ) and then consulting frame.terminal declares a
    # frame complete one symbol short; the only early exit from the loop is the `return None` that keeps the engine for the next call
    for e_ in eloops:
        brk_ = [ b_ for b_ in ast.walk( e_.stmt ) if isinstance( b_, ast.Break ) and csrc.enclosing( b_, ( ast.For, ast.While )) is e_.stmt ]
        if brk_:
            res.bad( csrc, brk_[0], 'client.__next__ leaves the loop over its framing engine with `break`', 'with a chunk boundary just ahead of the last byte of a reply frame the frame machine already reports terminal: the client returns a payload one byte short, drops the engine, and parses the late byte as the start of a new frame' )
        else:
            res.ok( csrc, e_.stmt, 'client.__next__: the loop over the framing engine is left only by exhaustion or by `return None`' )
        # ... and over UDP that early exit ( "wait for more input" ) is refused: a datagram carries a whole frame; one that ends inside a frame
        # is a failed response - kept waiting, it is completed from the NEXT reply's datagram and delivers spliced garbage with status 0
        waits_ = [ r_ for r_ in ast.walk( e_.stmt ) if isinstance( r_, ast.Return ) and ( r_.value is None or ( isinstance( r_.value, ast.Constant ) and r_.value.value is None )) ]
        for r_ in waits_:
            blk = csrc.parent.get( r_ )
            sibs = blk.body if isinstance( blk, ( ast.If, ast.For, ast.While )) and r_ in blk.body else []
            guard_ = [ a_ for a_ in sibs[:sibs.index( r_ )] if isinstance( a_, ( ast.Assert, ast.If )) and 'udp' in txt( a_.test ).lower() ] if sibs else []
            if guard_ and ( isinstance( guard_[0], ast.Assert ) or any( isinstance( x_, ast.Raise ) for x_ in guard_[0].body )):
                res.ok( csrc, guard_[0], 'client.__next__: over UDP a response that ends inside a frame is refused, not awaited' )
            else:
                res.bad( csrc, r_, 'client.__next__ waits for more input inside a frame whatever the transport', 'over UDP the datagrams are then treated as a byte stream: a truncated reply datagram is completed from the header of the NEXT reply, and values spliced from two replies are delivered with status 0' )
    if RCVD is None or not nothing or not eloops:
        raise AnalysisError( 'client.__next__: the `%s is [not] None` branch after the receive, or the engine loop, not found' % RCVD )
    if any( e in cfg.reachable( nothing ) for e in eloops ):
        res.bad( csrc, eloops[0].stmt, 'client.__next__ enters `for ... in self.engine` although the receive returned nothing ( %s is None ) and the source is empty' % RCVD,
                 'polled between two chunks of one frame ( a timeout that expires mid-frame, then another attempt ) the suspended engine is resumed without a symbol: "no progress" is raised, the engine discarded, and the remaining bytes of the frame are framed as a new header' )
    else:
        res.ok( csrc, eloops[0].stmt, 'client.__next__: the framing engine is never entered on the branch where the receive gave nothing ( %s is None )' % RCVD )
    tries = [ t for t in walk_no_nested( nx ) if isinstance( t, ast.Try ) and any( engine_loop( x ) for x in ast.walk( t )) ]
    if len( tries ) != 1:
        raise AnalysisError( 'client.__next__: framing try not found' )
    hs = [ h for h in tries[0].handlers if h.type is None or dotted( h.type ) in ( 'Exception', 'BaseException' ) ]
    if hs and pfind( hs[0], 'self.engine = None' ) and isinstance( hs[0].body[-1], ast.Raise ):
        res.ok( csrc, hs[0], 'client.__next__: on any framing exception the engine is discarded and the exception propagates' )
    else:
        res.bad( csrc, tries[0], 'client.__next__ framing try', 'on error the partial frame engine must be discarded (self.engine = None) and the exception re-raised' )
    # engine reset when a frame completes
    if term_tests:
        body = term_tests[0].stmt.body
        if any( pmatch( s, 'self.engine = None' ) for s in body ):
            res.ok( csrc, term_tests[0].stmt, 'engine reset after a complete frame' )
        else:
            res.bad( csrc, term_tests[0].stmt, 'if self.frame.terminal', 'the engine must be reset when a frame completes' )
    # ... and over UDP whatever follows the frame in its datagram ends with it: left in the source, those octets are taken for the beginning of
    # the NEXT response ( the receive is skipped while the source holds anything ).  Accepted forms, under a test that mentions the transport and
    # after the engine loop: the source is run out ( for ... in self.source ), replaced ( self.source = ... ), or leftovers are refused ( assert )
    SRCATTR = dotted( rkw.get( 'source' )) or 'self.source'
    def drops_rest( st ):
        for x_ in ast.walk( st ):
            if isinstance( x_, ( ast.For, ast.While )) and SRCATTR in dotted_in( x_.iter if isinstance( x_, ast.For ) else x_.test ):
                return True
            if isinstance( x_, ast.Assign ) and any( dotted( t_ ) == SRCATTR for t_ in x_.targets ):
                return True
            if isinstance( x_, ast.Assert ) and SRCATTR + '.peek' in { call_name( c_ ) for c_ in ast.walk( x_.test ) if isinstance( c_, ast.Call ) }:
                return True
            if isinstance( x_, ast.If ) and any( isinstance( r_, ast.Raise ) for r_ in x_.body ) and SRCATTR + '.peek' in { call_name( c_ ) for c_ in ast.walk( x_.test ) if isinstance( c_, ast.Call ) }:
                return True
        return False
    after_ = [ st for st in ast.walk( nx ) if isinstance( st, ( ast.If, ast.Assert )) and 'udp' in txt( st.test ).lower()
               and st.lineno > tries[0].lineno and not any( a_ is e_.stmt for e_ in eloops for a_ in csrc.ancestors( st )) and drops_rest( st ) ]
    if after_:
        res.ok( csrc, after_[0], 'client.__next__: over UDP the octets that follow a complete frame in its datagram are discarded ( or refused ) with it' )
    else:
        res.bad( csrc, term_tests[0].stmt if term_tests else nx, 'client.__next__ keeps what follows a complete frame in the source whatever the transport',
                 'over UDP the rest of a reply datagram ( padding, a too-small header.length ) is parsed as the start of the next response: the receive is skipped, and the next, intact reply is refused as incomplete or a stray frame is delivered in its place' )
    # EOF between frames ends the iteration; EOF inside a frame does not
    stop = [ n for n in ast.walk( nx ) if isinstance( n, ast.Raise ) and dotted( n.exc ) == 'StopIteration' ]
    okstop = stop and all( isinstance( csrc.parent.get( s ), ast.If ) and pmatch( csrc.parent.get( s ).test, 'self.engine is None' ) for s in stop )
    if okstop:
        res.ok( csrc, stop[0], 'StopIteration only on EOF between frames (engine is None)' )
    else:
        res.bad( csrc, nx, 'StopIteration', 'the response stream may end silently only on EOF between frames' )
    ex = csrc.get( 'client.__exit__' )
    asserts = [ a for a in ast.walk( ex ) if isinstance( a, ast.Assert ) and pmatch( a.test, 'self.engine is None' ) ]
    guarded = [ a for a in asserts if isinstance( csrc.parent.get( a ), ast.If ) and pmatch( csrc.parent.get( a ).test, 'typ is None' ) ]
    if guarded:
        res.ok( csrc, guarded[0], 'client.__exit__ refuses to release a client with a partial frame' )
    else:
        res.bad( csrc, ex, 'client.__exit__', 'leaving the client without an exception must assert that no partial frame is pending' )
    return res


@rule( 'D-ECHO', props=( 'C06', ), floor=6 )
def d_echo( ctx ):
    """the response is a structural copy of the request's encapsulation; nothing on the server side stores to sender_context/command/session_handle (except Register)"""
    res = Result( 'D-ECHO' )
    src = ctx.src( LOGIX )
    fn = src.get( 'process' )
    # decided by value: the statements from the first store of <data>.response on, as far as they are a decision fragment, on a marked
    # request; `dotdict( x )` stands for "a new mapping with x's entries".  Afterwards the response and its encapsulation are new mappings
    # ( not the request's own ) holding the request's sender_context / session_handle / command
    dname = fn.args.args[1].arg
    def stores_response( st ):
        return isinstance( st, ast.Assign ) and any(( isinstance( t, ast.Attribute ) and t.attr == 'response' and dotted( t.value ) == dname )
                                                     or ( isinstance( t, ast.Subscript ) and dotted( t.value ) == dname and try_fold( t.slice ) == 'response' )
                                                     for t in st.targets )
    first = None
    for blk in ast.walk( fn ):
        for fld in ( 'body', 'orelse', 'finalbody' ):
            lst = getattr( blk, fld, None )
            if isinstance( lst, list ):
                for k, st in enumerate( lst ):
                    if stores_response( st ) and first is None:
                        first = ( lst, k )
    if first is None:
        res.bad( src, fn, 'process', 'the response must start as a structural copy of the request' )
    else:
        lst, k = first
        envelope = { 'sender_context': 'SC', 'session_handle': 'SH', 'command': 'CMD', 'input': 'IN' }
        request = { 'enip': envelope, 'addr': 'ADDR' }
        env = { dname: { 'request': request }, 'dotdict': lambda *a, **kw: dict( *a, **kw ), 'cpppo.dotdict': lambda *a, **kw: dict( *a, **kw ) }
        for n_, st in enumerate( lst ):
            if n_ < k and not ( isinstance( st, ast.Assign ) and all( isinstance( t, ast.Name ) for t in st.targets )):
                continue						# before the first store: only the locals it may be made of
            try:
                if run_block( [ st ], env, ignore_calls=( 'log', 'detail', 'info', 'debug' )).kind != 'fall' and n_ >= k:
                    break
            except NoFold:
                if n_ >= k:
                    break
        rsp = env[dname].get( 'response' )
        if isinstance( rsp, dict ) and rsp is not request and request == { 'enip': envelope, 'addr': 'ADDR' }:
            res.ok( src, lst[k], 'the response starts as a new mapping made of the request\'s entries' )
        else:
            res.bad( src, lst[k], 'process', 'the response must start as a structural copy of the request' )
        renip = rsp.get( 'enip' ) if isinstance( rsp, dict ) else None
        echoed = ( 'sender_context', 'session_handle', 'command' )
        if isinstance( renip, dict ) and renip is not envelope and all( renip.get( f ) == envelope[f] for f in echoed ) \
           and envelope == { 'sender_context': 'SC', 'session_handle': 'SH', 'command': 'CMD', 'input': 'IN' }:
            res.ok( src, lst[k], 'the response encapsulation is a new mapping holding the request\'s sender_context, session_handle, command' )
        else:
            res.bad( src, lst[k], 'process', 'the response encapsulation must be a copy of the request\'s (sender_context, session_handle, command echoed)' )
    call = pfind( fn, '_p = _u.request( data.response, addr=addr )' )
    call = [ ( n_, m_ ) for n_, m_ in call if isinstance( m_['_u'], ast.Name ) and pfind( fn, '%s = setup( **kwds )' % m_['_u'].id ) ]
    rets = [ s for s in ast.walk( fn ) if isinstance( s, ast.Return ) and s.value is not None ]
    if call and any( dotted( r.value ) == call[0][1]['_p'].id for r in rets if isinstance( call[0][1]['_p'], ast.Name )):
        res.ok( src, call[0][0], 'process returns what ucmm.request( data.response ) returns' )
    else:
        res.bad( src, fn, 'process', 'the request must be processed on the copied response and its proceed flag returned' )
    # the raw request payload is removed from the response
    if pfind( fn, "del data.response.enip['input']" ):
        res.ok( src, fn, "request payload removed from the response ( del data.response.enip['input'] )" )
    else:
        res.bad( src, fn, 'process', 'the request payload must be removed from the response so it can never be echoed as the reply' )
    # zero-count: no store to echoed fields on the server side
    usrc = ctx.src( UCMM ); dsrc = ctx.src( DEVICE )
    scanned = 0
    for s_, fns in (( src, [ 'process' ] ), ( usrc, [ 'UCMM.request', 'UCMM.list_identity', 'UCMM.list_services', 'UCMM.list_interfaces', 'UCMM.legacy' ] ),
                    ( dsrc, [ 'Connection_Manager.request' ] )):
        for qn in fns:
            f = s_.get( qn, required=False )
            if f is None:
                continue
            for st in walk_no_nested( f ):
                tg = st.targets if isinstance( st, ast.Assign ) else [ st.target ] if isinstance( st, ast.AugAssign ) else st.targets if isinstance( st, ast.Delete ) else []
                for t in tg:
                    scanned += 1
                    tt = txt( t )
                    if tt.replace( ' ', '' ) in ( 'data.enip', "data['enip']" ) and not isinstance( st, ast.Delete ):
                        res.bad( s_, st, st, 'the whole encapsulation envelope of the reply is replaced: the session handle, sender context and command it echoes must be those of the REQUEST ( a forwarded request\'s response envelope belongs to the gateway\'s own session with the target )', func=qn )
                    if 'sender_context' in tt or tt.endswith( '.command' ) or tt.endswith( "['command']" ) or tt.endswith( '.options' ):
                        res.bad( s_, st, st, 'the reply must echo the request\'s sender context / command unchanged', func=qn )
                    if 'session_handle' in tt:
                        br = _inside( s_, st, ( ast.If, ), f )
                        if br is not None and "'enip.CIP.register'indata" in txt( br.test ):
                            res.ok( s_, st, 'session_handle is assigned only in the Register branch' )
                        else:
                            res.bad( s_, st, st, 'the session handle may only be assigned by Register Session', func=qn )
    res.note( 'assignment targets scanned: %d' % scanned )
    # Register: non-zero handle
    ur = usrc.get( 'UCMM.request' )
    SESSION = ucmm_roles( ur ).get( 'session' ) or 'session'
    wl = [ w for w in ast.walk( ur ) if isinstance( w, ast.While ) and ( pmatch( w.test, 'not %s or %s in self.__class__.sessions' % ( SESSION, SESSION ))
                                                                         or pmatch( w.test, 'not %s or %s in self.sessions' % ( SESSION, SESSION ))) ]
    if wl:
        res.ok( usrc, wl[0], 'Register: the handle is re-drawn while zero or already in use' )
    else:
        res.bad( usrc, ur, 'Register branch', 'a new session handle must be re-drawn while it is zero or in use' )
    # Unregister: proceed = False and no enip.input store in that branch
    ub = [ i for i in ast.walk( ur ) if isinstance( i, ast.If ) and "'enip.CIP.unregister'indata" in txt( i.test ) ]
    if not ub:
        raise AnalysisError( 'UCMM.request: Unregister branch not found' )
    body = ub[0].body
    UPROC = ucmm_roles( ur ).get( 'proceed' )
    setf = any( pmatch( s, '%s = False' % UPROC ) for s in body )
    stores_input = any( isinstance( s, ast.Assign ) and 'input' in txt( s.targets[0] ) for b in body for s in ast.walk( b ))
    if setf and not stores_input:
        res.ok( usrc, ub[0], 'Unregister: proceed = False, no reply payload' )
    else:
        res.bad( usrc, ub[0], 'Unregister branch', 'Unregister Session must return nothing and end the session (proceed = False)' )
    rets = [ s for s in ur.body if isinstance( s, ast.Return ) ]
    if rets and UPROC and dotted( rets[-1].value ) == UPROC and pfind( ur, '%s = True' % UPROC ):
        res.ok( usrc, rets[-1], 'UCMM.request returns proceed' )
    else:
        res.bad( usrc, ur, 'UCMM.request return', 'must return the proceed flag' )
    return res


# ---------------------------------------------------------------------------------------- C07: A-OFFSETS, P-ORDER, P-EACH, P-CLOSURE

def linear( e, atoms=None ):
    """normalise an integer expression to { atom text: coefficient, '': constant } (atoms = maximal non-arithmetic sub-expressions)"""
    if isinstance( e, ast.BinOp ) and isinstance( e.op, ( ast.Add, ast.Sub )):
        a, b = linear( e.left ), linear( e.right )
        if a is None or b is None:
            return None
        sign = 1 if isinstance( e.op, ast.Add ) else -1
        out = dict( a )
        for k, v in b.items():
            out[k] = out.get( k, 0 ) + sign * v
        return { k: v for k, v in out.items() if v != 0 or k == '' }
    if isinstance( e, ast.BinOp ) and isinstance( e.op, ast.Mult ):
        a, b = linear( e.left ), linear( e.right )
        if a is None or b is None:
            return None
        if set( a ) <= { '' }:
            c = a.get( '', 0 ); return { k: c * v for k, v in b.items() if c * v != 0 or k == '' }
        if set( b ) <= { '' }:
            c = b.get( '', 0 ); return { k: c * v for k, v in a.items() if c * v != 0 or k == '' }
        return None
    if isinstance( e, ast.UnaryOp ) and isinstance( e.op, ast.USub ):
        a = linear( e.operand )
        return None if a is None else { k: -v for k, v in a.items() }
    v = try_fold( e, default=NoFold )
    if v is not NoFold and isinstance( v, int ):
        return { '': v }
    return { txt( e ): 1 }


def _canon( lin ):
    return tuple( sorted(( k, v ) for k, v in lin.items() if v != 0 ))


@rule( 'A-OFFSETS', props=( 'C07', 'C01', 'C14' ), floor=4 )
def a_offsets( ctx ):
    """Multiple Service Packet: all four offset-header expressions normalise to 2 + 2*N (+ running offset)"""
    res = Result( 'A-OFFSETS' )
    src = ctx.src( DEVICE )
    pr = src.get( 'Message_Router.produce' )
    n = 0
    tables = []
    for f in _scope_walk( src, pr ):
        # an offset-table emitter: a loop over a list local whose body emits UINT.produce( ... ) of the loop variable
        if isinstance( f, ast.For ) and isinstance( f.target, ast.Name ) and isinstance( f.iter, ast.Name ):
            v = f.target.id; OFF = f.iter.id
            for c in ast.walk( f ):
                if is_call_to( c, 'UINT.produce' ) and c.args and v in names_in( c.args[0] ):
                    n += 1
                    tables.append( OFF )
                    lin = linear( c.args[0] )
                    want = { '': 2, 'len(%s)' % OFF: 2, v: 1 }
                    if lin is not None and _canon( lin ) == _canon( want ):
                        res.ok( src, c, 'produced offset = %s = 2 + 2*N + running offset' % norm_text( c.args[0] ))
                    else:
                        res.bad( src, c, c.args[0], 'each offset in the table must be 2 + 2*N + (sum of the preceding message lengths): the first embedded message starts right after the count and the N offsets' )
    if n < 1:
        raise AnalysisError( 'Message_Router.produce: no offset-table emitter found' )
    # the running offset is the length of what is emitted, and what is emitted for a member is what the member's producer rendered: inside
    # the loops over the members the local that receives <producer>( member ) / the member's octets is never changed afterwards ( padded,
    # trimmed ).  The receiving side cuts the members at the offsets and lets each member's parser run to the end of its slice: an extra
    # octet behind a Write Tag Fragmented of an odd number of SINTs is one more element
    for f in _scope_walk( src, pr ):
        if not ( isinstance( f, ast.For ) and isinstance( f.target, ast.Name ) and 'multiple' in ast.unparse( f.iter )):
            continue
        mv = f.target.id
        member = [ a for a in ast.walk( f ) if isinstance( a, ast.Assign ) and isinstance( a.targets[0], ast.Name ) and mv in names_in( a.value )
                   and any( isinstance( c_, ast.Call ) for c_ in ast.walk( a.value )) ]
        for a in member:
            M_ = a.targets[0].id
            again = [ b for b in ast.walk( f ) if b is not a and isinstance( b, ( ast.Assign, ast.AugAssign )) and any( isinstance( t_, ast.Name ) and t_.id == M_ for t_ in ast.walk( b.targets[0] if isinstance( b, ast.Assign ) else b.target )) ]
            if again:
                res.bad( src, again[0], 'Message_Router.produce: the octets of a member are changed after they were rendered ( %s )' % norm_text( ast.unparse( again[0] ))[:70],
                         'the receiver parses each member to the end of the slice its offsets give: a pad octet behind a member is data of that member ( one more SINT / BOOL element of a Write Tag Fragmented: refused, or written over the element behind the range )' )
            else:
                res.ok( src, a, 'the octets of member %s are emitted as rendered' % mv )
    # count field = len( offsets )
    cnts = [ c for c in _scope_walk( src, pr ) if is_call_to( c, 'UINT.produce' ) and c.args and any( pmatch( c.args[0], 'len( %s )' % o ) for o in set( tables )) ]
    if len( cnts ) == n:
        res.ok( src, cnts[0], 'count field = len( offsets ) wherever an offset table is emitted' )
    else:
        res.bad( src, pr, 'Message_Router.produce count', 'the count field must be the number of offsets (= number of embedded messages)' )
    # the parser closure: roles from the artifact entries they are read from
    cl = src.get( 'state_multiple_service.terminate.closure' )
    def role( suffix ):
        for s_ in ast.walk( cl ):
            if isinstance( s_, ast.Assign ) and isinstance( s_.targets[0], ast.Name ):
                for part in [ s_.value ] + s_.targets[1:]:
                    for v_ in ast.walk( part ):
                        if isinstance( v_, ast.Constant ) and v_.value == suffix:
                            return s_.targets[0].id
        raise AnalysisError( 'closure: the local read from data[path + %r] not found' % suffix )
    OFFS, REQDATA, REQUEST = role( '.multiple.offsets' ), role( '.multiple.request_data' ), role( '.multiple.request' )
    loop = [ f for f in ast.walk( cl ) if isinstance( f, ast.For ) and pmatch( f.iter, 'range( len( %s ))' % OFFS ) and isinstance( f.target, ast.Name ) ]
    if not loop:
        raise AnalysisError( 'closure: loop over range( len( offsets )) not found' )
    OI = loop[0].target.id
    SM = Matcher()
    sl = SM.find( cl, '_req.input = %s[_beg:_end]' % REQDATA )
    if sl is None or not isinstance( SM.b.get( '_beg' ), ast.Name ) or not isinstance( SM.b.get( '_end' ), ast.Name ):
        res.bad( src, cl, 'closure member slicing', 'each member must be reqdata[beg:end] between consecutive offsets, the last one to the end, appended in order' )
        return res
    BEG, END, REQ = SM.name( '_beg' ), SM.name( '_end' ), SM.name( '_req' )
    for name, var, idx in (( 'beg', BEG, '%s[%s]' % ( OFFS, OI )), ( 'end', END, '%s[%s+1]' % ( OFFS, OI ))):
        hits = [ s for s in ast.walk( cl ) if isinstance( s, ast.Assign ) and dotted( s.targets[0] ) == var and OFFS in names_in( s.value ) and isinstance( s.value, ast.BinOp ) ]
        if len( hits ) != 1:
            raise AnalysisError( 'closure: %s computation not found' % name )
        lin = linear( hits[0].value )
        want = { idx: 1, 'len(%s)' % OFFS: -2, '': -2 }
        if lin is not None and _canon( lin ) == _canon( want ):
            res.ok( src, hits[0], 'parsed %s = %s = offset - ( 2 + 2*N )' % ( name, norm_text( hits[0].value )))
        else:
            res.bad( src, hits[0], hits[0], 'slice bound must be offset - ( 2 + 2*N ): offsets are relative to the start of the count field' )
    # last member to the end; slice and append in order
    last = [ s for s in ast.walk( cl ) if isinstance( s, ast.Assign ) and dotted( s.targets[0] ) == END and pmatch( s.value, 'len( %s )' % REQDATA ) ]
    app = pfind( cl, '%s.append( %s )' % ( REQUEST, REQ ))
    if last and loop and sl is not None and app:
        res.ok( src, loop[0], 'members sliced reqdata[beg:end] between consecutive offsets (last to the end), appended in offset order' )
    else:
        res.bad( src, cl, 'closure member slicing', 'each member must be reqdata[beg:end] between consecutive offsets, the last one to the end, appended in order' )
    return res


def _produce_scope( src, pr ):
    """pr plus the sibling methods of its class it calls as cls.<name>( ... ) / self.<name>( ... ) (one level): a refactoring that moves the member
    loop or the offset-table emitter into a helper method keeps being analysed"""
    out = [ pr ]
    cd = src.enclosing( pr, ( ast.ClassDef, ))
    if cd is not None:
        sib = { f.name: f for f in cd.body if isinstance( f, ast.FunctionDef ) and f is not pr }
        for c in ast.walk( pr ):
            if isinstance( c, ast.Call ) and isinstance( c.func, ast.Attribute ) and isinstance( c.func.value, ast.Name ) and c.func.value.id in ( 'cls', 'self' ) \
               and c.func.attr in sib and sib[c.func.attr] not in out and c.func.attr != pr.name:
                out.append( sib[c.func.attr] )
    return out


def _scope_walk( src, pr ):
    for fn in _produce_scope( src, pr ):
        for n in ast.walk( fn ):
            yield n


def _member_loops( src, pr ):
    """loops of Message_Router.produce (also inside local helpers) that accumulate encoded members: -> [ ( For, branches ) ], branches a subset of { 'REQ', 'RPY' }"""
    def branch_of( node ):
        out = set()
        for a_ in src.ancestors( node ):
            if isinstance( a_, ast.If ):
                inb = any( node is x or any( node is y for y in ast.walk( x )) for x in a_.body )
                if inb and 'MULTIPLE_REQ' in txt( a_.test ):
                    out.add( 'REQ' )
                if inb and 'MULTIPLE_RPY' in txt( a_.test ):
                    out.add( 'RPY' )
            if a_ is pr:
                break
        return out
    loops = []
    for f in _scope_walk( src, pr ):
        if not isinstance( f, ast.For ):
            continue
        acc = [ s_ for s_ in f.body if isinstance( s_, ast.Assign ) and isinstance( s_.targets[0], ast.Name )
                and ( pmatch( s_.value, '_new + %s' % s_.targets[0].id ) or pmatch( s_.value, '%s + _new' % s_.targets[0].id )) ]
        if not acc:
            continue
        helper = src.enclosing( f, ( ast.FunctionDef, ))
        if helper is pr:
            br = branch_of( f )
        else:
            br = set()
            for c in ast.walk( pr ):
                if isinstance( c, ast.Call ) and call_name( c ).split( '.' )[-1] == helper.name:
                    br |= branch_of( c )
        loops.append(( f, br ))
    return loops


@rule( 'P-ORDER', props=( 'C07', ), floor=2 )
def p_order( ctx ):
    """Multiple Service produce loops: iteration order and accumulation direction pair up; request members are always freshly produced (never taken from a stale .input)"""
    res = Result( 'P-ORDER' )
    src = ctx.src( DEVICE )
    pr = src.get( 'Message_Router.produce' )
    loops = _member_loops( src, pr )
    if not loops:
        raise AnalysisError( 'Message_Router.produce: no member loop found' )
    covered = set()
    for f, branches in loops:
        covered |= branches
        it = f.iter
        inner = it.args[0] if is_call_to( it, 'reversed' ) and it.args else it
        d_iter = 'rev' if is_call_to( it, 'reversed' ) else 'fwd'
        if is_call_to( inner, 'sorted', 'list', 'filter' ) or isinstance( inner, ast.Subscript ):
            res.bad( src, f, it, 'members must be produced from the member list itself (not sorted/sliced/filtered)' ); continue
        d_data = d_off = None
        new = None
        for s_ in f.body:
            if isinstance( s_, ast.Assign ) and isinstance( s_.targets[0], ast.Name ):
                t = s_.targets[0].id
                m = pmatch( s_.value, '_new + %s' % t )
                if m and isinstance( m['_new'], ast.Name ):
                    d_data = 'prepend'; new = m['_new'].id; acc = t
                m = pmatch( s_.value, '%s + _new' % t )
                if m and isinstance( m['_new'], ast.Name ):
                    d_data = 'append'; new = m['_new'].id; acc = t
                m = pmatch( s_.value, '[ 0 ] + [ _o + len( _new ) for _o in %s ]' % t )
                if m:
                    d_off = ( 'prepend', dotted( m['_new'] ))
                m = pmatch( s_.value, '%s + [ len( _acc ) ]' % t )
                if m:
                    d_off = ( 'append', dotted( m['_acc'] ))
            if isinstance( s_, ast.AugAssign ) and isinstance( s_.op, ast.Add ) and isinstance( s_.target, ast.Name ) and isinstance( s_.value, ast.Name ):
                d_data = 'append'; new = s_.value.id; acc = s_.target.id
        if d_data is None or d_off is None:
            raise AnalysisError( 'Message_Router.produce: accumulation idiom of a member loop not recognised' )
        good = ( d_iter == 'rev' and d_data == 'prepend' and d_off == ( 'prepend', new )) \
            or ( d_iter == 'fwd' and d_data == 'append' and d_off[0] == 'append' and d_off[1] == acc )
        if good:
            res.ok( src, f, 'members iterated %s, data %s, offsets %s: original order preserved (%s)' % ( d_iter, d_data, d_off[0], '/'.join( sorted( branches ))))
        else:
            res.bad( src, f, 'iteration %s with data %s / offsets %s' % ( d_iter, d_data, d_off ),
                     'iteration order and accumulation direction do not pair up: members (or their offsets) come out in reversed order' )
        # how is each member encoded?
        var = f.target.id if isinstance( f.target, ast.Name ) else None
        enc = [ s_.value for s_ in f.body if isinstance( s_, ast.Assign ) and isinstance( s_.targets[0], ast.Name ) and s_.targets[0].id == new ]
        if not enc or var is None:
            raise AnalysisError( 'Message_Router.produce: member encoder not found' )
        fresh = pmatch( enc[0], 'cls.produce( %s )' % var )
        cached = pmatch( enc[0], "octets_encode( %s.input ) if 'input' in %s else cls.produce( %s )" % ( var, var, var ))
        if 'REQ' in branches:
            if fresh:
                res.ok( src, f, 'request members are encoded by cls.produce( member )' )
            else:
                res.bad( src, enc[0], enc[0], 'a bundled *request* member must always be freshly produced: a member that carries an .input (e.g. only its data payload) would be embedded instead of its encoding, and the server drops it and every later member' )
        if 'RPY' in branches:
            if fresh or cached:
                res.ok( src, f, 'reply members: the already produced .input, else cls.produce( member )' )
            else:
                res.bad( src, enc[0], enc[0], 'reply members must be the member\'s produced .input (or cls.produce( member ))' )
    for need in ( 'REQ', 'RPY' ):
        if need not in covered:
            res.bad( src, pr, 'Message_Router.produce %s branch' % need, 'no member loop serves the %s branch' % need )
    return res


@rule( 'P-EACH', props=( 'C07', ), floor=2 )
def p_each( ctx ):
    """Message_Router.request: every member of the bundle is dispatched exactly once, in order, unconditionally"""
    res = Result( 'P-EACH' )
    src = ctx.src( DEVICE )
    fn = src.get( 'Message_Router.request' )
    loops = [ f for f in walk_no_nested( fn ) if isinstance( f, ast.For ) and 'multiple' in attrs_in( f.iter ) ]
    if len( loops ) != 1:
        res.bad( src, fn, 'Message_Router.request', 'no loop over data.multiple.request: bundled requests are not executed' )
        return res
    f = loops[0]
    if txt( f.iter ) == 'data.multiple.request' and isinstance( f.target, ast.Name ):
        res.ok( src, f, 'iterates data.multiple.request itself, in order' )
    else:
        res.bad( src, f, f.iter, 'the bundle must be executed in request order over data.multiple.request itself' )
    var = f.target.id if isinstance( f.target, ast.Name ) else '?'
    cfg = CFG( fn )
    h = cfg.node_of( f )
    first = [ m for m, l in cfg.succ[h] if l == 'true' ]
    backs = [ p for p, l in cfg.pred[h] if l in ( 'back', 'continue' ) ]
    calls = [ n for n in cfg.nodes if n.kind == 'stmt' and n.stmt is not None and any(
        isinstance( c, ast.Call ) and isinstance( c.func, ast.Attribute ) and c.func.attr == 'request' and c.args and dotted( c.args[0] ) == var
        for c in ast.walk( n.stmt )) ]
    cnt = cfg.effect_counts( first[0], calls, backs, cut_back=True, skip_labels=( 'exc', )) if first and backs else {}
    if cnt and all( v == ( 1, 1 ) for v in cnt.values() ):
        res.ok( src, f, 'target.request( %s ) exactly once per member' % var )
    else:
        res.bad( src, f, 'member dispatch count per iteration %s' % sorted( set( cnt.values() )),
                 'every bundled request must be executed exactly once (none skipped, none repeated)' )
    # same target for all members, addr forwarded
    for c in calls:
        call = [ x for x in ast.walk( c.stmt ) if isinstance( x, ast.Call ) and isinstance( x.func, ast.Attribute ) and x.func.attr == 'request' ][0]
        routed = { t.id for a_ in ast.walk( fn ) if isinstance( a_, ast.Assign ) and is_call_to( a_.value, 'self.route' ) for t in a_.targets if isinstance( t, ast.Name ) }
        if dotted( call.func.value ) in routed and any( k.arg == 'addr' and dotted( k.value ) == 'addr' for k in call.keywords ):
            res.ok( src, call, 'member dispatched to the routed target with the session addr' )
        else:
            res.bad( src, call, call, 'members must be dispatched to the routed target object with the session address' )
    # a member's reply is rendered INTO the member ( r.service, r.status, r.input ... ): the bundle reply is produced from the list the loop runs
    # over, so the loop variable is never re-bound - `r = <helper>( r )` answers a copy and leaves the request itself in the list, which
    # is then echoed back where its reply belongs ( no reply bit, no status )
    rebound = [ a_ for a_ in ast.walk( f ) if a_ is not f and isinstance( a_, ( ast.Assign, ast.AugAssign, ast.For, ast.With )) and any(
        isinstance( t_, ast.Name ) and t_.id == var and isinstance( t_.ctx, ast.Store ) and not ( isinstance( a_, ast.With ))
        for tg_ in ( a_.targets if isinstance( a_, ast.Assign ) else [ a_.target ] if isinstance( a_, ( ast.AugAssign, ast.For )) else [] ) for t_ in ast.walk( tg_ )) ]
    if rebound:
        res.bad( src, rebound[0], 'Message_Router.request: the member loop re-binds its loop variable ( %s )' % norm_text( ast.unparse( rebound[0] ))[:70],
                 'the reply of that member is rendered into another object than the one in data.multiple.request: the bundle reply carries the member\'s REQUEST octets where its reply belongs ( no reply bit, no status ) - the same request sent alone is answered service | 0x80, status 0x08' )
    else:
        res.ok( src, f, 'the member loop never re-binds %s: every reply is rendered into the member the bundle reply is produced from' % var )
    # the handler that answers a failing member alone must not fail itself: the member may be EMPTY ( two equal offsets, an offset at the end of
    # the data: no service, no path ), so every field it READS there is one it has stored before in the handler, or reads through
    # .get / .pop / `in`.  An attribute read of an absent field raises inside the handler: the whole bundle is answered 0x08 and the
    # neighbours' replies ( whose writes were carried out ) are lost
    DICT_METHODS = ( 'get', 'pop', 'setdefault', 'update', 'keys', 'items', 'values' )
    for h_ in [ x for x in ast.walk( f ) if isinstance( x, ast.ExceptHandler ) ]:
        loose = []
        def reads( node, have ):
            for n_ in ast.walk( node ):
                if isinstance( n_, ast.Attribute ) and isinstance( n_.ctx, ast.Load ) and isinstance( n_.value, ast.Name ) and n_.value.id == var:
                    par = src.parent.get( n_ )
                    if n_.attr in DICT_METHODS and isinstance( par, ast.Call ) and par.func is n_:
                        continue
                    if n_.attr not in have:
                        loose.append( n_ )
        def stored( st_ ):
            return { t_.attr for tg_ in ( st_.targets if isinstance( st_, ast.Assign ) else [] ) for t_ in [ tg_ ] if isinstance( t_, ast.Attribute ) and dotted( t_.value ) == var }
        def walk( stmts, have ):
            have = set( have )
            for st_ in stmts:
                if isinstance( st_, ast.If ):
                    reads( st_.test, have )
                    b_ = walk( st_.body, have ); o_ = walk( st_.orelse, have )
                    both = b_ & o_
                    # `if not r.get( 'x' ): r.x = ...` / `if 'x' not in r: r.x = ...`: x is there afterwards either way
                    t_ = st_.test
                    key = None
                    if isinstance( t_, ast.UnaryOp ) and isinstance( t_.op, ast.Not ) and isinstance( t_.operand, ast.Call ) and dotted( t_.operand.func ) == var + '.get' and t_.operand.args:
                        key = try_fold( t_.operand.args[0] )
                    if isinstance( t_, ast.Compare ) and len( t_.ops ) == 1 and isinstance( t_.ops[0], ast.NotIn ) and dotted( t_.comparators[0] ) == var:
                        key = try_fold( t_.left )
                    if key and key in b_ and not st_.orelse:
                        both = both | { key }
                    have = both
                elif isinstance( st_, ( ast.Assign, ast.AugAssign, ast.Expr, ast.Return, ast.Raise, ast.Assert )):
                    reads( st_.value if isinstance( st_, ( ast.Assign, ast.AugAssign, ast.Expr, ast.Return )) and st_.value is not None else st_, have )
                    have |= stored( st_ )
                else:
                    reads( st_, have )
            return have
        walk( h_.body, set())
        if loose:
            res.bad( src, loose[0], 'the handler answering a failing member alone reads %s.%s, which an empty or unparsed member does not have ( %s )' % ( var, loose[0].attr, norm_text( stmt_of( src, loose[0] ))[:70] ),
                     'the read raises inside the handler: the whole Multiple Service Packet is answered 0x08 where that member alone should be - the replies of its neighbours, whose writes were carried out, are lost' )
        else:
            res.ok( src, h_, 'the handler answering a failing member alone reads only fields it has stored, or through .get / .pop' )
    # behind the loop the bundle itself is answered with status 0x00 whatever became of its members: each member carries its own status, and
    # this code base's client ( enip_replies ) gives up on the whole bundle - every member's reply - for any other bundle status
    blk_ = src.parent.get( f )
    sibs_ = next(( getattr( blk_, fld_ ) for fld_ in ( 'body', 'orelse', 'finalbody' ) if isinstance( getattr( blk_, fld_, None ), list ) and f in getattr( blk_, fld_ )), [] )
    after_ = [ a_ for a_ in sibs_[sibs_.index( f ) + 1:] if isinstance( a_, ast.Assign ) and any( dotted( t ) == 'data.status' for t in a_.targets ) ] if f in sibs_ else []
    if after_ and all( try_fold( a_.value, {}, default='?' ) == 0 for a_ in after_ ):
        res.ok( src, after_[0], 'the bundle is answered with status 0x00, a constant: a failing member shows in its own reply only' )
    else:
        res.bad( src, after_[0] if after_ else f, 'the status of the bundle behind the member loop is `%s`' % ( norm_text( after_[0].value ) if after_ else 'not stored' ),
                 'a bundle status that depends on its members ( 0x1E when one fails ) makes the client drop the replies of ALL members ( MSVCStatusError ), where the same requests issued one by one yield each its own result' )
    # the loop body never touches the bundle's own status
    st = [ s for s in ast.walk( f ) if isinstance( s, ast.Assign ) and any( dotted( t ) == 'data.status' for t in s.targets ) ]
    if st:
        res.bad( src, st[0], st[0], 'a member must not alter the bundle\'s own status inside the loop' )
    # ... and nothing OUTSIDE that protection looks into the member: a member may lack any field ( an unparseable one carries just .input and,
    # perhaps, .service ) and may name a service nobody registered - an attribute of the member, or a table indexed with one, evaluated in the
    # loop body ahead of the protected dispatch ( a log line, say ) raises out of the loop just like an unprotected dispatch would
    protected = { id( x_ ) for t_ in walk_no_nested( f ) if isinstance( t_, ast.Try ) for b_ in t_.body + [ y_ for h_ in t_.handlers for y_ in h_.body ] for x_ in ast.walk( b_ ) }
    peeks = [ x_ for x_ in ast.walk( f ) if id( x_ ) not in protected and x_ is not f.target and (
        ( isinstance( x_, ast.Attribute ) and isinstance( x_.value, ast.Name ) and x_.value.id == var )
        or ( isinstance( x_, ast.Subscript ) and ( var in names_in( x_.slice ) or ( isinstance( x_.value, ast.Name ) and x_.value.id == var )))) ]
    if peeks:
        res.bad( src, peeks[0], 'Message_Router.request: %s is evaluated in the member loop outside the protected dispatch' % norm_text( peeks[0] ),
                 'for a member without that field, or with a service code nobody registered, this raises out of the loop ( e.g. only when DETAIL logging is on ): the whole bundle is answered 0x08 with no member replies, members ahead of it already executed' )
    else:
        res.ok( src, f, 'outside the protected dispatch the member loop never looks into a member ( no %s.<field>, no table indexed by one )' % var )
    # one member cannot take its neighbours with it: whatever escapes from a member's request() ( RequestUnrecognized for a service the target
    # does not support is raised OUTSIDE Object.request's own status-converting try ) is caught per member, inside the loop
    for c in calls:
        trs = [ a_ for a_ in src.ancestors( c.stmt ) if isinstance( a_, ast.Try ) and any( c.stmt is x_ for b_ in a_.body for x_ in ast.walk( b_ )) and any( a_ is x_ for x_ in ast.walk( f ))
                and any(( h_.type is None or dotted( h_.type ) in ( 'Exception', 'BaseException' )) and not any( isinstance( r_, ast.Raise ) for r_ in ast.walk( h_ )) for h_ in a_.handlers ) ]
        if trs:
            res.ok( src, c.stmt, 'an exception escaping from one member is handled inside the member loop' )
        else:
            res.bad( src, c.stmt, 'Message_Router.request: the dispatch of a member ( <target>.request( <member> )) is not protected inside the member loop',
                     'a member whose service the target does not support raises RequestUnrecognized out of the loop: the whole bundle is answered with status 0x08 and NO member replies, although the members ahead of it were executed, and the members behind it never run - the same requests sent individually are all answered' )
    return res


@rule( 'P-CLOSURE', props=( 'C07', 'C09' ), floor=2 )
def p_closure( ctx ):
    """state_multiple_service.terminate: on the no-exception path the member-parsing closure is either posted or run, exactly once"""
    res = Result( 'P-CLOSURE' )
    src = ctx.src( DEVICE )
    fn = src.get( 'state_multiple_service.terminate' )
    cfg = CFG( fn )
    post = [ n for n in cfg.nodes if n.kind == 'stmt' and n.stmt is not None and pfind( n.stmt, '_p.post_process_closure( closure )' ) ]
    run = [ n for n in cfg.nodes if n.kind == 'stmt' and n.stmt is not None and pmatch( n.stmt, 'closure()' ) ]
    if not post or not run:
        res.bad( src, fn, 'terminate', 'the closure must be posted when the target parser is locked, else run immediately' )
        return res
    cnt = cfg.effect_counts( cfg.entry, post + run, [ cfg.exit ], cut_back=True, skip_labels=( 'exc', ))
    # the early `if exception: return` exit performs 0; every other normal exit performs exactly 1
    rets = [ n for n in cfg.nodes if n.kind == 'stmt' and isinstance( n.stmt, ast.Return ) ]
    early = [ r for r in rets if isinstance( src.parent.get( r.stmt ), ast.If ) and pmatch( src.parent.get( r.stmt ).test, 'exception' ) ]
    cnt2 = cfg.effect_counts( cfg.entry, post + run, [ cfg.exit ], cut_back=True, skip_labels=( 'exc', ), avoid=early )
    if cnt2.get( cfg.exit ) == ( 1, 1 ):
        res.ok( src, fn, 'no-exception path: closure posted or run exactly once' )
    else:
        res.bad( src, fn, 'closure executions on the normal path: %s' % ( cnt2.get( cfg.exit ), ), 'members must be parsed exactly once (posted xor run)' )
    # guard: posted iff the target parser's lock is held
    looked = sorted( { t_.id for a_ in ast.walk( fn ) if isinstance( a_, ast.Assign ) and is_call_to( a_.value, 'lookup' ) for t_ in a_.targets if isinstance( t_, ast.Name ) } )
    if len( looked ) != 1:
        raise AnalysisError( 'state_multiple_service.terminate: the target object ( <name> = lookup( *ids )) not found' )
    TARGET = looked[0]
    t = [ n for n in cfg.nodes if n.kind == 'test' and pmatch( n.expr, '%s.parser.lock.locked()' % TARGET ) ]
    if t and all( cfg.must_pass( cfg.entry, p, [ m for m, l in cfg.succ[t[0]] if l == 'true' ], correlated=False ) for p in post ) \
       and all( cfg.must_pass( cfg.entry, r, [ m for m, l in cfg.succ[t[0]] if l == 'false' ], correlated=False ) for r in run ):
        res.ok( src, t[0].stmt, 'posted when target.parser.lock.locked(), run directly otherwise' )
    else:
        res.bad( src, fn, 'closure dispatch', 'post when the target parser lock is held (re-entrancy), run directly otherwise' )
    # the closure parses with the target's parser under its lock and asserts terminal
    cl = src.get( 'state_multiple_service.terminate.closure' )
    w = [ x for x in ast.walk( cl ) if isinstance( x, ast.With ) and txt( x.items[0].context_expr ) == TARGET + '.parser' and isinstance( x.items[0].optional_vars, ast.Name ) ]
    asserts = [ a for a in ast.walk( cl ) if isinstance( a, ast.Assert ) and w and pmatch( a.test, '%s.terminal' % w[0].items[0].optional_vars.id ) ]
    if w and asserts:
        res.ok( src, w[0], 'each member parsed with target.parser (locked) and asserted terminal' )
    else:
        res.bad( src, cl, 'closure', 'each member must be parsed under `with target.parser` and the parse asserted terminal' )
        return res
    # the member slices: every slice <data>[ beg : end ] whose bounds come from the offset table is preceded by a test of the lower bound
    # against 0 ( an offset that points into the offset table gives a NEGATIVE begin; Python counts it from the END of the data, so a member
    # is parsed - and executed - from bytes of another member )
    sl = [ x for x in ast.walk( cl ) if isinstance( x, ast.Subscript ) and isinstance( x.slice, ast.Slice ) and isinstance( x.slice.lower, ast.Name ) and isinstance( x.slice.upper, ast.Name ) ]
    if not sl:
        raise AnalysisError( 'state_multiple_service.terminate.closure: member slice <data>[ beg : end ] not found' )
    BEG_ = sl[0].slice.lower.id
    def lower_tests():
        out = []
        for n_ in ast.walk( cl ):
            t_ = n_.test if isinstance( n_, ( ast.If, ast.Assert )) else None
            if t_ is None:
                continue
            for c_ in ast.walk( t_ ):
                if isinstance( c_, ast.Compare ):
                    left = c_.left
                    for op_, r_ in zip( c_.ops, c_.comparators ):
                        if ( try_fold( left ) == 0 and isinstance( op_, ast.LtE ) and dotted( r_ ) == BEG_ ) or ( dotted( left ) == BEG_ and isinstance( op_, ast.GtE ) and try_fold( r_ ) == 0 ) \
                           or ( dotted( left ) == BEG_ and isinstance( op_, ast.Lt ) and try_fold( r_ ) == 0 ) or ( try_fold( left ) == 0 and isinstance( op_, ast.Gt ) and dotted( r_ ) == BEG_ ):
                            out.append( n_ )
                        left = r_
        return out
    lt_ = lower_tests()
    if lt_ and all( min( g_.lineno for g_ in lt_ ) < x.lineno for x in sl ):
        res.ok( src, lt_[0], 'the begin of every member slice is tested against 0 before it is used ( %d slices )' % len( sl ))
    else:
        res.bad( src, sl[0], 'the member slice [ %s : ... ] is taken from offsets that were never checked' % BEG_,
                 'an offset pointing into the offset table ( 0, 2 ... ) gives a negative begin, which Python counts from the end of the data: a member is parsed, and executed, from the tail of another member\'s bytes' )
    # a member joins the list of requests to execute only AFTER its parse completed: the closure runs as a post-processing step whose
    # exceptions are merely logged, so whatever is already in the list when a member fails to parse is executed by Message_Router.request
    ccfg = CFG( cl )
    appends = [ n for n in ccfg.nodes if n.kind == 'stmt' and n.stmt is not None and any( isinstance( c, ast.Call ) and isinstance( c.func, ast.Attribute ) and c.func.attr in ( 'append', 'extend', 'insert' ) for c in ast.walk( n.stmt )) ]
    anodes = [ n for n in ccfg.nodes if n.kind == 'stmt' and any( n.stmt is a for a in asserts ) ]
    if not appends:
        raise AnalysisError( 'state_multiple_service.terminate.closure: the append of a parsed member to the request list not found' )
    # ... and a member that fails to parse is ACCOUNTED FOR: the failure is handled per member inside the closure ( the post-processing step
    # that runs the closure merely logs what escapes from it, so an escaping failure silently ends the list at the members parsed so far )
    mloops = [ l_ for l_ in walk_no_nested( cl ) if isinstance( l_, ast.For ) and any( a_ is x_ for a_ in asserts for x_ in ast.walk( l_ )) ]
    for a_ in asserts:
        trs = [ t_ for t_ in src.ancestors( a_ ) if isinstance( t_, ast.Try ) and any( a_ is x_ for b_ in t_.body for x_ in ast.walk( b_ )) and any( t_ is x_ for l_ in mloops for x_ in ast.walk( l_ ))
                and any(( h_.type is None or dotted( h_.type ) in ( 'Exception', 'BaseException', 'AssertionError' )) and not any( isinstance( r_, ast.Raise ) for r_ in ast.walk( h_ )) for h_ in t_.handlers ) ]
        if trs:
            res.ok( src, a_, 'a member that fails to parse is handled inside the member loop of the closure' )
        else:
            res.bad( src, a_, 'closure: a member that fails to parse ends the closure ( the terminal assertion escapes from the member loop )',
                     'the exception is only logged by the post-processing step: the bundle is answered with status 0 and FEWER member replies than requests; the members behind the unparseable one are never executed - one failing member affects its neighbours and the framing of the reply' )
    for ap in appends:
        # on a path that by-passes the assertion ( a handler of the per-member failure ) the appended name has been RE-BOUND inside that handler:
        # what joins the list there is a fresh place-holder, not the half-parsed member
        appended = { dotted( a_ ) for c_ in ast.walk( ap.stmt ) if isinstance( c_, ast.Call ) and isinstance( c_.func, ast.Attribute ) and c_.func.attr in ( 'append', 'extend', 'insert' ) for a_ in c_.args if dotted( a_ ) }
        fresh = [ n for n in ccfg.nodes if n.kind == 'stmt' and isinstance( n.stmt, ast.Assign ) and any( dotted( t_ ) in appended for t_ in n.stmt.targets )
                  and any( isinstance( a_, ast.ExceptHandler ) for a_ in src.ancestors( n.stmt )) and is_call_to( n.stmt.value, 'dotdict', 'cpppo.dotdict' ) ]
        if anodes and ccfg.must_pass( ccfg.entry, ap, anodes + fresh, correlated=False ):
            res.ok( src, ap.stmt, 'a member is appended to the requests to execute only after its parse was asserted terminal' )
        else:
            res.bad( src, ap.stmt, 'closure: %s is reached without passing the assertion that the member parsed completely' % norm_text( ap.stmt ),
                     'a sub-request that fails to parse ( truncated Write Tag with one complete value ) is already in the list when the exception is swallowed by the post-processing step: its half-parsed content is executed - a tag is altered by something that is not a complete, well-formed request' )
    return res


# ---------------------------------------------------------------------------------------- C08: E-CONTAIN

FATAL_CALLS = ( 'sys.exit', 'os._exit', 'os.kill', 'os.abort', 'exit', 'quit', '_thread.interrupt_main', 'thread.interrupt_main', 'signal.raise_signal', 'os.killpg' )


@rule( 'E-CONTAIN', props=( 'C08', ), floor=6 )
def e_contain( ctx ):
    """a failing connection ends only itself: finally closes the socket and drops its stats entry; the runner swallows the exception; nothing reachable exits the process"""
    res = Result( 'E-CONTAIN' )
    src = ctx.src( MAIN )
    fn = src.get( 'enip_srv_tcp' )
    fins = [ t for t in ast.walk( fn ) if isinstance( t, ast.Try ) and t.finalbody ]
    outer = None
    for t in fins:
        if any( isinstance( w, ast.While ) for w in ast.walk( t )):
            outer = t
    if outer is None:
        res.bad( src, fn, 'enip_srv_tcp', 'the connection loop is not protected by a finally: socket and stats entry leak on failure' )
    else:
        CK = server_roles( fn ).get( 'connkey' )
        if CK is None:
            raise AnalysisError( 'enip_srv_tcp: `stats, connkey = stats_for( addr )` not found' )
        closes = [ s for s in outer.finalbody if pmatch( s, 'conn.close()' ) ]
        pops = [ s for s in outer.finalbody if pmatch( s, 'connections.pop( %s, None )' % CK ) or pmatch( s, 'del connections[%s]' % CK ) ]
        # ... or the entry is removed unless another connection has meanwhile replaced it: if connections.get( connkey ) is stats: pop
        ST = server_roles( fn ).get( 'stats' )
        own = [ s for s in outer.finalbody if isinstance( s, ast.If ) and not s.orelse and ST is not None and pmatch( s.test, 'connections.get( %s ) is %s' % ( CK, ST )) is not None
                and len( s.body ) == 1 and ( pmatch( s.body[0], 'connections.pop( %s, None )' % CK ) or pmatch( s.body[0], 'del connections[%s]' % CK )) ]
        pops = pops + own
        if closes:
            res.ok( src, closes[0], 'finally: conn.close() on every exit' )
        else:
            res.bad( src, outer, 'enip_srv_tcp finally', 'the socket must be closed on every exit of the connection handler' )
        if pops:
            res.ok( src, pops[0], 'finally: connections entry removed' )
        else:
            res.bad( src, outer, 'enip_srv_tcp finally', 'the connection\'s stats entry must be removed on every exit' )
        # statements of the finally before conn.close() must not be able to skip it: they are logging or wrapped in try
        if closes:
            idx = outer.finalbody.index( closes[0] )
            risky = [ s for s in outer.finalbody[:idx] if not ( isinstance( s, ast.Try ) or pmatch( s, 'connections.pop( %s, None )' % CK ) or s in own
                                                               or ( isinstance( s, ast.Expr ) and call_name( s.value ).startswith( 'log.' ))) ]
            if risky:
                res.bad( src, risky[0], risky[0], 'a statement that may raise precedes conn.close() in the finally' )
    # the per-connection exception handler re-raises into the runner, which swallows it
    nsrc = ctx.src( 'server/network.py' )
    rn = nsrc.get( 'server_runner.run' )
    tr = [ t for t in rn.body if isinstance( t, ast.Try ) ]
    good = False
    if tr:
        hs = [ h for h in tr[0].handlers if h.type is not None and dotted( h.type ) in ( 'Exception', 'BaseException' ) ]
        if hs and not any( isinstance( s, ast.Raise ) for s in ast.walk( hs[0] )):
            good = True
    if good:
        res.ok( nsrc, rn, 'server_runner.run: except Exception, logged, not re-raised' )
    else:
        res.bad( nsrc, rn, 'server_runner.run', 'the per-connection thread must catch and log every Exception of its target without re-raising' )
    # the runner classes used for connections derive from server_runner
    for cname in ( 'server_thread', ):
        cd = nsrc.get( cname )
        bases = [ dotted( b ) for b in cd.bases ]
        if bases and bases[0] == 'server_runner':
            res.ok( nsrc, cd, 'class %s( %s ): run() of server_runner wraps the target' % ( cname, ', '.join( bases )))
        else:
            res.bad( nsrc, cd, 'class %s( %s )' % ( cname, ', '.join( map( str, bases ))), 'server_runner must come first in the bases so that its run() wraps the target' )
    # daemon thread per connection
    sm = nsrc.get( 'server_main' )
    TM = Matcher()
    if TM.find( sm, '_t.daemon = True' ) is not None and TM.find( sm, '_t.start()' ) is not None and ( TM.find( sm, '_t = thread( _a )' ) is not None or True ):
        res.ok( nsrc, sm, 'one daemon thread per accepted connection' )
    else:
        res.bad( nsrc, sm, 'server_main.thread_start', 'each connection must be served by its own started thread' )
    # between accept() and the start of its service thread the listener asks the accepted socket NOTHING ( only .close() on the failure path ): a
    # peer that connects and resets at once ( SO_LINGER 0 ) makes getpeername() / getsockname() / setsockopt() ... raise ENOTCONN - in the accept
    # loop, whose `except Exception` ends the whole server.  The peer address is the one accept() returned
    accepted = { 'conn' }
    for a_ in ast.walk( sm ):
        if isinstance( a_, ast.Assign ) and isinstance( a_.targets[0], ast.Tuple ) and 'acceptable' in names_in( a_.value ) and isinstance( a_.targets[0].elts[0], ast.Name ):
            accepted.add( a_.targets[0].elts[0].id )
    for f_ in ast.walk( sm ):
        if isinstance( f_, ast.FunctionDef ) and f_ is not sm and f_.args.args:
            accepted.add( f_.args.args[0].arg )
    asks = [ c for c in ast.walk( sm ) if isinstance( c, ast.Call ) and isinstance( c.func, ast.Attribute ) and isinstance( c.func.value, ast.Name ) and c.func.value.id in accepted
             and c.func.attr not in ( 'close', ) ]
    asks += [ a_ for a_ in ast.walk( sm ) if isinstance( a_, ast.Attribute ) and isinstance( a_.value, ast.Name ) and a_.value.id in accepted and isinstance( a_.ctx, ast.Load )
              and a_.attr in ( 'type', 'family', 'proto' ) and False ]
    if asks:
        res.bad( nsrc, asks[0], 'server_main asks the accepted connection `%s` before its service thread runs' % norm_text( asks[0] ),
                 'for a connection the peer has already reset the call raises ( ENOTCONN ): the exception reaches the accept loop, which sets done - the listening socket closes, every session is shut down, main() returns: a burst of connect-and-abort peers ends the simulator for everybody' )
    else:
        res.ok( nsrc, sm, 'the listener hands the accepted connection and the address accept() returned to the service thread, asking the socket nothing' )
    # zero-count: nothing in the request-processing modules terminates the process
    scanned = 0
    hits = 0
    for rel, fns in (( 'server/enip/logix.py', None ), ( 'server/enip/ucmm.py', None ), ( 'server/enip/device.py', None ),
                     ( 'server/enip/parser.py', None ), ( 'automata.py', None ), ( 'server/enip/main.py', ( 'enip_srv', 'enip_srv_tcp', 'enip_srv_udp', 'stats_for' )),
                     ( 'server/network.py', ( 'server_runner.run', 'recv', 'recvfrom', 'readable', 'writable' ))):
        s = ctx.src( rel )
        roots = [ s.tree ] if fns is None else [ s.get( f, required=False ) for f in fns ]
        for r in roots:
            if r is None:
                continue
            for c in ast.walk( r ):
                if isinstance( c, ast.Call ):
                    scanned += 1
                    cn = call_name( c )
                    if cn in FATAL_CALLS:
                        # module-level `sys.exit( main() )` under `if __name__ == '__main__'` is not reachable from a connection
                        if s.qualname_of( c ) == '<module>':
                            continue
                        hits += 1
                        res.bad( s, c, c, 'a call that terminates the whole process is reachable from request processing' )
    res.note( 'calls scanned for process termination: %d' % scanned )
    if scanned < 2000:
        raise AnalysisError( 'E-CONTAIN: only %d calls scanned' % scanned )
    # positive fixture for the zero-count rule
    fx = ast.parse( 'def f():\n    import sys\n    sys.exit( 1 )\n' )
    if not any( isinstance( c, ast.Call ) and call_name( c ) in FATAL_CALLS for c in ast.walk( fx )):
        raise AnalysisError( 'E-CONTAIN fixture did not match' )
    if hits == 0:
        res.ok( src, fn, 'no process-terminating call in the request-processing modules (%d calls scanned)' % scanned )
    # the UDP server never ENDS a peer: it has no sessions, and its per-peer statistics entry ( keyed by address ) is the one a TCP session from
    # the same address uses - a store of the end-of-session flag there silences every later datagram of that peer ( the receive loop
    # asserts `not stats.get( 'eof' )` ) and ends a live TCP session from the same host and port number
    ud = src.get( 'enip_srv_udp' )
    # ... and one UDP thread serves EVERY peer: whatever goes wrong with one datagram - framing, processing, encoding or sending the reply -
    # is absorbed per datagram.  The calls that do that work sit in the BODY of a try whose catch-all handler does not re-raise ( the else
    # clause, the handlers and the finally of a try are not protected by it )
    work = [ c for c in ast.walk( ud ) if isinstance( c, ast.Call ) and (( call_name( c ) or '' ) in ( 'enip_process', 'parser.enip_encode' )
                                                                         or ( isinstance( c.func, ast.Attribute ) and c.func.attr in ( 'sendto', 'send' ))
                                                                         or ( isinstance( c.func, ast.Attribute ) and c.func.attr == 'run' and any( k.arg == 'source' for k in c.keywords ))) ]
    if len( work ) < 3:
        raise AnalysisError( 'enip_srv_udp: the calls that parse, process and answer a datagram not found ( %d )' % len( work ))
    def absorbed( c ):
        node = c
        for a in src.ancestors( c ):
            if isinstance( a, ast.Try ) and any( node is b for b in a.body ):
                for h in a.handlers:
                    catch_all = h.type is None or dotted( h.type ) in ( 'Exception', 'BaseException' )
                    if catch_all and not any( isinstance( r, ast.Raise ) for r in ast.walk( h )):
                        return True
            node = a
        return False
    loose = [ c for c in work if not absorbed( c ) ]
    if loose:
        res.bad( src, loose[0], 'enip_srv_udp: `%s` is outside the body of the try that absorbs a datagram\'s failure' % norm_text( loose[0] )[:90],
                 'an exception while processing or answering ONE correctly framed datagram ends the only UDP service thread: server_main tidies the dead thread away and starts no other - UDP is gone for every peer', func='enip_srv_udp' )
    else:
        res.ok( src, ud, 'enip_srv_udp: parsing, processing, encoding and sending ( %d calls ) are absorbed per datagram by a catch-all handler that does not re-raise' % len( work ))
    eofs = [ a_ for a_ in ast.walk( ud ) if isinstance( a_, ( ast.Assign, ast.AugAssign )) for t_ in ( a_.targets if isinstance( a_, ast.Assign ) else [ a_.target ] )
             if ( isinstance( t_, ast.Subscript ) and try_fold( t_.slice, default=None ) == 'eof' ) or ( isinstance( t_, ast.Attribute ) and t_.attr == 'eof' ) ]
    if eofs:
        res.bad( src, eofs[0], 'enip_srv_udp stores the end-of-session flag ( %s )' % norm_text( eofs[0] ), 'one datagram that is answered with an error status makes the server ignore every later datagram from that peer, and closes an existing TCP session from the same address: a malformed input changes how OTHER, well-formed requests are served', func='enip_srv_udp' )
    else:
        res.ok( src, ud, 'enip_srv_udp never stores the end-of-session flag of a peer' )
    # one datagram, one request: the frame machine asking for MORE input after a datagram was received means the datagram ended inside a
    # frame - that request fails ( the guard `assert not <peer>` ahead of the receive ), it is never completed from the next datagram of
    # whatever peer.  The guard is live only if <peer> is assigned from the source address of the datagram received in the same loop.
    rc = [ a_ for a_ in ast.walk( ud ) if isinstance( a_, ast.Assign ) and is_call_to( a_.value, 'network.recvfrom' ) and isinstance( a_.targets[0], ast.Tuple ) and len( a_.targets[0].elts ) == 2 ]
    if not rc:
        raise AnalysisError( 'enip_srv_udp: <msg>, <peer> = network.recvfrom( ... ) not found' )
    FRM = dotted( rc[0].targets[0].elts[1] )
    loop_ = [ l_ for l_ in src.ancestors( rc[0] ) if isinstance( l_, ast.For ) ]
    if not loop_:
        raise AnalysisError( 'enip_srv_udp: engine loop around the receive not found' )
    guards_ = [ a_ for a_ in loop_[0].body if isinstance( a_, ast.Assert ) and isinstance( a_.test, ast.UnaryOp ) and isinstance( a_.test.op, ast.Not ) and isinstance( a_.test.operand, ast.Name )
                and a_.lineno < rc[0].lineno ]
    live_ = [ g_ for g_ in guards_ if any( isinstance( s_, ast.Assign ) and any( dotted( t_ ) == g_.test.operand.id for t_ in s_.targets ) and dotted( s_.value ) == FRM and s_.lineno > rc[0].lineno for s_ in loop_[0].body ) ]
    if live_:
        res.ok( src, live_[0], 'a datagram that ends inside a frame fails its request ( the peer of the datagram just received is remembered, more input is refused )' )
    else:
        res.bad( src, guards_[0] if guards_ else rc[0], 'enip_srv_udp: nothing remembers that a datagram was already received for the request being parsed', 'a truncated datagram is completed from the NEXT datagram - of any peer: that peer\'s request is mis-framed or swallowed, and its reply carries bytes of the other peer\'s request', func='enip_srv_udp' )
    return res


@rule( 'K-LINKFMT', props=( 'C14', 'C15' ), floor=1 )
def k_linkfmt( ctx ):
    """the link of a port segment is a number OR an address string ( '10.1.2.3' ): wherever the server modules put one into a text with the
    % operator - eagerly, i.e. evaluated on every request whatever the log level - the conversion is one that takes both ( %s / %r ), never
    %d / %i / %x: those raise TypeError for an address link, inside the handler of a Forward Open / Unconnected Send whose first hop is
    an IP address - the request is answered with an error status"""
    import re as _re
    res = Result( 'K-LINKFMT' )
    n = 0
    for rel in ( 'server/enip/device.py', 'server/enip/ucmm.py', 'server/enip/logix.py', 'server/enip/parser.py' ):
        src = ctx.src( rel )
        for b in ast.walk( src.tree ):
            if not ( isinstance( b, ast.BinOp ) and isinstance( b.op, ast.Mod ) and isinstance( b.left, ast.Constant ) and isinstance( b.left.value, str )):
                continue
            args = b.right.elts if isinstance( b.right, ast.Tuple ) else [ b.right ]
            convs = [ m.group( 1 ) for m in _re.finditer( r'%[-+ #0]*\d*(?:\.\d+)?([a-zA-Z%])', b.left.value ) if m.group( 1 ) != '%' ]
            if len( convs ) != len( args ):
                continue
            for cv, a in zip( convs, args ):
                t = txt( a )
                if t.endswith( '.link' ) or t.endswith( "['link']" ) or t.endswith( '["link"]' ):
                    n += 1
                    if cv in 'sr':
                        res.ok( src, b, 'a link is put into text with %%%s' % cv )
                    else:
                        res.bad( src, b, 'a port segment link is formatted with %%%s ( %s )' % ( cv, norm_text( a )), 'the link of a port segment may be an address string: the conversion raises TypeError for it - eagerly, on every request with such a first hop: a Forward Open routed over an IP hop is refused' )
    if n == 0:
        res.ok( ctx.src( 'server/enip/device.py' ), None, 'no eager %-formatting of a port segment link in the server modules ( nothing to decide )' )
    return res


@rule( 'W-PRINT', props=( 'C05', ), floor=2 )
def w_print( ctx ):
    """main(): the --print wrapper of Attribute ( Attribute_print ) stores first and formats afterwards, so whatever it formats must be total for
    every key the handlers use - an index, a slice with bounds, and the bound-less slice `att[:] = values` of Set Attribute Single: the bounds
    shown come from key.indices( len( self )), never from arithmetic on key.start / key.stop ( None - 1 raises AFTER the store: the request is
    answered with a failure, the tag is changed )"""
    res = Result( 'W-PRINT' )
    src = ctx.src( 'server/enip/main.py' )
    cls = [ c for c in ast.walk( src.tree ) if isinstance( c, ast.ClassDef ) and any( isinstance( f, ast.FunctionDef ) and f.name == '__setitem__' for f in c.body )
            and any( isinstance( x, ast.Call ) and call_name( x ) == 'print' for x in ast.walk( c )) ]
    if not cls:
        raise AnalysisError( 'main: the printing Attribute wrapper ( a class with __setitem__ that prints ) not found' )
    for c in cls:
        for f in [ f for f in c.body if isinstance( f, ast.FunctionDef ) ]:
            params = { a.arg for a in f.args.args }
            raw = [ b for b in ast.walk( f ) if isinstance( b, ( ast.BinOp, ast.UnaryOp, ast.Compare )) and any(
                isinstance( o, ast.Attribute ) and o.attr in ( 'start', 'stop', 'step' ) and isinstance( o.value, ast.Name ) and o.value.id in params
                for o in ( [ b.left, b.right ] if isinstance( b, ast.BinOp ) else [ b.operand ] if isinstance( b, ast.UnaryOp ) else [ b.left ] + b.comparators )) ]
            if raw:
                res.bad( src, raw[0], '%s.%s computes with a raw slice bound ( %s )' % ( c.name, f.name, norm_text( raw[0] )), 'for the bound-less slice of Set Attribute Single ( att[:] = values ) the bound is None: the arithmetic raises after the values were stored - the request is answered 0x08, the tag is overwritten' )
            elif f.name in ( '__setitem__', '__getitem__' ) or any( isinstance( o, ast.Attribute ) and o.attr in ( 'start', 'stop' ) for o in ast.walk( f )):
                res.ok( src, f, '%s.%s: no arithmetic on raw slice bounds' % ( c.name, f.name ))
            # in __setitem__ nothing that may fail FOLLOWS the store: a print that raises ( stdout closed, a value the terminal's encoding cannot
            # show ) after the values were stored answers the write with a failure status although the tag has changed
            if f.name == '__setitem__':
                stores = [ k_ for k_, st_ in enumerate( f.body ) if any( isinstance( c_, ast.Call ) and isinstance( c_.func, ast.Attribute ) and c_.func.attr == '__setitem__' for c_ in ast.walk( st_ )) ]
                if not stores:
                    raise AnalysisError( '%s.__setitem__: the call of the wrapped __setitem__ not found' % c.name )
                late = [ st_ for st_ in f.body[stores[-1] + 1:] if not isinstance( st_, ast.Try ) and any( isinstance( c_, ast.Call ) and call_name( c_ ) == 'print' for c_ in ast.walk( st_ )) ]
                if late:
                    res.bad( src, late[0], '%s.__setitem__ prints after the values were stored' % c.name,
                             'a print that raises ( broken pipe, UnicodeEncodeError on an ASCII stdout ) fails the request AFTER the store: the write is answered 0xFF/0x2105, the tag holds the new values - a refused request has changed a tag' )
                else:
                    res.ok( src, f, '%s.__setitem__: what may fail ( the print ) precedes the store' % c.name )
            # what is printed is formatted for EVERY value a tag can hold - numbers, booleans, texts - and every key: the argument of each print
            # is evaluated on 5 values x 3 keys; a conversion that raises for one of them ( '%g' % 'text' ) fails the read or the write it decorates
            if f.name in ( '__setitem__', '__getitem__' ):
                got_ = [ t_.id for a_ in f.body if isinstance( a_, ast.Assign ) and any( isinstance( c_, ast.Call ) and isinstance( c_.func, ast.Attribute ) and c_.func.attr == '__getitem__' for c_ in ast.walk( a_.value ))
                         for t_ in a_.targets if isinstance( t_, ast.Name ) ]
                VALUE = ( [ a.arg for a in f.args.args ] + [ 'value' ] )[2] if f.name == '__setitem__' else ( got_ or [ 'value' ] )[0]
                KEY = f.args.args[1].arg
                for pc in [ x for x in ast.walk( f ) if isinstance( x, ast.Call ) and call_name( x ) == 'print' and x.args ]:
                    failed = None
                    for key in ( 3, slice( 1, 4 ), slice( None, None )):
                        for value in ( 'abc', [ 'ab', 'c' ], 3, [ 1.5, 2 ], True ):
                            if isinstance( key, slice ) != isinstance( value, list ):
                                continue
                            env = { 'self.name': 'T', 'len': lambda x: 8 if x == 'SELF' else len( x ), 'self': 'SELF', KEY: key, VALUE: value, 'isinstance': isinstance, 'slice': slice,
                                    KEY + '.indices': ( key.indices if isinstance( key, slice ) else None ), KEY + '.start': getattr( key, 'start', None ), KEY + '.stop': getattr( key, 'stop', None ) }
                            env.update( method_calls( c, env ))		# helpers of the wrapper class ( self.span( key ) )
                            res.cells += 1
                            try:
                                fold( pc.args[0], env )
                            except Raises as exc:
                                failed = failed or ( key, value, str( exc ))
                            except NoFold as exc:
                                raise AnalysisError( '%s.%s: the printed text is outside the modelled subset: %s' % ( c.name, f.name, exc ))
                    if failed:
                        res.bad( src, pc, '%s.%s: formatting the line for key %r, value %r raises %s' % (( c.name, f.name ) + failed ),
                                 'the wrapper prints around the real access: a conversion that is not total over the values a tag can hold makes every read ( or write ) of such a tag fail while --print is on - a tag that was written is unreadable' )
                    else:
                        res.ok( src, pc, '%s.%s: the printed line is formatted for numbers, booleans and texts, indexes and slices' % ( c.name, f.name ))
    return res


# ---------------------------------------------------------------------------------------- C15: B-ROUTE, D-REFUSE, C-MAIN

ROUTE_CFG = {		# representative values of the finite abstract domain of configured personalities
    'none':		[ None ],
    'simple':		[ False, 0, [] ],
    'configured':	[ [ { 'port': 1, 'link': 0 } ], [ { 'port': 1, 'link': 0 }, { 'port': 2, 'link': '10.0.0.1' } ] ],
}
OTHER_PATH = [ { 'port': 2, 'link': 3 } ]


def route_requests( cfg ):
    """request route paths relative to a configured value: absent, empty list, equal, different (incl. differing in length)"""
    out = [ ( 'absent', None ), ( 'empty', [] ) ]
    if isinstance( cfg, list ) and cfg:
        out.append(( 'equal', [ dict( s ) for s in cfg ] ))
        out.append(( 'longer', [ dict( s ) for s in cfg ] + [ { 'port': 9, 'link': 9 } ] ))
        out.append(( 'prefix', [ dict( s ) for s in cfg ][:-1] or OTHER_PATH ))
    out.append(( 'different', OTHER_PATH ))
    return out


def route_expected( kind, rkind ):
    if kind == 'none':
        return True
    if kind == 'simple':
        return rkind in ( 'absent', 'empty' )
    return rkind in ( 'absent', 'empty', 'equal' )


def ucmm_roles( fn ):
    """local names of UCMM.request by role: proceed = the name of the final `return`; unc = the local bound to ...unconnected_send;
    rp = the local read from <unc>.get( 'route_path.segment' ); session = the local stored into data.enip.session_handle"""
    r = {}
    rets = [ s for s in fn.body if isinstance( s, ast.Return ) and isinstance( s.value, ast.Name ) ]
    if rets:
        r['proceed'] = rets[-1].value.id
    for a in walk_no_nested( fn ):
        if isinstance( a, ast.Assign ) and isinstance( a.targets[0], ast.Name ):
            if isinstance( a.value, ast.Attribute ) and a.value.attr == 'unconnected_send' and 'unc' not in r:
                r['unc'] = a.targets[0].id
            if isinstance( a.value, ast.Call ) and isinstance( a.value.func, ast.Attribute ) and a.value.func.attr == 'get' and a.value.args \
               and try_fold( a.value.args[0] ) == 'route_path.segment':
                r['rp'] = a.targets[0].id
        if isinstance( a, ast.Assign ) and any(( dotted( t ) or '' ).endswith( 'enip.session_handle' ) for t in a.targets ) and isinstance( a.value, ast.Name ):
            r['session'] = a.value.id
    return r


@rule( 'B-ROUTE', props=( 'C15', ), floor=12 )
def b_route( ctx ):
    """the route-path acceptance expression of UCMM.request equals the specified decision table on every cell of the finite abstract domain"""
    res = Result( 'B-ROUTE' )
    src = ctx.src( UCMM )
    fn = src.get( 'UCMM.request' )
    RP = ucmm_roles( fn ).get( 'rp' )
    if RP is None:
        res.bad( src, fn, 'route_path definition', 'the tested route path must be the request\'s unconnected_send route_path.segment list (None when absent)' )
        return res
    asserts = [ a for a in ast.walk( fn ) if isinstance( a, ast.Assert ) and { RP, 'self.route_path' } <= dotted_in( a.test ) ]
    raising_ifs = [ i for i in ast.walk( fn ) if isinstance( i, ast.If ) and { RP, 'self.route_path' } <= dotted_in( i.test )
                    and any( isinstance( b, ast.Raise ) for b in i.body ) ]
    if len( asserts ) + len( raising_ifs ) != 1:
        if not asserts and not raising_ifs:
            res.bad( src, fn, 'UCMM.request', 'no acceptance test compares the request route path with the configured one: every route path is accepted' )
            return res
        raise AnalysisError( 'UCMM.request: %d acceptance tests found' % ( len( asserts ) + len( raising_ifs )))
    if asserts:
        node, test, negate = asserts[0], asserts[0].test, False
    else:
        node, test, negate = raising_ifs[0], raising_ifs[0].test, True
    # the request route path must come from the unconnected send's route_path segments
    ld = LocalDefs( fn )
    rp_defs = ld.defs.get( RP, [] )
    if any( isinstance( d, ast.Call ) and isinstance( d.func, ast.Attribute ) and d.func.attr == 'get' and d.args and try_fold( d.args[0] ) == 'route_path.segment' for d in rp_defs ):
        res.ok( src, fn, "route_path = unc_send.get( 'route_path.segment' )" )
    else:
        res.bad( src, fn, 'route_path definition', 'the tested route path must be the request\'s unconnected_send route_path.segment list (None when absent)' )
    # enclosing guards that mention only the two route-path values
    guards = []
    cur = node
    for a in src.ancestors( node ):
        if isinstance( a, ast.If ) and dotted_in( a.test ) <= { RP, 'self.route_path', 'self' } and dotted_in( a.test ) & { RP, 'self.route_path' }:
            guards.append(( a.test, cur in a.body or any( cur is x or cur in ast.walk( x ) for x in a.body )))
        cur = a
        if isinstance( a, ast.FunctionDef ):
            break
    # comparison helpers defined inside the handler ( def same_hops( ours, theirs ): ... ) are evaluated where the test calls them
    encl = [ a for a in src.ancestors( node ) if isinstance( a, ast.FunctionDef ) ]
    nested_ = [ f_ for f_ in ast.walk( encl[0] ) if isinstance( f_, ast.FunctionDef ) and f_ is not encl[0] ] if encl else []
    from .fold import helper_calls as _helpers
    helpers_ = _helpers( ast.Module( body=nested_, type_ignores=[] ), ignore_calls=( 'log', ), base_env={ 'len': len, 'all': all, 'any': any, 'isinstance': isinstance, 'dict': dict, 'list': list } )
    def accept( cfgv, reqv ):
        env = dict( helpers_ ); env.update( { RP: reqv, 'self.route_path': cfgv } )
        for gtest, in_body in guards:
            g = bool( fold( gtest, env ))
            if g != in_body:
                return True			# the test is not reached: nothing refuses the request
        v = bool( fold( test, env ))
        return ( not v ) if negate else v
    cells = 0
    for kind, cfgs in ROUTE_CFG.items():
        for cfgv in cfgs:
            for rkind, reqv in route_requests( cfgv ):
                cells += 1
                try:
                    got = accept( cfgv, reqv )
                except NoFold as exc:
                    # the request's segments handed to one of the helpers that read configuration TEXT ( they try int() on a link first ):
                    # what is compared is then no longer what the request carried
                    conv = [ c for c in ast.walk( test ) if isinstance( c, ast.Call ) and ( call_name( c ) or '' ).split( '.' )[-1] in ( 'port_link', 'parse_route_path', 'parse_connection_path' )
                             and any( isinstance( x, ast.Name ) and ( x.id == RP or any( isinstance( g_, ast.comprehension ) and RP in names_in( g_.iter ) and x.id in names_in( g_.target )
                                                                                         for p_ in ast.walk( test ) if isinstance( p_, ( ast.ListComp, ast.GeneratorExp )) for g_ in p_.generators ))
                                      for a_ in c.args for x in ast.walk( a_ )) ]
                    if conv:
                        res.bad( src, node, 'route acceptance: the request route path is passed through %s before it is compared' % call_name( conv[0] ),
                                 "the helper reads configuration text and tries int() on a link first: a request whose link is the ADDRESS '0' ( wire 11 01 30 00 ) is compared as the link NUMBER 0 and accepted by a device configured 1/0 - request paths that differ in link kind must be refused" )
                        return res
                    raise AnalysisError( 'acceptance expression uses the route paths beyond truthiness / is None / == : %s' % exc )
                want = route_expected( kind, rkind )
                fact = 'configured %s (%r) x request %s (%r): %s' % ( kind, cfgv, rkind, reqv, 'accept' if got else 'refuse' )
                if got == want:
                    res.ok( src, node, fact )
                else:
                    res.bad( src, node, 'route acceptance: ' + fact, 'the specified behaviour is to %s (none: accept all; simple: only no route path; configured: none or exactly the configured path)' % (
                        'accept' if want else 'refuse' ))
    res.cells = cells
    return res


@rule( 'D-REFUSE', props=( 'C15', ), floor=2 )
def d_refuse( ctx ):
    """a refused Unconnected Send performs no tag access: the acceptance test dominates the local dispatch, and the handler turns it into a non-zero status"""
    res = Result( 'D-REFUSE' )
    src = ctx.src( UCMM )
    fn = src.get( 'UCMM.request' )
    cfg = CFG( fn )
    roles = ucmm_roles( fn )
    UNC, RP = roles.get( 'unc' ), roles.get( 'rp' )
    disp = [ n for n in cfg.nodes if n.kind == 'stmt' and n.stmt is not None and any(
        isinstance( c, ast.Call ) and isinstance( c.func, ast.Attribute ) and c.func.attr == 'request' and c.args and dotted( c.args[0] ) == UNC
        for c in ast.walk( n.stmt )) ]
    if not disp:
        raise AnalysisError( 'UCMM.request: local dispatch CM.request( unc_send, ... ) not found' )
    acc = [ n for n in cfg.nodes if n.kind == 'stmt' and isinstance( n.stmt, ast.Assert ) and { RP, 'self.route_path' } <= dotted_in( n.stmt.test ) ]
    guard = [ n for n in cfg.nodes if n.kind == 'test' and pmatch( n.expr, 'self.route_path is not None' ) ]
    skip = [ m for g_ in guard for m, l in cfg.succ[g_] if l == 'false' ]
    for d in disp:
        if acc and cfg.must_pass( cfg.entry, d, set( acc ) | set( skip ), correlated=False ) and ( not skip or not cfg.must_pass( cfg.entry, d, set( skip ), correlated=False ) or True ):
            # and when a personality is configured the assert itself is unavoidable
            if guard:
                tsucc = [ m for g_ in guard for m, l in cfg.succ[g_] if l == 'true' ]
                pruned_ok = all( cfg.must_pass( t, d, acc, correlated=False ) for t in tsucc )
            else:
                pruned_ok = True
            if pruned_ok:
                res.ok( src, d.stmt, 'the route-path acceptance test precedes the local dispatch on every path with a configured personality' )
            else:
                res.bad( src, d.stmt, d.stmt, 'with a configured personality a path reaches the local dispatch without the route-path test' )
        else:
            res.bad( src, d.stmt, d.stmt, 'the local dispatch is reachable without passing the route-path acceptance test: a refused request still accesses tags' )
    # the request's route path reaches the acceptance test as it was parsed: before the test it is only read ( truthiness, subscripts, `in`,
    # **-unpacking into str.format ) - never handed to a function, which could canonicalise it in place ( device.port_link rewrites the dict
    # it is given: a string link '10' becomes the integer 10 and then equals a configured 2/10 )
    PURE = ( 'len', 'bool', 'str', 'repr', 'isinstance', 'list', 'tuple', 'dict', 'enumerate', 'zip', 'sorted', 'all', 'any' )
    # ( one callee is read: EPATH.produce - <EPATH class>.produce( ... ) of the parser module - is accepted while its body stores into nothing
    # reached from its parameters: no subscript / attribute store, no mutating method, parameters handed on only to the PURE builtins )
    def produce_is_pure():
        psrc = ctx.src( 'server/enip/parser.py' )
        pf = psrc.get( 'EPATH.produce' )
        tainted = { a.arg for a in pf.args.args } - { 'cls', 'self' }
        for _ in range( 4 ):
            for n_ in ast.walk( pf ):
                if isinstance( n_, ast.Assign ) and any( isinstance( x_, ast.Name ) and x_.id in tainted for x_ in ast.walk( n_.value )):
                    tainted |= { t_.id for t in n_.targets for t_ in ast.walk( t ) if isinstance( t_, ast.Name ) }
                if isinstance( n_, ast.For ) and any( isinstance( x_, ast.Name ) and x_.id in tainted for x_ in ast.walk( n_.iter )):
                    tainted |= { t_.id for t_ in ast.walk( n_.target ) if isinstance( t_, ast.Name ) }
        for n_ in ast.walk( pf ):
            if isinstance( n_, ( ast.Subscript, ast.Attribute )) and isinstance( n_.ctx, ( ast.Store, ast.Del )):
                return False
            if isinstance( n_, ast.Call ) and isinstance( n_.func, ast.Attribute ) and n_.func.attr in (
                    'update', 'pop', 'popitem', 'setdefault', 'clear', 'append', 'extend', 'insert', 'remove', 'sort', 'reverse', '__setitem__', '__delitem__' ):
                return False
            if isinstance( n_, ast.Call ) and not isinstance( n_.func, ast.Attribute ) and call_name( n_ ) not in PURE + ( 'hasattr', 'getattr', 'type', 'int' ) \
               and any( isinstance( a_, ast.Name ) and a_.id in tainted for a_ in n_.args ):
                return False
        return True
    def epath_classes():
        psrc = ctx.src( 'server/enip/parser.py' )
        out, grew = { 'EPATH' }, True
        while grew:
            grew = False
            for c_ in psrc.tree.body:
                if isinstance( c_, ast.ClassDef ) and c_.name not in out and any( dotted( b_ ) in out for b_ in c_.bases ) \
                   and not any( isinstance( m_, ast.FunctionDef ) and m_.name == 'produce' for m_ in c_.body ):
                    out.add( c_.name ); grew = True
        return out
    if RP and acc:
        handed = []
        for c_ in ast.walk( fn ):
            if not isinstance( c_, ast.Call ) or call_name( c_ ).split( '.' )[-1] in PURE or call_name( c_ ).startswith( 'log.' ):
                continue
            cn_ = call_name( c_ ).split( '.' )
            if len( cn_ ) == 3 and cn_[0] == 'parser' and cn_[2] == 'produce' and cn_[1] in epath_classes() and produce_is_pure():
                continue
            if any( isinstance( x_, ast.Name ) and x_.id == RP for a_ in list( c_.args ) + [ k_.value for k_ in c_.keywords if k_.arg is not None ] for x_ in ast.walk( a_ )):
                if getattr( c_, 'lineno', 0 ) < acc[0].stmt.lineno:
                    handed.append( c_ )
        if handed:
            res.bad( src, handed[0], 'the request route path is handed to %s( ... ) before the acceptance test' % call_name( handed[0] ),
                     'a callee may rewrite the segment it is given (port_link canonicalises in place): the acceptance test then compares a modified request, so a path that differs in link kind is accepted and the tag is accessed' )
        else:
            res.ok( src, acc[0].stmt, 'the request route path is only read before the acceptance test (never passed to a callee)' )
    # ... and ALL of it: the EPATH parser ends the segment list at a segment type it does not know ( the rest of the .size words are skipped by the
    # limit ), so the list alone is a prefix of what was sent.  A test that consults the announced size ( <request>.route_path.size ) dominates the
    # dispatch wherever a personality is configured
    if RP and acc and guard:
        def reads_size( e_ ):
            for x_ in ast.walk( e_ ):
                if isinstance( x_, ast.Constant ) and isinstance( x_.value, str ) and x_.value.endswith( 'route_path.size' ):
                    return True
                if isinstance( x_, ast.Attribute ) and dotted( x_ ) and dotted( x_ ).endswith( 'route_path.size' ):
                    return True
            return False
        sized = [ n for n in cfg.nodes if n.kind == 'stmt' and isinstance( n.stmt, ast.Assert ) and reads_size( n.stmt.test ) ] + \
                [ n for n in cfg.nodes if n.kind == 'test' and isinstance( n.stmt, ast.If ) and reads_size( n.expr ) and any( isinstance( r_, ast.Raise ) for r_ in n.stmt.body ) ]
        tsucc = [ m for g_ in guard for m, l in cfg.succ[g_] if l == 'true' ]
        if sized and all( cfg.must_pass( t, d, sized, correlated=False ) for t in tsucc for d in disp ):
            res.ok( src, sized[0].stmt, 'with a configured personality the announced size of the route path is tested against what was recognised, ahead of the dispatch' )
        else:
            res.bad( src, acc[0].stmt, 'the acceptance test judges the recognised segments only; the announced route_path.size is never consulted',
                     'a route path that holds ( or is ) a segment the EPATH parser does not decode - an electronic key, say - arrives as a shorter or empty list: a simple device then serves a routed request, and a routing device one whose path only begins like its own' )
    # ... and it is the path AS RECEIVED: the only binding of the name that reaches the acceptance test is the read from the request - a
    # re-binding ahead of the test ( canonicalised segments, the leading segment sliced off for routing ) makes the test judge another path
    if RP and acc:
        rebinds = [ n for n in cfg.nodes if n.kind == 'stmt' and isinstance( n.stmt, ( ast.Assign, ast.AugAssign )) and any(
            isinstance( t_, ast.Name ) and t_.id == RP and isinstance( t_.ctx, ast.Store ) for tg_ in ( n.stmt.targets if isinstance( n.stmt, ast.Assign ) else [ n.stmt.target ] ) for t_ in ast.walk( tg_ )) ]
        reads = [ n for n in rebinds if isinstance( n.stmt, ast.Assign ) and isinstance( n.stmt.value, ast.Call ) and isinstance( n.stmt.value.func, ast.Attribute ) and n.stmt.value.func.attr == 'get'
                  and n.stmt.value.args and try_fold( n.stmt.value.args[0] ) == 'route_path.segment' ]
        other = [ n for n in rebinds if n not in reads and any( a_ in cfg.reachable( n ) for a_ in acc ) ]
        if other:
            res.bad( src, other[0].stmt, 'the request route path is re-bound ( %s ) ahead of the acceptance test' % norm_text( other[0].stmt )[:90],
                     'the test no longer compares the route path that was received: with the leading segment sliced off an unroutable 7/7 becomes the empty path and is accepted as "no route path"; with canonicalised segments a path differing in link kind equals the configured one - the refused request runs locally and writes tags' )
        elif reads:
            res.ok( src, reads[0].stmt, 'the only binding of the request route path that reaches the acceptance test is the read from the request' )
        else:
            raise AnalysisError( 'UCMM.request: the read of the request route path ( .get( \'route_path.segment\' )) not found' )
    # refusal -> status: covered by the outer try/except of UCMM.request (S-STATUS); the assert is inside it
    outer = [ t for t in fn.body if isinstance( t, ast.Try ) ]
    if outer and acc and any( acc[0].stmt in ast.walk( b ) for b in outer[0].body ):
        res.ok( src, acc[0].stmt, 'the acceptance test is inside the try whose handler stores a non-zero enip.status' )
    else:
        res.bad( src, fn, 'acceptance test placement', 'a refusal must be converted into an error status by the request handler' )
    return res


@rule( 'K-ROUTEKEY', props=( 'C15', ), floor=2 )
def k_routekey( ctx ):
    """the routing table of a gateway UCMM is WRITTEN with the key function it is READ with: UCMM.__init__ stores every route under
    "<fmt>".format( **device.port_link( <configured text> )) and UCMM.request looks the leading request segment up with the same format string
    applied to the parsed segment ( whose link device.port_link would produce: canonical IPv6 text, int for a number ).  A table keyed by
    the configured spelling never matches a route spelled non-canonically ( '3/0::1' ): the request is not forwarded but judged locally."""
    res = Result( 'K-ROUTEKEY' )
    src = ctx.src( UCMM )
    ini = src.get( 'UCMM.__init__' ); req = src.get( 'UCMM.request' )
    def fmt_calls( fn ):
        return [ c for c in ast.walk( fn ) if isinstance( c, ast.Call ) and isinstance( c.func, ast.Attribute ) and c.func.attr == 'format'
                 and isinstance( c.func.value, ast.Constant ) and isinstance( c.func.value.value, str ) and any( k.arg is None for k in c.keywords ) ]
    # reader: the key looked up in self.route
    gets = [ c for c in ast.walk( req ) if isinstance( c, ast.Call ) and isinstance( c.func, ast.Attribute ) and c.func.attr == 'get' and dotted( c.func.value ) == 'self.route' and c.args ]
    ld = LocalDefs( req )
    for inner in [ f_ for f_ in ast.walk( req ) if isinstance( f_, ast.FunctionDef ) and f_ is not req ]:
        for k_, v_ in LocalDefs( inner ).defs.items():
            ld.defs.setdefault( k_, [] ).extend( v_ )
    rfmts = set()
    for g in gets:
        a0 = g.args[0]
        for d in ( [ a0 ] if not isinstance( a0, ast.Name ) else ld.defs.get( a0.id, [] )):
            for c in fmt_calls( d ) if not ( isinstance( d, ast.Call ) and d in fmt_calls( d )) else [ d ]:
                rfmts.add( c.func.value.value )
    if not gets or not rfmts:
        raise AnalysisError( 'UCMM.request: the lookup self.route.get( "<fmt>".format( **<segment> )) not found' )
    # writer: keys stored into self.route in __init__
    wkeys = []
    for a in ast.walk( ini ):
        if isinstance( a, ast.Assign ) and any( dotted( t ) == 'self.route' for t in a.targets ) and isinstance( a.value, ast.DictComp ):
            wkeys.append(( a, a.value.key ))
        if isinstance( a, ast.Assign ):
            for t in a.targets:
                if isinstance( t, ast.Subscript ) and dotted( t.value ) == 'self.route':
                    wkeys.append(( a, t.slice ))
    if not wkeys:
        raise AnalysisError( 'UCMM.__init__: no store into self.route found' )
    for a, key in wkeys:
        fc = [ c for c in fmt_calls( key ) ] if not isinstance( key, ast.Name ) else []
        ok = bool( fc ) and fc[0] is key and fc[0].func.value.value in rfmts and any( k.arg is None and is_call_to( k.value, 'device.port_link', 'port_link' ) for k in fc[0].keywords )
        if ok:
            res.ok( src, a, 'routes are stored under %r.format( **device.port_link( ... )): the key function of the lookup' % fc[0].func.value.value )
        else:
            res.bad( src, a, 'UCMM.__init__ stores a route under %s, the lookup uses %s.format( **<parsed segment> )' % ( norm_text( key )[:60], sorted( rfmts )),
                     "a route whose configured text is not the canonical spelling ( '3/0::1', '2/2001:DB8::5' ) is never found: the request is judged by the local route-path filter ( refused ) instead of being forwarded" )
    res.ok( src, gets[0], 'the leading request segment is looked up with %s.format( **segment )' % sorted( rfmts ))
    # ---- a range key "1/1-15" stands for every link from its first to its LAST, inclusive: port_link_expand iterates range( lo, hi + 1 ).
    # Exclusive, the last link of every range gets no route: a request for it is judged locally ( refused, or served from the gateway's own
    # tags - the wrong device )
    pe = src.get( 'port_link_expand' )
    rng = [ f for f in ast.walk( pe ) if isinstance( f, ast.For ) and is_call_to( f.iter, 'range' ) and len( f.iter.args ) == 2 ]
    if not rng:
        raise AnalysisError( 'port_link_expand: the loop over range( lo, hi + 1 ) not found' )
    bounds = [ a for a in ast.walk( pe ) if isinstance( a, ast.Assign ) and isinstance( a.targets[0], ast.Tuple ) and len( a.targets[0].elts ) == 2 and 'split' in txt( a.value ) and "'-'" in txt( a.value ) ]
    LO, HI = ( dotted( e ) for e in bounds[0].targets[0].elts ) if bounds else ( None, None )
    a0, a1 = rng[0].iter.args
    if LO and dotted( a0 ) == LO and ( pmatch( a1, '%s + 1' % HI ) is not None or pmatch( a1, '1 + %s' % HI ) is not None ):
        res.ok( src, rng[0], 'a range key "p/lo-hi" is expanded to every link lo .. hi, inclusive' )
    else:
        res.bad( src, rng[0], 'port_link_expand iterates %s' % norm_text( rng[0].iter ), 'the last link of a range key ( "1/1-15": link 15 ) gets no route entry: a request addressed to it is not forwarded but judged - refused, or served - locally' )

    return res


@rule( 'C-MAIN', props=( 'C15', ), floor=2 )
def c_main( ctx ):
    """main(): --simple => UCMM.route_path False; --route-path X => parse_route_path( X ); default => no UCMM subclass (route_path None)"""
    res = Result( 'C-MAIN' )
    # the configured personality reaches the object that filters: logix.process creates the device through setup( **kwds ) - with the keywords
    # that carry the UCMM class - BEFORE anything that can fail.  ( The UCMM is a process-wide singleton made by the first setup() call; the
    # connection handler calls process again WITHOUT keywords after a failure: if a first frame with an unparsable payload fails ahead of
    # setup( **kwds ), that keyword-less call creates a plain accept-anything UCMM and the personality is lost for the life of the process. )
    lsrc = ctx.src( LOGIX )
    pf = lsrc.get( 'process' )
    body = [ b for b in pf.body if not ( isinstance( b, ast.Expr ) and isinstance( b.value, ast.Constant )) ]
    first = body[0] if body else None
    def is_setup_kw( c ):
        return is_call_to( c, 'setup' ) and any( k.arg is None and dotted( k.value ) == ( pf.args.kwarg.arg if pf.args.kwarg else None ) for k in c.keywords )
    if first is not None and isinstance( first, ast.Assign ) and is_setup_kw( first.value ):
        res.ok( lsrc, first, 'process: the device is set up with the configuration keywords before anything that can fail' )
    else:
        res.bad( lsrc, first if first is not None else pf, 'process does not begin with setup( **kwds )', 'a failure ahead of it ( a first frame whose payload cannot be parsed ) lets the keyword-less termination call create the singleton UCMM: a plain accept-anything one - the configured route path / simple personality is lost for the life of the process', func='process' )
    src = ctx.src( MAIN )
    fn = src.get( 'main' )
    ifs = [ i for i in ast.walk( fn ) if isinstance( i, ast.If ) and ( pmatch( i.test, 'args.route_path is not None or args.simple' )
                                                                        or pmatch( i.test, 'args.simple or args.route_path is not None' )) ]
    if not ifs:
        res.bad( src, fn, 'main', '--route-path / --simple are not turned into a UCMM personality' )
        return res
    cds = [ c for c in ifs[0].body if isinstance( c, ast.ClassDef ) ]
    ok = False
    for c in cds:
        for s in c.body:
            if isinstance( s, ast.Assign ) and dotted( s.targets[0] ) == 'route_path':
                if pmatch( s.value, 'device.parse_route_path( args.route_path ) if args.route_path else False' ):
                    ok = True
                    res.ok( src, s, 'personality: parse_route_path( --route-path ) if given, else False (simple device)' )
                else:
                    res.bad( src, s, s, '--simple must yield route_path False and --route-path X must yield parse_route_path( X )' )
    if not cds:
        res.bad( src, ifs[0], 'main', 'no UCMM subclass carries the configured route path' )
    if pfind( ifs[0], 'UCMM_class = UCMM' ) and pfind( fn, "options.setdefault( 'UCMM_class', UCMM_class )" ):
        res.ok( src, ifs[0], 'the personality class is passed on as UCMM_class' )
    else:
        res.bad( src, ifs[0], 'UCMM_class', 'the configured personality must be handed to the simulator as UCMM_class' )
    usrc = ctx.src( UCMM )
    dflt = usrc.class_assign( 'UCMM', 'route_path' )
    if isinstance( dflt.value, ast.Constant ) and dflt.value.value is None:
        res.ok( usrc, dflt, 'UCMM.route_path defaults to None (accept any route path)' )
    else:
        res.bad( usrc, dflt, dflt, 'without configuration every route path must be accepted (route_path = None)' )
    ini = usrc.get( 'UCMM.__init__' )
    cfgif = [ i for i in ast.walk( ini ) if isinstance( i, ast.If ) and pmatch( i.test, 'self.route_path is None' ) ]
    def from_config( i ):
        # a store to self.route_path inside the guard whose value parses what the "Route Path" option of the configuration holds
        for st in ast.walk( i ):
            if isinstance( st, ast.Assign ) and any( dotted( t ) == 'self.route_path' for t in st.targets ):
                for c in ast.walk( st.value ):
                    if isinstance( c, ast.Call ) and ( call_name( c ) or '' ).split( '.' )[-1] == 'parse_route_path':
                        if any( isinstance( c2, ast.Call ) and ( call_name( c2 ) or '' ).split( '.' )[-1].startswith( 'config' ) and c2.args
                                and try_fold( c2.args[0] ) == 'Route Path' for a in c.args for c2 in ast.walk( a )):
                            return True
        return False
    cfgif = [ i for i in cfgif if from_config( i ) ]
    if cfgif:
        res.ok( usrc, cfgif[0], 'a configured [UCMM] Route Path only applies when none was given at run time' )
    else:
        res.bad( usrc, ini, 'UCMM.__init__', 'the config-file route path must only fill in a missing run-time route path' )
    return res


# ---------------------------------------------------------------------------------------- C14: K-FORWARDS

@rule( 'K-FORWARDS', props=( 'C14', ), floor=3 )
def k_forwards( ctx ):
    """the key stored by forward_open into `forwards`, the key UCMM.request builds for connected data and the prefix forward_close compares are the same (host, port, O->T connection id)"""
    res = Result( 'K-FORWARDS' )
    dsrc = ctx.src( DEVICE ); usrc = ctx.src( UCMM )
    fo = dsrc.get( 'Connection_Manager.forward_open' )
    stores = [ s for s in ast.walk( fo ) if isinstance( s, ast.Assign ) and isinstance( s.targets[0], ast.Subscript ) and txt( s.targets[0].value ) == 'self.forwards' ]
    if not stores:
        res.bad( dsrc, fo, 'forward_open', 'an accepted Forward Open is never recorded in self.forwards' )
        return res
    # the Target PICKS the connection ID of a point-to-point O->T connection ( and of a multicast T->O one ): by value, what is stored does not
    # depend on the ID the originator proposed - `forwards` is keyed by it, and originators ( pylogix ) propose the same constant every time
    picks = [ a for a in ast.walk( fo ) if isinstance( a, ast.Assign ) and any( isinstance( t, ast.Attribute ) and t.attr == 'connection_ID' for t in a.targets )
              and any( is_call_to( c, 'random.randint', 'randint', 'random.randrange', 'random.getrandbits' ) for c in ast.walk( a.value )) ]
    if not picks:
        res.bad( dsrc, fo, 'forward_open picks no connection ID', 'the target of a point-to-point connection assigns its connection ID' )
    for a in picks:
        tgt = dotted( a.targets[0] )
        vals = [ try_fold( a.value, { tgt: proposed, 'random.randint': lambda *x: 'PICKED', 'randint': lambda *x: 'PICKED', 'random.randrange': lambda *x: 'PICKED', 'random.getrandbits': lambda *x: 'PICKED' }, default='?' )
                 for proposed in ( 0, 0x20000002, None ) ]
        if vals == [ 'PICKED' ] * 3:
            res.ok( dsrc, a, '%s is picked by the target whatever the originator proposed' % tgt )
        else:
            res.bad( dsrc, a, '%s = %s keeps the ID the originator proposed ( %r for proposals 0, 0x20000002, None )' % ( tgt, norm_text( a.value ), vals ),
                     'two Forward Opens on one session that propose the same non-zero ID ( pylogix always proposes 0x20000002 ) collide in `forwards`: the second is refused 0x08 as "an incompatible Forward Open", or the two connections silently share one ID' )
    ld = LocalDefs( fo )
    key = stores[0].targets[0].slice
    kdefs = [ key ] if isinstance( key, ast.Tuple ) else ld.defs.get( dotted( key ), [] )
    shape = None
    for k in kdefs:
        if isinstance( k, ast.Tuple ) and len( k.elts ) == 3:
            shape = [ txt( e ) for e in k.elts ]
    want_id = 'O_T.connection_ID'
    if shape and shape[0] == 'addr[0]' and shape[1] == 'addr[1]' and shape[2].endswith( want_id ):
        res.ok( dsrc, stores[0], 'forward_open key = ( addr[0], addr[1], %s )' % shape[2] )
    else:
        res.bad( dsrc, stores[0], 'forwards key %s' % shape, 'connections must be recorded under ( peer host, peer port, O->T connection id )' )
    # the id in the key is the one the reply carries: for a point-to-point O->T connection the TARGET picks the id and writes it back with
    # fo.O_T = O_T.decoding - the key must be built after that store (else it holds the originator's proposal and no connected request
    # ever finds its Forward Open)
    fcfg = CFG( fo, may_raise=lambda n_: False )
    wb = [ nd for nd in fcfg.nodes if nd.kind == 'stmt' and pmatch( nd.stmt, '_fo.O_T = _c.decoding' ) is not None ]
    kd = [ nd for nd in fcfg.nodes if nd.kind == 'stmt' and isinstance( nd.stmt, ast.Assign ) and ( nd.stmt is stores[0] and isinstance( key, ast.Tuple )
                                                                                                      or dotted( nd.stmt.targets[0] ) == dotted( key )) ]
    if wb and kd:
        dom = fcfg.dominators()
        if all( fcfg.dominates( wb[0], k_, dom ) for k_ in kd ):
            res.ok( dsrc, kd[0].stmt, 'the key is built after the target-chosen O->T connection id was written back ( fo.O_T = O_T.decoding )' )
        else:
            res.bad( dsrc, kd[0].stmt, 'forwards key built before `fo.O_T = O_T.decoding`', 'the key then carries the originator\'s proposed O->T id instead of the id chosen by the target and returned in the reply: connected requests (which carry the returned id) miss the table and are routed by their own path' )
    elif not wb:
        raise AnalysisError( 'forward_open: write-back of the O->T parameters ( fo.O_T = O_T.decoding ) not found' )
    # UCMM.request connected branch
    ur = usrc.get( 'UCMM.request' )
    calls = [ c for c in ast.walk( ur ) if isinstance( c, ast.Call ) and isinstance( c.func, ast.Attribute ) and c.func.attr == 'request'
              and any( k.arg == 'addr' and isinstance( k.value, ast.Tuple ) for k in c.keywords ) ]
    if not calls:
        res.bad( usrc, ur, 'UCMM.request connected branch', 'connected data is not dispatched with a 3-element connection address' )
    for c in calls:
        tup = [ k.value for k in c.keywords if k.arg == 'addr' ][0]
        els = [ txt( e ) for e in tup.elts ]
        uld = LocalDefs( ur )
        third = els[2] if len( els ) == 3 else None
        src3 = [ txt( d ) for d in uld.defs.get( third, [] ) ] if third else []
        if len( els ) == 3 and els[0] == 'addr[0]' and els[1] == 'addr[1]' and any( d.endswith( 'item[0].connection_ID.connection' ) for d in src3 ):
            res.ok( usrc, c, 'connected request addr = ( addr[0], addr[1], CPF item[0].connection_ID.connection )' )
        else:
            res.bad( usrc, c, tup, 'the lookup key of connected data must be ( peer host, peer port, connection id of the CPF address item )' )
    # Connection_Manager.request looks the same key up
    rq = dsrc.get( 'Connection_Manager.request' )
    if [ i for i in ast.walk( rq ) if isinstance( i, ast.If ) and pmatch( i.test, 'addr in self.forwards' ) ] and pfind( rq, 'self.forwards[addr]' ):
        res.ok( dsrc, rq, 'Connection_Manager.request looks the 3-element addr up in self.forwards' )
    else:
        res.bad( dsrc, rq, 'Connection_Manager.request', 'connected requests must be resolved through self.forwards[addr]' )
    # forward_close compares the ( host, port ) prefix / the connection triple
    fc = dsrc.get( 'Connection_Manager.forward_close' )
    if pfind( fc, 'self.forwards' ) and ( pfind( fc, '( addr[0], addr[1] ) != _k[:2]' ) or pfind( fc, '( addr[0], addr[1] ) == _k[:2]' )
                                          or pfind( fc, 'addr[:2] != _k[:2]' ) or pfind( fc, 'addr[:2] == _k[:2]' )):
        res.ok( dsrc, fc, 'forward_close matches forwards entries by the peer ( host, port ) prefix' )
    else:
        res.bad( dsrc, fc, 'forward_close', 'closing must find the connection by the same peer address prefix it was stored under' )
    return res


# ---------------------------------------------------------------------------------------- C03: T-ATTRKEYS

NUMERIC_KEYS = ( 'misc.natural', 'natural', 'int', 'cpppo.misc.natural' )


@rule( 'T-ATTRKEYS', props=( 'C03', ), floor=2 )
def t_attrkeys( ctx ):
    """attribute ids are numeric strings: every ordering over an `.attribute` mapping uses a numeric key, and a new tag gets the id max+1 stored as str( id )"""
    res = Result( 'T-ATTRKEYS' )
    n = 0
    for rel in ( LOGIX, DEVICE, MAIN, UCMM ):
        src = ctx.src( rel )
        for c in ast.walk( src.tree ):
            if not isinstance( c, ast.Call ):
                continue
            cn = call_name( c )
            if cn in ( 'max', 'min', 'sorted' ) and c.args:
                a = c.args[0]
                base = a.func.value if isinstance( a, ast.Call ) and isinstance( a.func, ast.Attribute ) and a.func.attr in ( 'keys', ) else a
                if isinstance( base, ast.Attribute ) and base.attr == 'attribute':
                    n += 1
                    key = [ k.value for k in c.keywords if k.arg == 'key' ]
                    if key and ( dotted( key[0] ) in NUMERIC_KEYS ):
                        res.ok( src, c, '%s( %s, key=%s ): numeric order of attribute ids' % ( cn, txt( a ), dotted( key[0] )))
                    else:
                        res.bad( src, c, c, 'attribute ids are stored as strings: ordering them without a numeric key puts \'9\' after \'10\', so the 11th auto-allocated tag re-uses an id and aliases another tag\'s storage' )
                elif isinstance( base, ( ast.GeneratorExp, ast.ListComp )) and any( isinstance( g_.iter, ast.Attribute ) and g_.iter.attr == 'attribute' for g_ in base.generators ):
                    n += 1
                    if is_call_to( base.elt, 'int' ):
                        res.ok( src, c, '%s over int( id ) of attribute ids' % cn )
                    else:
                        res.bad( src, c, c, 'attribute ids must be compared numerically' )
    src = ctx.src( LOGIX )
    st = src.get( 'setup_tag' )
    AM = Matcher()
    store = AM.find( st, '_inst.attribute[str( _att )]' )
    ATT = AM.name( '_att' )
    inc = [ s for s in ast.walk( st ) if isinstance( s, ast.AugAssign ) and dotted( s.target ) == ATT and isinstance( s.op, ast.Add ) and try_fold( s.value ) == 1 ]
    # ... and the id before the increment is the largest existing one of the same instance
    big = [ s for s in ast.walk( st ) if isinstance( s, ast.Assign ) and dotted( s.targets[0] ) == ATT and store is not None
            and any( isinstance( x, ast.Attribute ) and x.attr == 'attribute' and dotted( x.value ) == AM.name( '_inst' ) for x in ast.walk( s.value )) ]
    # the value before the increment is the LARGEST existing id: derived through max / sorted( ... )[-1] over the instance's ids
    largest = [ s_ for s_ in big if any( call_name( c_ ) in ( 'max', 'sorted' ) for c_ in ast.walk( s_.value ) if isinstance( c_, ast.Call )) ]
    if store is None:
        raise AnalysisError( 'T-ATTRKEYS: setup_tag: the store <instance>.attribute[str( <id> )] not found' )
    if inc and largest:
        res.ok( src, inc[0], 'new tag: att = largest id + 1, stored at instance.attribute[str( att )]' )
        n += 1
    else:
        res.bad( src, big[0] if big else st, 'setup_tag allocates the id of a new tag as %s' % ( norm_text( big[0] ) if big else '(not derived from the existing ids)' ),
                 'a new tag must get the next FREE attribute id - the largest existing id + 1; a count ( len ) or any other function of the table re-uses an id as soon as the ids are not contiguous ( a tag bound to an explicit @class/instance/attribute leaves a gap ), and two tag names then share one array' )
        n += 1
    if n < 2 and not res.findings:
        raise AnalysisError( 'T-ATTRKEYS: attribute id ordering sites not found' )
    return res


# ---------------------------------------------------------------------------------------- C03: T-RETAG

@rule( 'T-RETAG', props=( 'C03', ), floor=2 )
def t_retag( ctx ):
    """setup_tag: every store into an instance's attribute table stores the CONFIGURED Attribute ( val.attribute / val['attribute'] ), and a store
    guarded by `<configured> is not <existing>` never stores <existing> back - that is a no-op which leaves the tag bound to the Attribute of an
    earlier configuration (other type, other length)"""
    res = Result( 'T-RETAG' )
    src = ctx.src( LOGIX )
    st = src.get( 'setup_tag' )
    VAL = st.args.args[1].arg
    def configured( e ):
        return e is not None and ( pmatch( e, "%s.attribute" % VAL ) is not None or pmatch( e, "%s['attribute']" % VAL ) is not None )
    stores = []
    for a in ast.walk( st ):
        if isinstance( a, ast.Assign ):
            for t in a.targets:
                if isinstance( t, ast.Subscript ) and isinstance( t.value, ast.Attribute ) and t.value.attr == 'attribute':
                    stores.append(( a, t ))
    if len( stores ) < 2:
        raise AnalysisError( 'setup_tag: the stores into <instance>.attribute[ ... ] (creation and replacement) not found (%d)' % len( stores ))
    for a, t in stores:
        guards = [ g for g in src.ancestors( a ) if isinstance( g, ast.If ) ]
        differs = [ g for g in guards if isinstance( g.test, ast.Compare ) and len( g.test.ops ) == 1 and isinstance( g.test.ops[0], ast.IsNot )
                    and ( configured( g.test.left ) or configured( g.test.comparators[0] )) ]
        if configured( a.value ):
            res.ok( src, a, 'setup_tag: %s = the configured Attribute' % norm_text( t ))
        elif differs:
            other = differs[0].test.comparators[0] if configured( differs[0].test.left ) else differs[0].test.left
            res.bad( src, a, 'setup_tag: under `%s` the table entry is assigned %s' % ( norm_text( differs[0].test ), norm_text( a.value )),
                     'the existing Attribute is stored back over itself%s: configuring an existing tag name again with another type or length ( A INT[5], then A DINT[50] ) reports "Replaced" but keeps serving the old array' % (
                         '' if dotted( a.value ) == dotted( other ) else ' (or something other than the configured one)' ))
        else:
            res.bad( src, a, 'setup_tag: %s = %s' % ( norm_text( t ), norm_text( a.value )), 'the attribute table must receive the configured Attribute' )
    return res


# ---------------------------------------------------------------------------------------- C03: T-TAGLOOP

@rule( 'T-TAGLOOP', props=( 'C03', 'C09' ), floor=2 )
def t_tagloop( ctx ):
    """main(): the configuration loop that turns each `name[@address]=TYPE[size]` argument into a tag entry builds the entry only from values
    computed for THAT argument: no local that is assigned inside the loop is read on a path of the iteration that has not assigned it (a
    `path` / `attribute` surviving from the previous argument binds a plain tag to the previous tag's address - two names, one array)"""
    res = Result( 'T-TAGLOOP' )
    from .cfg import carried_reads
    src = ctx.src( MAIN )
    fn = src.get( 'main' )
    loops = [ l for l in walk_no_nested( fn ) if isinstance( l, ast.For ) and any( pmatch( c, 'dict.__setitem__( _tags, _name, _entry )' ) is not None for c in ast.walk( l ))
              and not any( isinstance( x, ast.For ) and x is not l and any( pmatch( c, 'dict.__setitem__( _tags, _name, _entry )' ) is not None for c in ast.walk( x )) for x in ast.walk( l )) ]
    if len( loops ) != 1:
        raise AnalysisError( 'main: the per-tag configuration loop ( ... dict.__setitem__( tags, name, entry )) not found (%d)' % len( loops ))
    loop = loops[0]
    cfg = CFG( fn )
    bad = carried_reads( cfg, src, loop )
    seen = set()
    for v, n in bad:
        if v in seen:
            continue
        seen.add( v )
        res.bad( src, n.stmt, 'main: %r is read ( %s ) on a path of the per-tag iteration that has not assigned it' % ( v, norm_text( n.own())[:70] ),
                 'the tag is configured with a value left over from the PREVIOUS tag argument: a plain tag that follows an addressed one inherits its @class/instance/attribute and aliases (or replaces) its array', func='main' )
    if not bad:
        res.ok( src, loop, 'main: every local assigned in the per-tag loop is assigned before it is read in each iteration (%d statements)' % sum( 1 for _ in ast.walk( loop ) if isinstance( _, ast.stmt )))
    # two tag names bound to one @class/instance/attribute ( possibly naming different elements of it ) share ONE Attribute object: the search
    # for an already configured tag at the same address compares the RESOLVED ( class, instance, attribute ) of both paths - compared by
    # spelling, `Line@0x401/1/1` and `Line_Speed@0x401/1/1[3]` get two Attribute objects for one address, which logix.setup() then installs
    # alternately on every request ( a concurrent session's write into the one about to be replaced is lost )
    searches = [ f_ for f_ in ast.walk( loop ) if isinstance( f_, ast.For ) and f_ is not loop and any( isinstance( c_, ast.Call ) and any( dotted( a_ ) == 'tags' or ( isinstance( a_, ast.Name ) and a_.id == 'tags' ) for a_ in c_.args ) for c_ in ast.walk( f_.iter )) ]
    ids = [ [ e_.id for e_ in a_.targets[0].elts ] for a_ in ast.walk( loop ) if isinstance( a_, ast.Assign ) and isinstance( a_.targets[0], ast.Tuple ) and is_call_to( a_.value, 'device.resolve' )
            and all( isinstance( e_, ast.Name ) for e_ in a_.targets[0].elts ) ]
    if not searches or not ids:
        raise AnalysisError( 'main: the search for an already configured tag at the same address ( for ... in dict.items( tags )) not found' )
    for f_ in searches:
        tests = [ i_.test for i_ in ast.walk( f_ ) if isinstance( i_, ast.If ) and any( isinstance( b_, ast.Assign ) for b_ in i_.body ) ]
        good = [ t_ for t_ in tests if isinstance( t_, ast.Compare ) and len( t_.ops ) == 1 and isinstance( t_.ops[0], ast.Eq )
                 and any( is_call_to( x_, 'device.resolve' ) for x_ in ( t_.left, t_.comparators[0] ))
                 and any( isinstance( x_, ast.Tuple ) and [ dotted( e_ ) for e_ in x_.elts ] in ids for x_ in ( t_.left, t_.comparators[0] )) ]
        if good:
            res.ok( src, f_, 'main: an existing tag at the same address is found by comparing the resolved ( class, instance, attribute ) of both paths' )
        else:
            res.bad( src, f_, 'main: the search for a tag already configured at this address compares %s' % ( '; '.join( norm_text( t_ )[:60] for t_ in tests ) or 'nothing' ),
                     'tags that name the same attribute with a different spelling of the path ( another element ) get separate Attribute objects for one address: the two are installed alternately by logix.setup() on every request, and a write that lands in the one being replaced is lost' )
    return res


# ---------------------------------------------------------------------------------------- C05: D-OWNPATH

@rule( 'D-OWNPATH', props=( 'C05', 'C03', 'C07' ), floor=2 )
def d_ownpath( ctx ):
    """a request handler serves and stores ITS OWN attributes only for a request whose path names it: in Object.request and Logix.request every
    access to the object's attribute table / the looked-up Attribute is dominated - when the request carries a path - by the assertion that
    the path's class and instance are the handler's own ( resolve( data.path ) == ( self.class_id, self.instance_id )).  A path naming an
    object that does not exist finds no route ( lookup gives None: "not for another object" ) and reaches the handler that holds the
    bundle - without the assertion an attribute service @0x77/1/1 reads, and WRITES, the Message Router's own attribute 1: another tag."""
    res = Result( 'D-OWNPATH' )
    for rel, qn in (( DEVICE, 'Object.request' ), ( LOGIX, 'Logix.request' )):
        src = ctx.src( rel )
        fn = src.get( qn )
        DATA = fn.args.args[1].arg
        cfg = CFG( fn )
        own = [ n for n in cfg.nodes if n.kind == 'stmt' and isinstance( n.stmt, ast.Assert ) and { 'self.class_id', 'self.instance_id' } <= dotted_in( n.stmt.test )
                and all( isinstance( c_, ast.Compare ) and isinstance( c_.ops[0], ast.Eq ) for c_ in ast.walk( n.stmt.test ) if isinstance( c_, ast.Compare )) ]
        # the compared ids come from the resolution of the request path
        ld = LocalDefs( fn )
        def from_path( a ):
            ids = [ x.id for x in ast.walk( a.stmt.test ) if isinstance( x, ast.Name ) and x.id != 'self' ]
            return ids and all( any( is_call_to( d, 'resolve' ) and d.args and dotted( d.args[0] ) == DATA + '.path' for d in ld.defs.get( i, [] )) for i in ids )
        own = [ a for a in own if from_path( a ) ]
        nopath = [ m for n in cfg.nodes if n.kind == 'test' and pmatch( n.expr, "'path' in %s" % DATA ) is not None for m, l in cfg.succ[n] if l == 'false' ]
        # accesses: self.attribute[ ... ] subscripts, and uses of a local bound from lookup( ... ) ( the Attribute of the request )
        att_locals = { t.id for a_ in walk_no_nested( fn ) if isinstance( a_, ast.Assign ) and is_call_to( a_.value, 'lookup' ) for t in a_.targets if isinstance( t, ast.Name ) }
        acc = []
        for n in cfg.nodes:
            o = n.own()
            if o is None or n in own:
                continue
            if any( isinstance( x, ast.Subscript ) and dotted( x.value ) == 'self.attribute' for x in ast.walk( o )) \
               or any( isinstance( x, ast.Subscript ) and isinstance( x.value, ast.Name ) and x.value.id in att_locals for x in ast.walk( o )):
                acc.append( n )
        if not acc:
            raise AnalysisError( '%s: no access to the attribute table / the request\'s Attribute found' % qn )
        if not own:
            res.bad( src, fn, '%s never asserts that the request path names this object ( class_id / instance_id of resolve( %s.path ))' % ( qn, DATA ),
                     'a request for an object that does not exist is served from - and stored into - this object\'s attribute of the same number: Set Attribute Single @0x77/1/1 inside a Multiple Service Packet overwrites the tag held by the Message Router\'s attribute 1' )
            continue
        bad = [ n for n in acc if not cfg.must_pass( cfg.entry, n, set( own ) | set( nopath ), correlated=False ) ]
        if bad:
            res.bad( src, bad[0].stmt, '%s: %s is reachable without the own-path assertion' % ( qn, norm_text( bad[0].own())[:70] ),
                     'an attribute of THIS object is read or written for a request whose path names another ( possibly non-existent ) object', func=qn )
        else:
            res.ok( src, own[0].stmt, '%s: all %d accesses to its attributes are dominated by the assertion that the request path names this object' % ( qn, len( acc )))
    # ---- Get / Set Attribute Single: the attribute number is what the WHOLE path resolves to ( resolve( data.path, attribute=True )): a tag is
    # addressed by name as well as by class / instance / attribute ( C03 ); taken from the literal key of the last segment, a symbolic path -
    # which resolves to the very same attribute - is refused
    src = ctx.src( DEVICE )
    fn = src.get( 'Object.request' )
    keyed = [ x for x in ast.walk( fn ) if isinstance( x, ast.Subscript ) and try_fold( x.slice ) == 'attribute' and 'path' in txt( x.value ) and isinstance( x.ctx, ast.Load ) ]
    via = [ a for a in ast.walk( fn ) if isinstance( a, ast.Assign ) and is_call_to( a.value, 'resolve' ) and any( k.arg == 'attribute' and try_fold( k.value ) is True for k in a.value.keywords )
            and isinstance( a.targets[0], ast.Tuple ) and len( a.targets[0].elts ) == 3 ]
    if via and not keyed:
        res.ok( src, via[0], 'Object.request: Get / Set Attribute Single take the attribute number from resolve( data.path, attribute=True )' )
    else:
        res.bad( src, keyed[0] if keyed else fn, 'Object.request takes the attribute number from the literal key of a path segment', 'Get / Set Attribute Single of a tag addressed by its symbolic name is refused ( 0x08 ) although the name resolves to the same class / instance / attribute', func='Object.request' )
    return res


# ---------------------------------------------------------------------------------------- C05: D-UNPACKFMT

@rule( 'D-UNPACKFMT', props=( 'C05', 'C03' ), floor=1 )
def d_unpackfmt( ctx ):
    """Object.request, Set Attribute Single: what is stored into the Attribute ( att[:] = val ) is, on EVERY definition reaching the store,
    the list of struct.unpack( <att>.parser.struct_format, ... ) results - each received element converted with the tag type's own format
    (signedness included).  Raw payload octets stored for some element size are unsigned: a SINT tag then holds 128..255, and every later
    read of it fails in struct.pack - an acknowledged write that makes the tag unreadable."""
    res = Result( 'D-UNPACKFMT' )
    src = ctx.src( DEVICE )
    fn = src.get( 'Object.request' )
    ld = LocalDefs( fn )
    stores = [ a for a in walk_no_nested( fn ) if isinstance( a, ast.Assign ) and len( a.targets ) == 1 and isinstance( a.targets[0], ast.Subscript )
               and isinstance( a.targets[0].slice, ast.Slice ) and a.targets[0].slice.lower is None and a.targets[0].slice.upper is None and isinstance( a.targets[0].value, ast.Name ) ]
    stores = [ a for a in stores if any( pmatch( d, 'self.attribute[_k]' ) is not None for d in ld.defs.get( a.targets[0].value.id, [] )) ]
    if not stores:
        raise AnalysisError( 'Object.request: the whole-Attribute store ( att[:] = ... ) of Set Attribute Single not found' )
    for a in stores:
        ATT = a.targets[0].value.id
        vdefs = [ a.value ] if not isinstance( a.value, ast.Name ) else ld.defs.get( a.value.id, [] )
        bad = []
        for d in vdefs:
            ups = [ c for c in ast.walk( d ) if is_call_to( c, 'struct.unpack', 'struct.unpack_from' ) and c.args ]
            ok = bool( ups ) and isinstance( d, ( ast.ListComp, ast.GeneratorExp, ast.Call ))
            for u in ups:
                f0 = u.args[0]
                fdefs = [ f0 ] if not isinstance( f0, ast.Name ) else ld.defs.get( f0.id, [] )
                if not fdefs or any( pmatch( fd, '%s.parser.struct_format' % ATT ) is None for fd in fdefs ):
                    ok = False
            if not ok:
                bad.append( d )
        if bad or not vdefs:
            res.bad( src, bad[0] if bad else a, 'Object.request stores %s = %s into the Attribute without converting it with %s.parser.struct_format' % (
                norm_text( a.targets[0] ), norm_text( bad[0] )[:80] if bad else '?', ATT ),
                     'raw payload octets are unsigned: a Set Attribute Single of 0x80..0xFF into a SINT Attribute is acknowledged, the tag then holds 128..255, and every later read (Get Attribute Single, Read Tag) fails in struct.pack - the accepted write made the tag unreadable' )
        else:
            res.ok( src, a, 'Set Attribute Single: every definition of the stored value unpacks each element with %s.parser.struct_format (%d definition(s))' % ( ATT, len( vdefs )))
    return res


# ---------------------------------------------------------------------------------------- C06: P-PROCEED

def _returns_ok( src, cls_node, fn, seen=None ):
    """every normal exit of fn is `return True` (after producing enip.input) or `return self.<other>( data )` with <other> satisfying the same; no implicit None"""
    seen = seen or set()
    if fn.name in seen:
        return True, ''
    seen.add( fn.name )
    cfg = CFG( fn, may_raise=lambda n: False )
    # falling off the end = an edge into exit that is not a 'return' edge
    for p, label in cfg.pred[cfg.exit]:
        if label != 'return':
            return False, 'a path falls off the end of %s (implicit return None): the caller treats it as "end the session, send nothing"' % fn.name
    prod = [ n for n in cfg.nodes if n.kind == 'stmt' and pmatch( n.stmt, 'data.enip.input = bytearray( self.parser.produce( data.enip ))' ) ]
    for n in cfg.nodes:
        if n.kind == 'stmt' and isinstance( n.stmt, ast.Return ):
            v = n.stmt.value
            if v is None:
                return False, 'bare `return` in %s' % fn.name
            if isinstance( v, ast.Constant ) and v.value is True:
                if not prod or not cfg.must_pass( cfg.entry, n, prod, correlated=False ):
                    return False, '%s returns True on a path that did not produce data.enip.input' % fn.name
                continue
            if isinstance( v, ast.Call ) and isinstance( v.func, ast.Attribute ) and dotted( v.func.value ) == 'self':
                callee = [ m for m in cls_node.body if isinstance( m, ast.FunctionDef ) and m.name == v.func.attr ]
                if callee:
                    ok, why = _returns_ok( src, cls_node, callee[0], seen )
                    if not ok:
                        return False, why
                    continue
            return False, '%s returns %s: a recognised command must report proceed=True' % ( fn.name, norm_text( v ))
    return True, ''


@rule( 'P-PROCEED', props=( 'C06', ), floor=6 )
def p_proceed( ctx ):
    """UCMM: every command method returns True after producing its reply (no implicit None); only Unregister clears proceed, and nothing before that can raise"""
    res = Result( 'P-PROCEED' )
    src = ctx.src( UCMM )
    cd = src.get( 'UCMM' )
    fn = src.get( 'UCMM.request' )
    # the dispatch: key = the single key of enip.CIP; method = getattr( self, key, None ); proceed = method( data )
    PROCEED = ucmm_roles( fn ).get( 'proceed' )
    if PROCEED is None:
        raise AnalysisError( 'UCMM.request: final `return <proceed>` not found' )
    PM = Matcher()
    if PM.find( fn, '_method = getattr( self, _key, None )' ) is not None and PM.find( fn, '%s = _method( data )' % PROCEED ) is not None \
       and PM.find( fn, '_key = next( iter( dict.keys( _cip )))' ) is not None:
        res.ok( src, fn, 'other commands are dispatched to the method named after the CIP command and its result becomes proceed' )
    else:
        res.bad( src, fn, 'UCMM.request command dispatch', 'unrecognised-by-name commands must be dispatched to their method and its result returned as proceed' )
    # the command names the CIP parser can produce (keys under enip.CIP): from parser.CIP's COMMAND_PARSERS
    from .grammar import grammar_of
    g = grammar_of( ctx )
    cmds = g.class_const( 'CIP', 'COMMAND_PARSERS' )
    names = []
    if isinstance( cmds, dict ):
        for k, v in cmds.items():
            nm = getattr( v, 'name', None )
            if nm:
                names.append( nm )
    if not names:
        raise AnalysisError( 'parser.CIP.COMMAND_PARSERS does not fold' )
    handled_inline = { 'register', 'unregister', 'send_data' }
    for nm in sorted( set( names ) - handled_inline ):
        m = [ x for x in cd.body if isinstance( x, ast.FunctionDef ) and x.name == nm ]
        if not m:
            res.bad( src, cd, 'UCMM has no method %r' % nm, 'the CIP parser recognises the %s command but the UCMM cannot answer it (asserts -> error status only)' % nm )
            continue
        ok, why = _returns_ok( src, cd, m[0] )
        if ok:
            res.ok( src, m[0], 'UCMM.%s: every normal exit returns True after producing data.enip.input' % nm )
        else:
            res.bad( src, m[0], 'UCMM.%s' % nm, why )
    # proceed discipline in request
    inits = pfind( fn, '%s = True' % PROCEED )
    falses = [ s for s in ast.walk( fn ) if pmatch( s, '%s = False' % PROCEED ) ]
    ub = [ i for i in ast.walk( fn ) if isinstance( i, ast.If ) and "'enip.CIP.unregister'indata" in txt( i.test ) ]
    if inits and len( falses ) == 1 and ub and falses[0] in ub[0].body:
        res.ok( src, falses[0], 'proceed starts True and is cleared only by Unregister Session' )
    else:
        res.bad( src, fn, 'proceed discipline', 'proceed must start True and be cleared only in the Unregister branch' )
    # nothing before `proceed = False` in the Unregister branch may raise
    if ub and falses and falses[0] in ub[0].body:
        risky = []
        for s in ub[0].body[:ub[0].body.index( falses[0] )]:
            for c in ast.walk( s ):
                if isinstance( c, ast.Call ):
                    cn = call_name( c )
                    if cn.startswith( 'log.' ) or cn.startswith( 'logging.' ):
                        continue
                    if isinstance( c.func, ast.Attribute ) and c.func.attr in ( 'pop', 'get' ) and len( c.args ) >= 2:
                        continue			# with a default: cannot raise KeyError
                    risky.append( c )
                if isinstance( c, ast.Subscript ) and isinstance( c.ctx, ( ast.Load, ast.Del )):
                    risky.append( c )
                if isinstance( c, ( ast.Assert, ast.Raise, ast.Delete )):
                    risky.append( c )
        if risky:
            res.bad( src, risky[0], risky[0], 'may raise before proceed = False: an Unregister Session (e.g. without a prior Register) would be answered with an error reply instead of silently ending the session' )
        else:
            res.ok( src, ub[0], 'Unregister: nothing before proceed = False can raise' )
    return res


# ---------------------------------------------------------------------------------------- C07: S-RESOLVE (sibling cross-check of path-resolution failure handling)

@rule( 'S-RESOLVE', props=( 'C07', ), floor=3 )
def s_resolve( ctx ):
    """every resolution of a request's target path inside a request() handler fails into a CIP status (inside a converting try), the same way for a standalone request and for a bundle member"""
    res = Result( 'S-RESOLVE' )
    for rel, qn in (( DEVICE, 'Connection_Manager.request' ), ( DEVICE, 'Message_Router.request' ), ( LOGIX, 'Logix.request' )):
        src = ctx.src( rel )
        fn = src.get( qn )
        ordinal = 0
        for c in walk_no_nested( fn ):
            if not ( isinstance( c, ast.Call ) and ( call_name( c ) in ( 'resolve', 'device.resolve' ) or call_name( c ) == 'self.route' )):
                continue
            ordinal += 1
            # routing of the *whole* request to another object at the top of a handler (`target = self.route( data, fail=ROUTE_FALSE )`)
            # returns None instead of raising; skip calls that cannot raise by construction
            if call_name( c ) == 'self.route' and any( k.arg == 'fail' and ( dotted( k.value ) or '' ).endswith( 'ROUTE_FALSE' ) for k in c.keywords ):
                res.ok( src, c, '%s: %s cannot raise (fail=ROUTE_FALSE)' % ( qn, norm_text( c )[:50] ), nontrivial=False )
                continue
            tries = [ a for a in src.ancestors( c ) if isinstance( a, ast.Try ) and any( c is x for b in a.body for x in ast.walk( b )) ]
            conv = None
            for t in tries:
                for h in t.handlers:
                    catches = h.type is None or dotted( h.type ) in ( 'Exception', 'BaseException' )
                    if catches and not any( isinstance( x, ast.Raise ) for x in ast.walk( h )):
                        conv = t
                if conv is not None:
                    break
            if conv is not None:
                res.ok( src, c, '%s: failure of %s becomes a CIP error status' % ( qn, norm_text( c )[:40] ))
            else:
                res.bad( src, c, '%s: path resolution #%d ( %s ) is not inside a status-converting try' % ( qn, ordinal, call_name( c )),
                         'when the path does not resolve (e.g. an unknown tag) the standalone request fails as a whole (exception -> encapsulation status 0x08, session ends) while the same request as a bundle member gets CIP status 0x05', func=qn )
    return res


@rule( 'S-LONE', props=( 'C07', ), floor=1 )
def s_lone( ctx ):
    """Connection_Manager.request ( a request sent ALONE ): a request the target object cannot parse or does not recognise is answered like the
    same request inside a Multiple Service Packet - with a CIP error reply - not by failing the whole EtherNet/IP request: the try around
    `target.request( data.request )` must not hand the exception on ( Message_Router.request's member loop converts it to service | 0x80,
    status 0x08 )"""
    res = Result( 'S-LONE' )
    src = ctx.src( DEVICE )
    fn = src.get( 'Connection_Manager.request' )
    calls = [ c for c in walk_no_nested( fn ) if isinstance( c, ast.Call ) and isinstance( c.func, ast.Attribute ) and c.func.attr == 'request'
              and isinstance( c.func.value, ast.Name ) and c.args and dotted( c.args[0] ) == 'data.request' ]
    if not calls:
        raise AnalysisError( 'Connection_Manager.request: dispatch <target>.request( data.request ) not found' )
    for c in calls:
        tries = [ a for a in src.ancestors( c ) if isinstance( a, ast.Try ) and any( c is x for b in a.body for x in ast.walk( b )) ]
        # the handler renders an error reply ( <x>.input = ... produce( ... ) as a statement of its own body ) and hands the exception on only under
        # a condition ( no target object was found: nobody to answer )
        def answers_( h ):
            # a reply is rendered on every path through the handler that does not leave it by the conditional raise: either a statement of
            # the handler body renders it ( <x>.input = ... .produce( ... )), or the handler hands what is known of the request to the target
            # ( <target>.request( <placeholder> )) inside a try of its own whose catch-all renders it
            def renders_( stmts ):
                return any( isinstance( b, ast.Assign ) and ( dotted( b.targets[0] ) or '' ).endswith( '.input' )
                            and any( isinstance( c_, ast.Call ) and isinstance( c_.func, ast.Attribute ) and c_.func.attr == 'produce' for c_ in ast.walk( b.value )) for b in stmts )
            retry = [ t_ for t_ in h.body if isinstance( t_, ast.Try ) and any( isinstance( c_, ast.Call ) and isinstance( c_.func, ast.Attribute ) and c_.func.attr == 'request' for b_ in t_.body for c_ in ast.walk( b_ ))
                      and any(( h2.type is None or dotted( h2.type ) in ( 'Exception', 'BaseException' )) and renders_( h2.body ) and not any( isinstance( x_, ast.Raise ) for x_ in ast.walk( h2 )) for h2 in t_.handlers ) ]
            bare = any( isinstance( b, ast.Raise ) for b in h.body )
            return ( renders_( h.body ) or bool( retry )) and not bare
        conv = [ t for t in tries for h in t.handlers if ( h.type is None or dotted( h.type ) in ( 'Exception', 'BaseException' )) and answers_( h ) ]
        if conv:
            res.ok( src, c, 'a lone request the target cannot serve is answered with a CIP error reply' )
        else:
            res.bad( src, c, 'Connection_Manager.request: a failure of the lone request in the target object is handed on ( raise )',
                     'a request with an unsupported service code, or one the target\'s parser rejects, fails the whole EtherNet/IP request when sent alone ( encapsulation status 0x08, the session ends, pipelined requests behind it are lost ); the same request inside a Multiple Service Packet is answered service | 0x80, status 0x08 and its neighbours run', func='Connection_Manager.request' )
    # the stand-ins ( what is kept of a request that could not be parsed: its octets and service code ) of the lone request and of the bundle
    # member are made alike, and answered by the same Object:
    #  - each carries a path, an empty one: Object.request takes a request WITHOUT a path for one addressed to itself, and a stand-in reduced to
    #    service code 0x01 is then served - Get Attributes All of the Message Router, status 0 and every tag's value - instead of refused
    standins = []
    for qn in ( 'Connection_Manager.request', 'state_multiple_service.terminate.closure' ):
        f_ = src.get( qn )
        for a_ in ast.walk( f_ ):
            if isinstance( a_, ast.Assign ) and ( dotted( a_.targets[0] ) or '' ).endswith( '.service' ) and isinstance( a_.value, ast.BinOp ) and isinstance( a_.value.op, ast.BitAnd ) \
               and try_fold( a_.value.right ) == 0x7F and any( isinstance( h_, ast.ExceptHandler ) for h_ in src.ancestors( a_ )):
                X = dotted( a_.targets[0] ).rsplit( '.', 1 )[0]
                h_ = [ h_ for h_ in src.ancestors( a_ ) if isinstance( h_, ast.ExceptHandler ) ][0]
                ctors = [ c_ for c_ in ast.walk( h_ ) if isinstance( c_, ast.Assign ) and dotted( c_.targets[0] ) == X and isinstance( c_.value, ast.Call ) and c_.lineno <= a_.lineno ]
                standins.append(( qn, f_, a_, X, h_, ctors[-1] if ctors else None ))
    if len( standins ) < 2:
        raise AnalysisError( 'S-LONE: the stand-ins ( <x>.service = <octet> & 0x7F inside an except handler ) of the lone request and the bundle member not found' )
    for qn, f_, a_, X, h_, ctor in standins:
        has_path = ctor is not None and ( any( k_.arg == 'path' for k_ in ctor.value.keywords )
                                          or any( isinstance( b_, ast.Assign ) and dotted( b_.targets[0] ) == X + '.path' for b_ in ast.walk( h_ )))
        copies = ctor is not None and not ctor.value.keywords and ctor.value.args	# dotdict( <parsed request> ): whatever was parsed before the failure
        if has_path and not copies:
            res.ok( src, ctor, '%s: the stand-in of an unparsable request carries a path ( an empty one )' % qn )
        elif copies:
            res.bad( src, ctor, '%s: the stand-in of an unparsable request is a copy of what was parsed before the failure' % qn,
                     'a request cut off inside its data still carries path, type and the elements decoded so far: a truncated Write Tag Fragmented is executed with them and answered with success', func=qn )
        else:
            res.bad( src, ctor or a_, '%s: the stand-in of an unparsable request has no path' % qn,
                     'Object.request takes a request without a path for one addressed to the answering Object itself: an unparsable Get Attributes All ( 01 03 91 ) is served - status 0 and the octets of every attribute, all tag values - where every other damaged request is refused', func=qn )
    #  - the lone stand-in is answered by the Object that answers bundle members, the Message Router ( not by whatever Object the damaged
    #    request's path named: Identity does not know Read Tag, and answers 0x08 where the bundle answers 0x05 )
    cm = src.get( 'Connection_Manager.request' )
    lone = [ t for t in standins if t[0] == 'Connection_Manager.request' ]
    for qn, f_, a_, X, h_, ctor in lone[:1]:
        outer = [ h2 for h2 in src.ancestors( h_ ) if isinstance( h2, ast.ExceptHandler ) ]
        scope = outer[0] if outer else h_
        rcalls = [ c_ for c_ in ast.walk( scope ) if isinstance( c_, ast.Call ) and isinstance( c_.func, ast.Attribute ) and c_.func.attr == 'request' and c_.args and dotted( c_.args[0] ) == X ]
        if not rcalls:
            raise AnalysisError( 'S-LONE: the call that answers the lone stand-in ( <object>.request( %s ... )) not found' % X )
        for c_ in rcalls:
            R = dotted( c_.func.value )
            binds = [ b_ for b_ in ast.walk( cm ) if isinstance( b_, ast.Assign ) and dotted( b_.targets[0] ) == R ]
            if binds and all( any( is_call_to( l_, 'lookup' ) and l_.args and ( dotted( l_.args[0] ) or '' ).endswith( 'Message_Router.class_id' ) for l_ in ast.walk( b_.value )) for b_ in binds ):
                res.ok( src, c_, 'the lone stand-in is answered by the Message Router ( lookup( Message_Router.class_id ... )), as a bundle member is' )
            else:
                res.bad( src, c_, 'the lone stand-in is answered by %s, not by the Message Router' % R,
                         'a damaged request addressed to another Object ( Identity, TCPIP ) is answered 0x08 alone - that Object does not know the service - and 0x05 inside a Multiple Service Packet, where the Message Router answers', func=qn )
    #  - an error reply to Read Tag Fragmented ( reply service 0xD2 ) keeps an extended status word: `D2 00 <status> 00` is, octet for octet, a
    #    failed Unconnected Send ( parser.unconnected_send ), and the client raises where it should report one refused read.  Each handler that
    #    strips status_ext and renders an error reply supplies one again under a test on that service
    for qn in ( 'Connection_Manager.request', 'Message_Router.request' ):
        f_ = src.get( qn )
        for h_ in [ h_ for h_ in ast.walk( f_ ) if isinstance( h_, ast.ExceptHandler ) ]:
            strips = [ c_ for b_ in h_.body for c_ in ast.walk( b_ ) if isinstance( c_, ast.Call ) and isinstance( c_.func, ast.Attribute ) and c_.func.attr == 'pop' and c_.args
                       and isinstance( c_.args[0], ast.Constant ) and c_.args[0].value == 'status_ext' ]
            if not strips or any( isinstance( b_, ast.Try ) for b_ in h_.body if any( c_ in list( ast.walk( b_ )) for c_ in strips )):
                continue
            again = [ i_ for i_ in h_.body if isinstance( i_, ast.If ) and any( try_fold( k_ ) in ( 0xD2, 0x52 ) for k_ in ast.walk( i_.test ) if isinstance( k_, ast.Constant ))
                      and any( isinstance( b_, ast.Assign ) and ( dotted( b_.targets[0] ) or '' ).endswith( '.status_ext' ) for b_ in ast.walk( i_ )) ]
            if again:
                res.ok( src, again[0], '%s: the error reply to Read Tag Fragmented is given an extended status word again' % qn )
            else:
                res.bad( src, strips[0], '%s: the error reply is rendered without extended status whatever the service' % qn,
                         'D2 00 08 00 parses as a failed Unconnected Send: the client raises on a refused lone Read Tag Fragmented and yields nothing for the operations behind it, where the bundled run reports status 8 for that one', func=qn )
    return res


@rule( 'S-STANDIN', props=( 'C06', 'C07' ), floor=2 )
def s_standin( ctx ):
    """the stand-in of a request that could not be parsed carries the service code of THAT request: its first octet, less the reply bit - decided by value on a sample"""
    res = Result( 'S-STANDIN' )
    src = ctx.src( DEVICE )
    n = 0
    for qn in ( 'Connection_Manager.request', 'state_multiple_service.terminate.closure' ):
        f_ = src.get( qn )
        for h_ in [ h_ for h_ in ast.walk( f_ ) if isinstance( h_, ast.ExceptHandler ) ]:
            ctors = [ c_ for c_ in h_.body if isinstance( c_, ast.Assign ) and isinstance( c_.targets[0], ast.Name ) and isinstance( c_.value, ast.Call )
                      and any( k_.arg == 'input' for k_ in c_.value.keywords ) ]
            for ctor in ctors:
                X = ctor.targets[0].id
                if not any( k_.arg == 'path' for k_ in ctor.value.keywords ):	# ( the artifact handed to the parser for another try: not a stand-in yet )
                    continue
                sets = [ a_ for b_ in h_.body for a_ in ast.walk( b_ ) if isinstance( a_, ast.Assign ) and dotted( a_.targets[0] ) == X + '.service' and a_.lineno > ctor.lineno ]
                if not sets:
                    res.bad( src, ctor, '%s: the stand-in of an unparsable request is given no service code' % qn,
                             'the failure reply carries service 0x80: the peer cannot pair it with its request', func=qn )
                    n += 1
                    continue
                for a_ in sets:
                    n += 1
                    got = []
                    for octets, other in (( b'\x4c\x02\x20\x02', 0x52 ), ( b'\xd3\x01', 0x0A )):
                        env = { 'bytearray': bytearray, 'bytes': bytes, 'ord': ord, 'int': int, 'len': len, X: { 'input': octets, 'service': other, 'path': { 'segment': [] }}}
                        given = [ dotted( k_.value ) for k_ in ctor.value.keywords if k_.arg == 'input' ]
                        if given[0]:	# ( the expression the stand-in's own octets were taken from names the same octets )
                            env[given[0]] = octets
                        for d_ in sorted( names_in( a_.value )):
                            if d_ not in env:
                                env[d_] = { 'service': other, 'input': bytes( [ other ] ), 'request': { 'service': other, 'input': bytes( [ other ] ) }}
                        try:
                            got.append( fold( a_.value, env ))
                        except Raises as exc:
                            got.append( 'raises %s' % exc )
                        except NoFold as exc:
                            raise AnalysisError( 'S-STANDIN: %s: service of the stand-in outside the modelled subset: %s ( %s )' % ( qn, norm_text( a_.value ), str( exc )[:60] ))
                    if got == [ 0x4C, 0x53 ]:
                        res.ok( src, a_, '%s: the stand-in takes its service code from the first octet of the request it stands for, less the reply bit ( 4C.. -> 0x4C, D3.. -> 0x53 )' % qn )
                    else:
                        res.bad( src, a_, '%s: the stand-ins of requests 4C 02 20 02 and D3 01 are given service %s' % ( qn, ', '.join( '0x%02X' % g if isinstance( g, int ) else str( g ) for g in got )),
                                 'the failure is answered under another service code than the request\'s: the peer pairs replies with requests by it', func=qn )
    if n < 2:
        raise AnalysisError( 'S-STANDIN: expected the stand-ins of the lone request and of the bundle member, found %d' % n )
    return res


@rule( 'K-REOPEN', props=( 'C14', 'C06' ), floor=2 )
def k_reopen( ctx ):
    """Connection_Manager.forward_open, a connection that is already established ( same peer, same O->T connection ID ): the Forward Open that
    repeats its parameters succeeds, one that differs in a parameter is refused - decided by value: the branch taken for a known connection is
    evaluated on the kept request and an identical / a differing new one.  Every method it calls on the two ( dotdict ) requests exists"""
    res = Result( 'K-REOPEN' )
    src = ctx.src( DEVICE )
    fn = src.get( 'Connection_Manager.forward_open' )
    ifs = [ s_ for s_ in ast.walk( fn ) if isinstance( s_, ast.If ) and isinstance( s_.test, ast.Compare ) and isinstance( s_.test.ops[0], ast.In )
            and dotted( s_.test.comparators[0] ) in ( 'self.forwards', 'self.__class__.forwards', 'Connection_Manager.forwards' ) ]
    if len( ifs ) != 1:
        raise AnalysisError( 'forward_open: the test for an established connection ( <key> in self.forwards ) found %d times' % len( ifs ))
    branch = ifs[0]
    key = dotted( branch.test.left )
    table = dotted( branch.test.comparators[0] )
    # the methods a dotdict has: dict's and those its class defines
    dd = ctx.src( 'dotdict.py' )
    known = set( dir( dict )) | { f.name for c_ in dd.tree.body if isinstance( c_, ast.ClassDef ) for f in c_.body if isinstance( f, ast.FunctionDef ) }
    free = sorted( names_in( ast.Module( body=branch.body, type_ignores=[] )))
    kept = { 'O_T.NCP': 0x43F4, 'O_T.RPI': 100000, 'T_O.NCP': 0x43F4, 'T_O.RPI': 100000, 'transport_class_triggers': 0xA3, 'connection_path': { 'segment': [ { 'class': 2 }, { 'instance': 1 } ] },
             'O_vendor': 1, 'O_serial': 2, 'connection_serial': 3 }
    got = []
    for label, new in (( 'identical', dict( kept )), ( 'another RPI', dict( kept, **{ 'T_O.RPI': 200000 } )), ( 'another path', dict( kept, connection_path={ 'segment': [ { 'class': 2 }, { 'instance': 2 } ] } ))):
        env = { key: ( 'peer', 1, 7 ), table: { ( 'peer', 1, 7 ): ( dict( kept ), None ) }, 'triplet': ( 1, 2, 3 ), 'all': all, 'any': any, 'len': len }
        for f_ in free:
            if f_ not in env and f_ not in ( 'self', 'all', 'any', 'log', 'logging' ):
                env[f_] = new			# ( the new request, under whatever local name )
        try:
            out = run_block( branch.body, env, ignore_calls=( 'log', ))
            got.append( out.kind )
        except Raises as exc:
            got.append( 'raise' )
        except NoFold as exc:
            alien = [ c_ for b_ in branch.body for c_ in ast.walk( b_ ) if isinstance( c_, ast.Call ) and isinstance( c_.func, ast.Attribute )
                      and isinstance( c_.func.value, ast.Name ) and c_.func.value.id not in ( 'log', 'self', 'logging' ) and c_.func.attr not in known ]
            if alien:
                res.bad( src, alien[0], 'forward_open compares the kept and the new Forward Open by .%s( ... ), which neither dict nor dotdict defines' % alien[0].func.attr,
                         'the comparison raises AttributeError: an identical Forward Open of an established connection is refused ( status 0x08 ) where it is to succeed', func='Connection_Manager.forward_open' )
                return res
            raise AnalysisError( 'forward_open: the branch for an established connection is outside the modelled subset: %s' % str( exc )[:80] )
    if got == [ 'fall', 'raise', 'raise' ]:
        res.ok( src, branch, 'a Forward Open repeating the parameters of an established connection succeeds' )
        res.ok( src, branch, 'a Forward Open for an established connection with another RPI or path is refused' )
    else:
        res.bad( src, branch, 'forward_open for an established connection: identical -> %s, another RPI -> %s, another path -> %s' % tuple( got ),
                 'the identical re-open is to succeed ( fall through ), a differing one to be refused ( raise )', func='Connection_Manager.forward_open' )
    return res


# ---------------------------------------------------------------------------------------- C03: T-SYMBOL (key discipline of the tag symbol table and the object directory)

@rule( 'T-SYMBOL', props=( 'C03', 'C05' ), floor=5 )
def t_symbol( ctx ):
    """every access to the tag symbol table uses a key made by canonicalize_tag (case-insensitive tags), and writer and reader of the object directory build the same 'class.instance.attribute' key"""
    res = Result( 'T-SYMBOL' )
    src = ctx.src( DEVICE )
    n = 0
    for fn in [ f for f in src.tree.body if isinstance( f, ast.FunctionDef ) ]:
        ld = LocalDefs( fn )
        for node in ast.walk( fn ):
            key = None
            if isinstance( node, ast.Subscript ) and dotted( node.value ) == 'symbol':
                key = node.slice
            elif isinstance( node, ast.Call ) and call_name( node ) in ( 'symbol.get', 'symbol.pop', 'symbol.setdefault' ) and node.args:
                key = node.args[0]
            elif isinstance( node, ast.Compare ) and len( node.ops ) == 1 and isinstance( node.ops[0], ( ast.In, ast.NotIn )) and dotted( node.comparators[0] ) == 'symbol':
                key = node.left
            if key is None:
                continue
            n += 1
            ok = is_call_to( key, 'canonicalize_tag' ) or ( isinstance( key, ast.Name ) and ld.defs.get( key.id ) and all( is_call_to( d, 'canonicalize_tag' ) for d in ld.defs[key.id] ))
            if ok:
                res.ok( src, node, '%s: symbol key %s comes from canonicalize_tag' % ( fn.name, txt( key )))
            else:
                res.bad( src, node, '%s: symbol accessed with key %s' % ( fn.name, norm_text( key )), 'tag names are case-insensitive: every store and lookup must use the canonicalize_tag( tag ) key, else a tag written under one spelling is not found under another' )
    ct = src.get( 'canonicalize_tag' )
    if pfind( ct, '_c = tag.lower()' ) and [ r for r in ast.walk( ct ) if isinstance( r, ast.Return ) and isinstance( r.value, ast.Name ) ]:
        res.ok( src, ct, 'canonicalize_tag lower-cases the tag' )
    else:
        res.bad( src, ct, 'canonicalize_tag', 'the canonical form of a tag is its lower-case spelling' )
    if n < 4:
        raise AnalysisError( 'T-SYMBOL: symbol table accesses not found (%d)' % n )
    # directory keys
    # directory keys, decided by evaluating the key expressions on sample ids (any equivalent formatting passes)
    dp = src.get( '__directory_path' )
    r = [ x for x in ast.walk( dp ) if isinstance( x, ast.Return ) ]
    if not r:
        raise AnalysisError( '__directory_path: no return' )
    try:
        got = [ fold( r[0].value, { 'class_id': 5, 'instance_id': 7, 'attribute_id': a } ) for a in ( None, 3, 12 ) ]
    except NoFold as exc:
        raise AnalysisError( '__directory_path key expression outside the modelled subset: %s' % exc )
    if got == [ '5.7.0', '5.7.3', '5.7.12' ]:
        res.ok( src, r[0], "lookup key = 'class.instance.attribute' (attribute 0 = the Object itself): %s" % got )
    else:
        res.bad( src, r[0], r[0].value, "the directory key for class 5, instance 7, attribute None/3/12 must be '5.7.0'/'5.7.3'/'5.7.12', got %s" % got )
    oi = src.get( 'Object.__init__' )
    sd = [ c for c in ast.walk( oi ) if is_call_to( c, 'directory.setdefault' ) and c.args ]
    okreg = False
    if sd:
        try:
            okreg = fold( sd[0].args[0], { 'self.class_id': 5, 'instance_id': 7, 'self.instance_id': 7 } ) == '5.7'
        except NoFold as exc:
            raise AnalysisError( 'Object.__init__ directory key outside the modelled subset: %s' % exc )
    if okreg and pfind( oi, "self.attribute['0'] = self" ):
        res.ok( src, oi, "Object registers itself at directory['class.instance']['0'], attributes at [str( id )]" )
    else:
        res.bad( src, sd[0] if sd else oi, sd[0] if sd else 'Object.__init__ directory registration', "an Object must register at directory['<class>.<instance>'] with itself under '0' (the key lookup() reads)" )
    lk = src.get( 'lookup' )
    LM = Matcher()
    if LM.find( lk, '_key = __directory_path( class_id=class_id, instance_id=instance_id, attribute_id=attribute_id )' ) is not None \
       and LM.find( lk, 'directory.get( _key, None )' ) is not None:
        res.ok( src, lk, 'lookup reads directory.get( __directory_path( ... ))' )
    else:
        res.bad( src, lk, 'lookup', 'lookup must read the directory under the __directory_path key' )
    # resolve_element: the first element segment, default ( 0, )
    re_ = src.get( 'resolve_element' )
    EM = Matcher()
    if EM.find( re_, "_el.append( _term['element'] )" ) is not None and EM.find( re_, 'tuple( _el ) if _el else ( 0, )' ) is not None:
        res.ok( src, re_, 'resolve_element: the path\'s element segment, default element 0' )
    else:
        res.bad( src, re_, 'resolve_element', 'the element index is the path\'s element segment, defaulting to 0' )
    # slot '0' of an Object's attributes is the Object itself ( lookup( class, instance ) returns directory['class.instance.0'] ): nothing
    # else is ever stored there.  TCPIP kept its class-level Revision in '0': lookup( 0xF5, 0 ) returned an Attribute, every request to the
    # class object raised, and a tag configured on a new instance of that class made setup() fail for every request of every session
    zero = [ a_ for a_ in ast.walk( src.tree ) if isinstance( a_, ast.Assign ) and any( isinstance( t_, ast.Subscript ) and isinstance( t_.value, ast.Attribute ) and t_.value.attr == 'attribute'
                                                                                         and try_fold( t_.slice ) in ( '0', 0 ) for t_ in a_.targets ) ]
    if not zero:
        raise AnalysisError( "device.py: no store into <object>.attribute['0'] found" )
    for a_ in zero:
        tg = [ t_ for t_ in a_.targets if isinstance( t_, ast.Subscript ) ][0]
        if dotted( a_.value ) == dotted( tg.value.value ):
            res.ok( src, a_, "attribute['0'] = the Object itself" )
        else:
            res.bad( src, a_, "%s: attribute['0'] = %s" % ( src.qualname_of( a_ ), norm_text( a_.value )[:50] ),
                     "slot '0' is where the directory finds the Object: overwritten, lookup( class, instance ) returns an Attribute - requests to that object raise, and a tag configured on another instance of the class fails every request of every session" )
    # the name a configured tag is registered under is the name given: logix.setup() only transcodes it ( UTF-8 text -> ISO-8859-1 octets ->
    # text ), decided by value on names holding ISO-8859-1 symbols.  Anything that rewrites characters ( a compatibility normalisation turns
    # 'm³' into 'm3', 'º' into 'o' ) registers the tag under a name no request spells: every read and write of it is answered 0x05
    lsrc = ctx.src( LOGIX )
    su = lsrc.get( 'setup' )
    tl = [ l for l in ast.walk( su ) if isinstance( l, ast.For ) and 'tags' in txt( l.iter ) and isinstance( l.target, ast.Tuple ) and len( l.target.elts ) == 2 ]
    if len( tl ) != 1:
        raise AnalysisError( 'logix.setup: the loop over the configured tags not found' )
    KEY, VAL = [ e.id for e in tl[0].target.elts ]
    wrong = []
    names = ( 'SCADA', u'Vol_m\u00b3', u'Temp_\u00baC', u'Z\u00fcrich', u'\u00b5A', u'a\u00bc', 'a.b[3]' )
    for name in names:
        seen = []
        env = { KEY: name, VAL: 'VAL', 'sys.version_info': ( 3, 12 ), 'setup_tag': lambda *a: seen.append( a ), 'unicode': str, 'str': str,
                'unicodedata.normalize': __import__( 'unicodedata' ).normalize }	# the standard library's table, not the repository's code
        try:
            run_block( tl[0].body, env, ignore_calls=( 'log', ))
        except NoFold as exc:
            if "codec can't encode" not in str( exc ):
                raise AnalysisError( 'logix.setup: the body of the tag loop is not a decision fragment: %s' % exc )
            seen.append(( 'refused: not ISO-8859-1 any more', ))
        res.cells += 1
        if len( seen ) != 1 or seen[0][:1] != ( name, ):
            wrong.append(( name, seen ))
    if wrong:
        res.bad( lsrc, tl[0], 'logix.setup registers the tag %r as %r' % ( wrong[0][0], [ a[0] for a in wrong[0][1] ] ),
                 'the tag is created under another name than the one requests spell: every Read / Write Tag of it is refused with 0x05, two tags may collapse into one ( %d of %d names differ )' % ( len( wrong ), len( names )))
    else:
        res.ok( lsrc, tl[0], 'logix.setup registers every configured tag under the name given ( %d names with ISO-8859-1 symbols )' % len( names ))
    return res


# ---------------------------------------------------------------------------------------- C03: D-PATHSTOP (decision table of resolve()'s early exit)

@rule( 'D-PATHSTOP', props=( 'C03', 'C07' ), floor=2 )
def d_pathstop( ctx ):
    """device.resolve: the walk over the path segments stops early iff class and instance are known and ( the attribute is known, or none is
    wanted, or a default is supplied and this segment does not carry one ); the default attribute is applied iff none was found and a default
    (not just True) was supplied - both conditions are evaluated over the whole finite abstract domain"""
    res = Result( 'D-PATHSTOP' )
    src = ctx.src( DEVICE )
    fn = src.get( 'resolve' )
    loops = [ f for f in fn.body if isinstance( f, ast.For ) and isinstance( f.target, ast.Name ) and 'segment' in txt( f.iter ) ]
    if len( loops ) != 1:
        raise AnalysisError( 'resolve: loop over the path segments not found' )
    lp = loops[0]; TERM = lp.target.id
    brk = [ s for s in lp.body if isinstance( s, ast.If ) and any( isinstance( b, ( ast.Break, ast.Continue )) for b in s.body ) ]
    # the accumulator: the dict literal with the three keys
    acc = [ s for s in fn.body if isinstance( s, ast.Assign ) and isinstance( s.value, ast.Dict ) and { try_fold( k ) for k in s.value.keys } == { 'class', 'instance', 'attribute' } ]
    if not acc or not isinstance( acc[0].targets[0], ast.Name ):
        raise AnalysisError( 'resolve: result accumulator { class, instance, attribute } not found' )
    RES = acc[0].targets[0].id
    ATT = fn.args.args[1].arg
    import itertools
    def cells():
        for c, i, a, mode, t in itertools.product(( 5, None ), ( 1, None ), ( 3, None ), ( False, True, 1 ), ( True, False, 'symbolic' )):
            yield c, i, a, mode, t, { RES: { 'class': c, 'instance': i, 'attribute': a }, ATT: mode, TERM: ( { 'symbolic': 'foo' } if t == 'symbolic' else { 'attribute': 7 } if t else { 'element': 0 } ) }
    # ( ahead of it only bookkeeping that neither touches the accumulator nor calls anything: the test decides on the state the last segment left )
    def harmless( st_ ):
        return not any( isinstance( n_, ast.Call ) for n_ in ast.walk( st_ )) and RES not in names_in( st_ ) and not any( isinstance( n_, ( ast.Break, ast.Continue, ast.Return, ast.Raise )) for n_ in ast.walk( st_ ))
    if len( brk ) != 1 or not all( harmless( st_ ) for st_ in lp.body[:lp.body.index( brk[0] )] ):
        res.bad( src, lp, 'early exit of the segment walk', 'exactly one early-exit test is expected at the top of the segment loop' )
    else:
        wrong = []
        n = 0
        for c, i, a, mode, t, env in cells():
            n += 1
            try:
                got = bool( fold( brk[0].test, env ))
            except NoFold as exc:
                raise AnalysisError( 'resolve: early-exit condition outside the modelled subset: %s' % exc )
            want = c is not None and i is not None and ( a is not None or not mode or ( mode is not True and t is False ))
            if t == 'symbolic':
                want = False		# a symbolic segment names a (sub)tag: it is resolved or refused, never skipped
            if got != want:
                wrong.append(( c, i, a, mode, t, got ))
        res.cells += n
        if wrong:
            c, i, a, mode, t, got = wrong[0]
            res.bad( src, brk[0], 'early exit: class %s, instance %s, attribute %s, attribute argument %r, segment %s an attribute -> %s (%d of %d cells differ)' % (
                'known' if c else 'unknown', 'known' if i else 'unknown', 'known' if a else 'unknown', mode, 'is symbolic, not' if t == 'symbolic' else 'carries' if t else 'does not carry', 'stop' if got else 'continue', len( wrong ), n ),
                     ( 'a symbolic segment behind a resolved tag is skipped: a request for A.foo ( foo unknown ) is served from A instead of being refused as an unknown tag, and with both A and A.B configured A.B silently reads and writes A; ' if t == 'symbolic' else '' ) + 'the walk must continue while a wanted attribute may still come: stopping early ignores an explicit attribute segment (every numerically addressed tag is then served from the default attribute), continuing too long consumes the element segment' )
        else:
            res.ok( src, brk[0], 'early exit agrees with the specified table on all %d cells of class x instance x attribute x mode x segment-kind' % n )
        # skipping is per segment: a `break` also skips every LATER segment, symbolic ones included ( A[1].foo )
        if any( isinstance( b, ast.Break ) for b in ast.walk( brk[0] )):
            res.bad( src, brk[0], 'resolve leaves the segment walk ( break ) once the address is complete', 'a symbolic segment behind an element index is never looked at: A[1].foo ( foo unknown ) is served from A[1] instead of being refused as an unknown tag' )
        else:
            res.ok( src, brk[0], 'segments behind a complete address are skipped one by one ( continue ): a later symbolic segment is still resolved or refused' )
    # what is skipped: an element segment, or one repeating what is resolved.  A skipped segment that names ANOTHER class / instance /
    # attribute than the resolved one addresses something else ( [ TAG, attribute 99 ] ): refused, decided by value on the skip branch
    if len( brk ) == 1:
        skipcells = (( { 'element': 0 }, 3, 'continue' ), ( { 'attribute': 3 }, 3, 'continue' ), ( { 'attribute': 7 }, 3, 'raise' ),
                     ( { 'class': 9 }, 3, 'raise' ), ( { 'instance': 2 }, 3, 'raise' ), ( { 'class': 5, 'instance': 1 }, 3, 'continue' ),
                     ( { 'attribute': 7 }, None, 'continue' ))
        wrong = []
        for term, att, want in skipcells:
            env = { RES: { 'class': 5, 'instance': 1, 'attribute': att }, ATT: att is not None, TERM: term, 'path': { 'segment': [ term ] } }
            try:
                out = run_block( brk[0].body, env, ignore_calls=( 'log', ))
            except NoFold as exc:
                raise AnalysisError( 'resolve: the skip branch is not a decision fragment: %s' % exc )
            res.cells += 1
            if out.kind != want:
                wrong.append(( term, att, out.kind, want ))
        if wrong:
            term, att, got, want = wrong[0]
            res.bad( src, brk[0], 'resolve skips segment %r behind the resolved address ( 5, 1, %r ): %s, specified %s' % ( term, att, got, want ),
                     'a segment behind a complete address that names another class, instance or attribute than the resolved one is skipped: a Write Tag to [ TAG, attribute 99 ] is carried out on TAG and acknowledged, instead of being refused as an unknown destination' )
        else:
            res.ok( src, brk[0], 'a skipped segment is an element, or repeats the resolved address; one naming something else is refused ( %d cells )' % len( skipcells ))
    # ---- the function as a whole, by value: its body is run on request paths against a stand-in symbol table holding the tags 'a', 'a.b'
    #      ( a tag whose dotted name extends another tag's ) and 'd.e'.  The address returned is the addressed tag's: the LONGEST dotted name
    #      that adjacent symbolic segments spell wins ( 'a.b' is not 'a' plus an unknown member ), an element in between ends the name
    sym = { 'a': { 'class': 2, 'instance': 1, 'attribute': 1 }, 'a.b': { 'class': 2, 'instance': 1, 'attribute': 2 }, 'd.e': { 'class': 3, 'instance': 1, 'attribute': 1 },
            'x': { 'class': 4, 'instance': 1, 'attribute': 1 }, 'x.y.z': { 'class': 4, 'instance': 1, 'attribute': 3 } }
    body_ = [ st for st in fn.body if not ( isinstance( st, ast.Expr ) and isinstance( st.value, ast.Constant )) ]
    def whole( segs, mode ):
        env = { fn.args.args[0].arg: { 'segment': [ dict( s_ ) for s_ in segs ] }, ATT: mode, 'symbol': { k_: dict( v_ ) for k_, v_ in sym.items() }, 'canonicalize_tag': lambda t: t.lower(),
                'dict': dict, 'isinstance': isinstance, 'int': int, 'dict.fromkeys': dict.fromkeys, 'any': any, 'all': all }
        try:
            out = run_block( body_, env, ignore_calls=( 'log', ))
        except NoFold as exc:
            raise AnalysisError( 'resolve: the function body is not a decision fragment: %s' % exc )
        return out.value if out.kind == 'return' else out.kind
    S = lambda n: { 'symbolic': n }
    table = (( [ S( 'A' ) ], True, ( 2, 1, 1 )), ( [ S( 'A' ), S( 'B' ) ], True, ( 2, 1, 2 )), ( [ S( 'a' ), S( 'b' ), { 'element': 3 } ], True, ( 2, 1, 2 )),
              ( [ S( 'A' ), { 'element': 1 }, S( 'B' ) ], True, 'raise' ), ( [ S( 'A' ), S( 'C' ) ], True, 'raise' ), ( [ S( 'D' ), S( 'E' ) ], True, ( 3, 1, 1 )),
              ( [ S( 'D' ) ], True, 'raise' ), ( [ { 'class': 5 }, { 'instance': 1 }, { 'attribute': 3 }, { 'element': 4 } ], True, ( 5, 1, 3 )),
              ( [ S( 'A' ), { 'attribute': 99 } ], True, 'raise' ), ( [ S( 'A' ), { 'attribute': 1 }, { 'element': 4 } ], True, ( 2, 1, 1 )),
              ( [ { 'class': 5 }, { 'instance': 1 } ], False, ( 5, 1, None )), ( [ { 'class': 5 }, { 'instance': 1 }, { 'element': 0 } ], 1, ( 5, 1, 1 )),
              ( [ { 'class': 5 } ], False, 'raise' ), ( [ S( 'A' ), S( 'B' ) ], False, ( 2, 1, None )),
              ( [ S( 'X' ), S( 'Y' ), S( 'Z' ) ], True, ( 4, 1, 3 )), ( [ S( 'X' ), S( 'Y' ) ], True, 'raise' ), ( [ S( 'X' ) ], True, ( 4, 1, 1 )), ( [ S( 'X' ), S( 'Y' ), S( 'Z' ), { 'element': 2 } ], True, ( 4, 1, 3 )))
    wrong = []
    for segs, mode, want in table:
        got = whole( segs, mode )
        res.cells += 1
        if got != want:
            wrong.append(( segs, mode, got, want ))
    if wrong:
        segs, mode, got, want = wrong[0]
        res.bad( src, fn, 'resolve( %s, attribute=%r ) with tags a, a.b, d.e, x, x.y.z -> %r, specified %r ( %d of %d paths differ )' % ( [ list( s_.items())[0] for s_ in segs ], mode, got, want, len( wrong ), len( table )),
                 'a configured tag whose dotted name begins with the name of another tag cannot be addressed ( every request for it is answered 0x05 ), or a request is served from another tag than the one its path names' )
    else:
        res.ok( src, fn, 'resolve returns the address of the tag ( or object ) the path names on all %d sample paths ( longest dotted name, elements, defaults, contradictions )' % len( table ))
    # default application after the loop
    dfl = [ s for s in fn.body if isinstance( s, ast.If ) and any( isinstance( b, ast.Assign ) and pmatch( b.targets[0], "%s['attribute']" % RES ) is not None and dotted( b.value ) == ATT for b in s.body ) ]
    if len( dfl ) != 1:
        res.bad( src, fn, 'default attribute', 'a supplied default attribute must be applied when the path carried none' )
    else:
        wrong = []
        n = 0
        for a, mode in itertools.product(( 3, None ), ( False, True, 1 )):
            n += 1
            env = { RES: { 'class': 5, 'instance': 1, 'attribute': a }, ATT: mode }
            try:
                got = bool( fold( dfl[0].test, env ))
            except NoFold as exc:
                raise AnalysisError( 'resolve: default-attribute condition outside the modelled subset: %s' % exc )
            want = a is None and mode is not False and mode is not True
            if got != want:
                wrong.append(( a, mode, got ))
        res.cells += n
        if wrong:
            res.bad( src, dfl[0], 'default applied for attribute %s, argument %r: %s' % ( 'known' if wrong[0][0] else 'unknown', wrong[0][1], wrong[0][2] ),
                     'the default attribute applies exactly when the path carried none and a default number was supplied' )
        else:
            res.ok( src, dfl[0], 'the default attribute is applied iff the path carried none and a default number was supplied (%d cells)' % n )
    return res


# ---------------------------------------------------------------------------------------- C05/C03: K-KEYPASS

@rule( 'K-KEYPASS', props=( 'C05', 'C03' ), floor=2 )
def k_keypass( ctx ):
    """every subclass of Attribute that overrides __getitem__ / __setitem__ hands the key it received, unchanged, to the inherited method:
    Attribute._validate_key refuses a slice that runs past the end of the tag by looking at the RAW key ( key.stop vs. the clipped stop );
    a normalised / clamped key defeats that check"""
    res = Result( 'K-KEYPASS' )
    n = 0
    for rel in ( 'server/enip/main.py', 'server/enip/device.py', 'server/enip/logix.py', 'server/enip/hart.py', 'server/enip/historize.py', 'server/enip/weather.py' ):
        if not ctx.model.exists( rel ):
            continue
        src = ctx.src( rel )
        for cd in ast.walk( src.tree ):
            if not isinstance( cd, ast.ClassDef ) or cd.name == 'Attribute':
                continue
            bases = [ dotted( b ) or '' for b in cd.bases ]
            if not any( b.split( '.' )[-1] in ( 'Attribute', 'attribute_class' ) or b.split( '.' )[-1].startswith( 'Attribute_' ) for b in bases ):
                continue
            for f in cd.body:
                if not ( isinstance( f, ast.FunctionDef ) and f.name in ( '__getitem__', '__setitem__' ) and len( f.args.args ) >= 2 ):
                    continue
                n += 1
                key = f.args.args[1].arg
                sup = [ c for c in ast.walk( f ) if isinstance( c, ast.Call ) and isinstance( c.func, ast.Attribute ) and c.func.attr == f.name and is_call_to( c.func.value, 'super' ) ]
                stores = [ s for s in ast.walk( f ) if isinstance( s, ast.Name ) and s.id == key and isinstance( s.ctx, ast.Store ) ]
                qn = '%s.%s' % ( cd.name, f.name )
                if not sup:
                    res.ok( src, f, '%s does not delegate to the inherited accessor' % qn, nontrivial=False )
                    continue
                bad = False
                for c in sup:
                    if not c.args or dotted( c.args[0] ) != key:
                        bad = True
                        res.bad( src, c, '%s: super().%s( %s )' % ( qn, f.name, norm_text( c.args[0] ) if c.args else '' ), 'the inherited accessor must receive the key exactly as it was given', func=qn )
                if stores:
                    bad = True
                    res.bad( src, stores[0], '%s rebinds its key (%s) before delegating' % ( qn, norm_text( src.enclosing( stores[0], ( ast.stmt, )) or stores[0] )),
                             'a slice normalised with key.indices( len ) has its stop clamped to the tag length: Attribute._validate_key then no longer sees that the request ran past the end, and a write just beyond the end is acknowledged (and grows the tag) instead of being refused', func=qn )
                if not bad:
                    res.ok( src, f, '%s hands its key unchanged to the inherited accessor' % qn )
    if n < 2:
        raise AnalysisError( 'K-KEYPASS: overriding accessors of Attribute subclasses not found (%d)' % n )
    return res


# ---------------------------------------------------------------------------------------- C06/C13: P-ROUTE (shared route connection of the UCMM)

def csrc_enclosing_loop( src, node ):
    return src.enclosing( node, ( ast.While, ast.For )) is not None


@rule( 'P-ROUTE', props=( 'C06', 'C13' ), floor=3 )
def p_route( ctx ):
    """UCMM.request, routed Unconnected Send: the connection to a route target is shared by all sessions and replies are not matched by
    context; so every failure between sending the request and accepting its response (no response within the time-out, error status) must
    drop that connection - the try whose handler deletes self.route_conn[target] and re-raises encloses the send, the wait and every check
    of the response"""
    res = Result( 'P-ROUTE' )
    src = ctx.src( UCMM )
    fn = src.get( 'UCMM.request' )
    M = Matcher()
    aw = M.find( fn, '( _rsp, _ela ) = client.await_response( _conn, timeout=_t )' )
    if aw is None:
        raise AnalysisError( 'UCMM.request: wait for the routed response ( client.await_response ) not found' )
    RSP, CONN = M.name( '_rsp' ), M.name( '_conn' )
    def drops( h ):
        return any( isinstance( d, ast.Delete ) and any( 'route_conn' in txt( x ) for x in d.targets ) for d in ast.walk( h )) \
            or any( isinstance( c, ast.Call ) and isinstance( c.func, ast.Attribute ) and c.func.attr == 'pop' and 'route_conn' in txt( c.func.value ) for c in ast.walk( h ))
    tries = [ t for t in ast.walk( fn ) if isinstance( t, ast.Try ) and any( drops( h ) and any( isinstance( r, ast.Raise ) for r in h.body ) for h in t.handlers ) ]
    if not tries or len( tries ) > 2 or ( len( tries ) == 2 and not any( tries[1] is x_ for x_ in ast.walk( tries[0] ))):
        res.bad( src, aw, 'routed request failure handling', 'a failed routed request must close and forget the shared route connection ( drop self.route_conn[target]; raise )' )
        return res
    T = tries[0]						# the outermost; a second one may retire the connection while it is still held ( clause 5 )
    h = [ h for h in T.handlers if drops( h ) ][0]
    # forgetting is not closing: a session that is already waiting for the shared connection ( blocked on its lock ) keeps a reference to it;
    # unless the handler CLOSES the connection, that session goes on to send on the same socket and reads the response still in flight
    closes = [ c for c in ast.walk( h ) if isinstance( c, ast.Call ) and isinstance( c.func, ast.Attribute ) and c.func.attr == 'close' ]
    if closes:
        res.ok( src, closes[0], 'the failed route connection is closed explicitly, not merely forgotten' )
    else:
        res.bad( src, h, 'UCMM.request: the handler of a failed routed exchange forgets the shared route connection without closing it',
                 'dropping the table entry closes nothing while another session holds the connection ( it is blocked on its lock ): that session sends its request on the same socket and is answered with the reply to the request that timed out - a reply delivered to the wrong session' )
    # ---- the table of route connections is shared by all session threads:
    # (1) looking a connection up and creating it when absent happen under one lock ( two sessions creating one each: the later store
    #     replaces the earlier entry while a third session already waits on the first connection );
    # (2) the connection the exchange runs on is the one found / created there ( a local ), not a second look-up of the table;
    # (3) the handler closes THAT connection, and forgets the table entry only if it still is that connection ( else it closes the healthy
    #     replacement and leaves the failed one in use: the next session is answered with the reply still in flight )
    creates = [ a_ for a_ in ast.walk( T ) if isinstance( a_, ast.Assign ) and any( isinstance( t_, ast.Subscript ) and 'route_conn' in txt( t_.value ) for t_ in a_.targets )
                and any( isinstance( c_, ast.Call ) and ( call_name( c_ ) or '' ).endswith( 'connector' ) for c_ in ast.walk( a_.value )) ]
    if not creates:
        raise AnalysisError( 'UCMM.request: creation of a route connection ( self.route_conn[target] = client.connector( ... )) not found' )
    def locked_( n_ ):
        return [ w_ for w_ in src.ancestors( n_ ) if isinstance( w_, ast.With ) and any( 'lock' in txt( i_.context_expr ).lower() for i_ in w_.items ) ]
    lookups = [ x_ for x_ in ast.walk( T ) if (( isinstance( x_, ast.Compare ) and any( isinstance( o_, ( ast.In, ast.NotIn )) for o_ in x_.ops ) and any( 'route_conn' in txt( c_ ) for c_ in x_.comparators ))
                                               or ( isinstance( x_, ast.Call ) and isinstance( x_.func, ast.Attribute ) and x_.func.attr == 'get' and 'route_conn' in txt( x_.func.value )))
                and not any( x_ is y_ for y_ in ast.walk( h )) ]
    lk = locked_( creates[0] )
    if lk and any( any( l_ is y_ for y_ in ast.walk( lk[0] )) for l_ in lookups ):
        res.ok( src, creates[0], 'a route connection is looked up and, when absent, created under one lock' )
    else:
        res.bad( src, creates[0], 'UCMM.request: the shared table of route connections is tested and filled without a lock',
                 'two sessions that find no connection create one each; the later store replaces the earlier entry while a third session already waits on the first: after a time-out the handler closes the wrong one and the waiting session is answered with another session\'s reply' )
    LOCALS_ = { t_.id for a_ in creates for t_ in a_.targets if isinstance( t_, ast.Name ) } | { t_.id for a_ in ast.walk( T ) if isinstance( a_, ast.Assign ) and any( l_ is y_ for l_ in lookups for y_ in ast.walk( a_.value )) for t_ in a_.targets if isinstance( t_, ast.Name ) }
    withs = [ w_ for w_ in ast.walk( T ) if isinstance( w_, ast.With ) and any( isinstance( i_.optional_vars, ast.Name ) and i_.optional_vars.id == CONN for i_ in w_.items ) ]
    if withs and all( isinstance( i_.context_expr, ast.Name ) and i_.context_expr.id in LOCALS_ for w_ in withs for i_ in w_.items if isinstance( i_.optional_vars, ast.Name ) and i_.optional_vars.id == CONN ):
        res.ok( src, withs[0], 'the exchange runs on the connection found / created under the lock ( a local ), not on a second look-up of the table' )
    else:
        res.bad( src, withs[0] if withs else aw, 'UCMM.request: the routed exchange looks the connection up in the table again', 'between the creation and the second look-up another session may have replaced the entry: the exchange, and the handler, then deal with different connections' )
    if closes and all( isinstance( c_.func.value, ast.Name ) and c_.func.value.id in LOCALS_ for c_ in closes ) \
       and all( any( isinstance( g_, ast.If ) and any( isinstance( x_, ast.Compare ) and any( isinstance( o_, ast.Is ) for o_ in x_.ops ) and 'route_conn' in txt( x_ ) for x_ in ast.walk( g_.test )) for g_ in src.ancestors( d_ ) if any( g_ is y_ for y_ in ast.walk( h )))
                for d_ in ast.walk( h ) if ( isinstance( d_, ast.Delete ) and any( 'route_conn' in txt( x_ ) for x_ in d_.targets )) or ( isinstance( d_, ast.Call ) and isinstance( d_.func, ast.Attribute ) and d_.func.attr == 'pop' and 'route_conn' in txt( d_.func.value ))):
        res.ok( src, closes[0], 'the handler closes the connection it used and forgets the table entry only if it is still that connection' )
    elif closes:
        res.bad( src, closes[0], 'UCMM.request: the handler closes / forgets whatever connection the table holds now', 'when the entry was replaced meanwhile the healthy replacement is closed and the failed connection stays in use: a session waiting on it is answered with the reply still in flight' )
    # (4) a session that obtains the connection only after its previous holder failed and retired it is not failed for that: inside the
    #     `with`, "is this still the registered connection?" leads back to the look-up ( continue in a loop ), not to an assertion
    stale = [ n_ for w_ in withs for n_ in ast.walk( w_ ) if isinstance( n_, ( ast.If, ast.Assert )) and not any( isinstance( a_, ast.ExceptHandler ) for a_ in src.ancestors( n_ ) if any( a_ is y_ for y_ in ast.walk( w_ ))) and any( isinstance( x_, ast.Compare ) and any( isinstance( o_, ( ast.Is, ast.IsNot )) for o_ in x_.ops ) and 'route_conn' in txt( x_ ) for x_ in ast.walk( n_.test )) ]
    if stale and all( isinstance( n_, ast.If ) and any( isinstance( b_, ast.Continue ) for b_ in n_.body ) and csrc_enclosing_loop( src, n_ ) for n_ in stale ):
        res.ok( src, stale[0], 'a connection found retired after waiting for it is replaced by a fresh one ( the request is not failed for another session\'s time-out )' )
    elif stale:
        res.bad( src, stale[0], 'UCMM.request fails a request because the route connection it waited for was retired meanwhile', 'the session that queued behind a request that timed out is answered with an error ( and terminated ) for a failure that was not its own: with the requests one after the other it is served' )
    else:
        res.bad( src, withs[0] if withs else aw, 'UCMM.request never asks whether the connection it waited for is still the registered one', 'a session blocked on the connection\'s lock while its holder failed goes on to use the closed ( or still busy ) connection' )
    # (4b) ... and the way back to the look-up ( `continue` ) LEAVES `with <route> as conn:` without an exception: client.__exit__ asserts on a
    #      normal exit that no response frame is in progress ( self.engine is None ).  The connection that was retired by its previous
    #      holder - closed in the middle of a response frame - still carries that engine unless client.close() drops it: the session that
    #      merely waited for it would be failed ( status 0x65, closed ) for the other session's time-out
    csrc = ctx.src( 'server/enip/client.py' )
    ex_ = csrc.get( 'client.__exit__' ); cl_ = csrc.get( 'client.close' )
    asserts_engine = any( isinstance( a_, ast.Assert ) and pmatch( a_.test, 'self.engine is None' ) is not None for a_ in ast.walk( ex_ ))
    resets = any( isinstance( a_, ast.Assign ) and any( dotted( t_ ) == 'self.engine' for t_ in a_.targets ) and isinstance( a_.value, ast.Constant ) and a_.value.value is None for a_ in walk_no_nested( cl_ ))
    if stale and asserts_engine:
        if resets:
            res.ok( csrc, cl_, 'client.close() drops the frame engine: leaving the with-block of a retired connection is not an error' )
        else:
            res.bad( csrc, cl_, 'client.close() leaves the response frame engine of the closed connection in place',
                     'UCMM.request leaves `with route as conn:` normally ( continue ) when it finds the connection retired; client.__exit__ then asserts self.engine is None and fails the waiting session for a time-out that was not its own ( when the previous holder timed out in the middle of a response frame )', func='client.close' )
    # (5) the failed connection is retired while it is still HELD: the handler that forgets and closes it lies inside `with <route> as conn:`.
    #     Retired only after the with-block was left ( its lock released ), a session queued for the connection obtains it while it is still
    #     registered - the re-check of (4) passes - sends on it, and reads the late reply to the request that timed out
    held = [ w_ for w_ in withs for t_ in tries for h_ in t_.handlers if drops( h_ ) and any( h_ is y_ for y_ in ast.walk( w_ ))
             and any( isinstance( c_, ast.Call ) and isinstance( c_.func, ast.Attribute ) and c_.func.attr == 'close' for c_ in ast.walk( h_ )) and any( isinstance( r_, ast.Raise ) for r_ in h_.body ) ]
    if held:
        res.ok( src, h, 'the failed route connection is forgotten and closed before its lock is released' )
    else:
        res.bad( src, h, 'UCMM.request: the failed route connection is retired only after the lock on it was released',
                 'between leaving `with route as conn:` and the handler that forgets and closes the connection, a session queued for it takes it over ( still registered ), sends its request on it and receives the late reply to the request that timed out: a reply delivered to another session', func='UCMM.request' )
    if h.type is None or dotted( h.type ) in ( 'Exception', 'BaseException' ):
        res.ok( src, h, 'any failure of the routed exchange deletes the shared route connection and re-raises' )
    else:
        res.bad( src, h, 'except %s' % txt( h.type ), 'every kind of failure of the routed exchange must drop the shared connection' )
    inside = set( id( x ) for b in T.body for x in ast.walk( b ))
    send = [ c for c in ast.walk( fn ) if isinstance( c, ast.Call ) and isinstance( c.func, ast.Attribute ) and c.func.attr == 'unconnected_send' and dotted( c.func.value ) == CONN ]
    checks = [ a for a in ast.walk( fn ) if isinstance( a, ast.Assert ) and RSP in names_in( a.test ) ]
    if not send or not checks:
        res.bad( src, aw, 'routed exchange', 'the routed request must be sent on the route connection and its response checked (present, status 0)' )
        return res
    for node, what in [ ( send[0], 'the request is sent' ), ( aw, 'the response is awaited' ) ] + [ ( a, 'the response is checked ( %s )' % norm_text( a.test )[:40] ) for a in checks ]:
        if id( node ) in inside:
            res.ok( src, node, '%s inside the try that drops the route connection on failure' % what )
        else:
            res.bad( src, node, '%s outside the try that drops the route connection' % what,
                     'when this fails (e.g. no response within the time-out) the shared connection stays in use with a response still in flight: it is delivered as the answer to the NEXT routed request of any session, and every later one is off by one' )
    # both conditions are checked: a response arrived, and its encapsulation status is 0
    if any( pmatch( a.test, RSP ) is not None for a in checks ) and any( pmatch( a.test, '%s.enip.status == 0' % RSP ) is not None for a in checks ):
        res.ok( src, checks[0], 'the response must be present and carry encapsulation status 0' )
    else:
        res.bad( src, checks[0], 'response checks: %s' % [ norm_text( a.test ) for a in checks ], 'a missing response (time-out) and a non-zero encapsulation status must both fail the routed request' )
    return res


# ---------------------------------------------------------------------------------------- C06: E-REPLY (a complete frame that cannot be interpreted still gets one reply)

@rule( 'E-REPLY', props=( 'C06', ), floor=1 )
def e_reply( ctx ):
    """logix.process: the interpretation of a completely received frame (the CIP-level parse of its command and payload) fails into a reply
    with a non-zero encapsulation status - it lies inside a try whose handler stores data.response.enip.status != 0 and returns a truthy
    result instead of re-raising (re-raising makes the connection handler drop the session without any reply)"""
    res = Result( 'E-REPLY' )
    src = ctx.src( LOGIX )
    fn = src.get( 'process' )
    runs = [ c for c in ast.walk( fn ) if isinstance( c, ast.Call ) and isinstance( c.func, ast.Attribute ) and c.func.attr == 'run' and any( k.arg == 'source' for k in c.keywords ) ]
    if len( runs ) != 1:
        raise AnalysisError( 'process: the CIP-level parse ( <machine>.run( source=... )) not found' )
    run = runs[0]
    tries = [ a for a in src.ancestors( run ) if isinstance( a, ast.Try ) and any( run is x for b in a.body for x in ast.walk( b )) ]
    conv = None
    for t in tries:
        for h in t.handlers:
            catches = h.type is None or dotted( h.type ) in ( 'Exception', 'BaseException' )
            stores = [ s for s in ast.walk( h ) if isinstance( s, ast.Assign ) and any(( txt( x ).endswith( 'enip.status' ) or txt( x ).endswith( "['enip.status']" )) for x in s.targets )
                       and try_fold( s.value ) not in ( 0, None ) ]
            if catches and stores and not any( isinstance( x, ast.Raise ) for x in ast.walk( h )):
                conv = t
    if conv is not None:
        res.ok( src, conv, 'a frame whose command / payload cannot be parsed is answered with a non-zero encapsulation status' )
    else:
        h = tries[0].handlers[0] if tries and tries[0].handlers else fn
        res.bad( src, h, 'process: failure of the CIP-level parse of a complete frame is re-raised',
                 'a complete, well-formed encapsulation frame carrying an unsupported command (or a payload the CIP parser rejects) is not answered at all: the exception propagates, the connection handler drops the session, and the client waits for a reply that never comes', func='process' )
    # ---- a response that cannot be FRAMED: the encapsulation header carries the payload length as a UINT; UCMM.request - inside the try that
    # turns failures into a non-zero status - refuses a response payload above 0xFFFF octets ( a reply of 65520..65535 CIP octets still fits
    # its CPF item, the item plus its 16 octets of CPF framing does not: the frame encoder then raises in the connection handler, outside
    # every reply path - no reply at all )
    usrc = ctx.src( UCMM )
    ur = usrc.get( 'UCMM.request' )
    bounds = [ c_ for c_ in ast.walk( ur ) if isinstance( c_, ast.Compare ) and len( c_.ops ) == 1 and is_call_to( c_.left, 'len' ) and 'input' in txt( c_.left )
               and try_fold( c_.comparators[0] ) in ( 0xFFFF, 0x10000, 65535, 65536 ) ]
    conv_try = [ t_ for t_ in ast.walk( ur ) if isinstance( t_, ast.Try ) and any(( h_.type is None or dotted( h_.type ) in ( 'Exception', 'BaseException' )) and not any( isinstance( x_, ast.Raise ) for x_ in ast.walk( h_ )) for h_ in t_.handlers ) ]
    inside_ = [ b_ for b_ in bounds if any( any( b_ is x_ for s_ in t_.body for x_ in ast.walk( s_ )) for t_ in conv_try ) ]
    if inside_:
        res.ok( usrc, inside_[0], 'UCMM.request refuses a response that exceeds the encapsulation length field' )
    else:
        res.bad( usrc, ur, 'UCMM.request hands back a response payload of any length', 'a response whose CIP part is 65520..65535 octets long fits its CPF item but not the UINT length of the encapsulation header: the frame encoder raises in the connection handler and the request gets no reply at all', func='UCMM.request' )
    return res


# ---------------------------------------------------------------------------------------- C15: T-ROUTETEXT (textual route paths)

@rule( 'T-ROUTETEXT', props=( 'C15', 'C12' ), floor=3 )
def t_routetext( ctx ):
    """device.parse_route_path: the '/'-separated components are consumed in pairs through ONE iterator and whatever does not form a complete,
    valid port/link pair is kept as the trailer (then validated or rejected) - no component is dropped; port_link( 'p/l' ) splits at the
    first '/' only"""
    res = Result( 'T-ROUTETEXT' )
    src = ctx.src( DEVICE )
    fn = src.get( 'parse_route_path' )
    M = Matcher()
    it = M.find( fn, '_pls = iter( _rp.split( "/" ))' )
    if it is None:
        raise AnalysisError( 'parse_route_path: iterator over the "/"-separated components not found' )
    # JSON texts: what the `else:` of the decoding try admits ( null / 0 / false / a list: the documented ways to spell "no route path" and a
    # path ) must survive the try's own assertion - a stricter assertion inside the try sends the documented scalars into the handler for
    # NON-JSON text, which slices the already decoded value ( TypeError at start-up for --route-path=0 / false / null )
    RPN = fn.args.args[0].arg
    for t_ in [ t_ for t_ in walk_no_nested( fn ) if isinstance( t_, ast.Try ) and any( is_call_to( c_, 'json.loads' ) for b_ in t_.body for c_ in ast.walk( b_ )) ]:
        def admitted( stmts ):
            out = []
            for s_ in stmts:
                for a_ in ast.walk( s_ ):
                    if isinstance( a_, ast.Assert ):
                        m_ = pmatch( a_.test, 'isinstance( %s, _types )' % RPN )
                        if m_ is not None:
                            ts = m_['_types'].elts if isinstance( m_['_types'], ast.Tuple ) else [ m_['_types'] ]
                            out.append(( a_, { norm_text( x_ ) for x_ in ts } ))
            return out
        inner, outer = admitted( t_.body ), admitted( t_.orelse )
        if not inner or not outer:
            continue
        missing = set().union( *[ o_[1] for o_ in outer ] ) - set().union( *[ i_[1] for i_ in inner ] )
        if missing:
            res.bad( src, inner[0][0], 'parse_route_path: inside the JSON try %s is asserted to be %s, but its else-branch admits %s' % ( RPN, sorted( set().union( *[ i_[1] for i_ in inner ] )), sorted( set().union( *[ o_[1] for o_ in outer ] ))),
                     'the alternatives %s can never reach the else-branch: the documented --route-path=0 / false / null ( "accept only an empty route path" ) fall into the handler for non-JSON text and crash with TypeError' % sorted( missing ))
        else:
            res.ok( src, inner[0][0], 'JSON route paths: every type the else-branch admits passes the assertion inside the try ( %s )' % sorted( set().union( *[ o_[1] for o_ in outer ] )))
    PLS = M.name( '_pls' )
    # zip( it, it ) pairs the components but silently drops an unmatched last one
    zips = [ c for c in ast.walk( fn ) if is_call_to( c, 'zip' ) and sum( 1 for a in c.args if dotted( a ) == PLS ) >= 2 ]
    if zips:
        res.bad( src, zips[0], zips[0], 'zip over the same iterator takes the components in pairs but DROPS an unmatched last component: "1/0/2" then denotes just 1/0 and is accepted, instead of being rejected as malformed' )
    else:
        res.ok( src, it, 'components are not paired with zip( it, it )' )
    pairs = [ c for c in ast.walk( fn ) if pmatch( c, 'list( itertools.islice( %s, 2 ))' % PLS ) is not None ]
    tr = M.find( fn, '_trailer = "/".join( _pl + list( %s ))' % PLS )
    if len( pairs ) >= 2 and tr is not None:
        res.ok( src, pairs[0], 'pairs are taken with islice( it, 2 ); an incomplete or invalid pair and everything after it is re-joined as the trailer' )
    elif not zips:
        raise AnalysisError( 'parse_route_path: pairing idiom not recognised' )
    # the trailer is not discarded
    use = [ c for c in ast.walk( fn ) if isinstance( c, ast.If ) and pmatch( c.test, M.name( '_trailer' ) or 'trailer' ) is not None and any( isinstance( x, ast.Call ) and isinstance( x.func, ast.Attribute ) and x.func.attr == 'append' for b in c.body for x in ast.walk( b )) ]
    if tr is not None and use:
        res.ok( src, use[0], 'a non-empty trailer is appended to the result for validation by the caller\'s trailer parser' )
    elif tr is not None:
        res.bad( src, tr, 'trailer', 'components that do not form port/link pairs must be kept (and then validated or rejected), not dropped' )
    # the walk over the ELEMENTS of a list ( a JSON text, or a list the caller built ) ends when the list ends - not at an element that happens
    # to be null / 0 / "" / false: `next( it, None )` with `while <element>:` takes such an element for the end, what follows it is never
    # looked at and what precedes it is accepted ( '[null]' spells the empty path - the simple-device personality -, '["1/0", null]' the path 1/0 )
    walks = [ c for c in ast.walk( fn ) if is_call_to( c, 'next' ) and len( c.args ) == 2 ]
    for c in walks:
        dflt = c.args[1]
        falsy_marker = isinstance( dflt, ast.Constant ) and not dflt.value
        if falsy_marker:
            res.bad( src, c, 'parse_route_path walks the elements with %s' % norm_text( ast.unparse( c )),
                     'an element that is null ( or 0, "", false ) is taken for the end of the list: the text denotes fewer segments than it spells instead of being refused ( "route_path unhandled" )' )
        else:
            res.ok( src, c, 'the element walk ends at a marker no element can be ( %s )' % norm_text( ast.unparse( dflt )))
    return res


@rule( 'P-ROUTEFIRST', props=( 'C07', 'C03' ), floor=2 )
def p_routefirst( ctx ):
    """Logix.request is what every member of a Multiple Service Packet ( and every connected request ) enters through, whatever Object its path
    names; a request sent alone is taken to that Object directly.  Both ways serve the same Object only if the router hands the WHOLE
    request on first: `target = self.route( data, fail=ROUTE_FALSE ); if target: return target.request( data, addr=addr )` dominates every
    other use of the request in the handler ( service dispatch, attribute lookup ... ) - tested first for its own services, the router
    would serve a Read / Write Tag for a tag that lives in another Object itself ( bundled: error 0x05; alone: served )."""
    res = Result( 'P-ROUTEFIRST' )
    src = ctx.src( LOGIX )
    fn = src.get( 'Logix.request' )
    DATA = fn.args.args[1].arg
    cfg = CFG( fn )
    routes = [ n for n in cfg.nodes if n.kind == 'stmt' and isinstance( n.stmt, ast.Assign ) and is_call_to( n.stmt.value, 'self.route' )
               and n.stmt.value.args and dotted( n.stmt.value.args[0] ) == DATA and isinstance( n.stmt.targets[0], ast.Name ) ]
    if len( routes ) != 1:
        if not routes:
            res.bad( src, fn, 'Logix.request: no routing of the whole request ( self.route( %s ... ))' % DATA, 'a request whose path names another Object is served by the Message Router itself' )
            return res
        raise AnalysisError( 'Logix.request: %d self.route( %s ) calls' % ( len( routes ), DATA ))
    rt = routes[0]
    T = rt.stmt.targets[0].id
    tests = [ n for n in cfg.nodes if n.kind == 'test' and isinstance( n.stmt, ast.If ) and isinstance( n.expr, ast.Name ) and n.expr.id == T ]
    hand = [ n for n in cfg.nodes if n.kind == 'stmt' and isinstance( n.stmt, ast.Return ) and n.stmt.value is not None and pmatch( n.stmt.value, '%s.request( %s, addr=addr )' % ( T, DATA )) is not None ]
    if not tests or not hand or not any( h.stmt in ast.walk( t.stmt ) for t in tests for h in hand ):
        res.bad( src, rt.stmt, 'Logix.request: the routed target does not take the request over ( if %s: return %s.request( %s, addr=addr ))' % ( T, T, DATA ),
                 'a request whose path names another Object must be answered by that Object, with the session address' )
        return res
    res.ok( src, hand[0].stmt, 'the routed target takes the whole request over: return %s.request( %s, addr=addr )' % ( T, DATA ))
    dom = cfg.dominators()
    def is_log( stmt ):
        return isinstance( stmt, ast.Expr ) and isinstance( stmt.value, ast.Call ) and ( call_name( stmt.value ) or '' ).startswith( 'log.' )
    late = []
    for n in cfg.nodes:
        own = n.own()
        if own is None or n is rt or n in hand or n.stmt is None:
            continue
        if n.kind == 'stmt' and is_log( n.stmt ):
            continue
        if any( is_log( a ) for a in src.ancestors( n.stmt )) or any( isinstance( a, ast.If ) and pmatch( a.test, 'log.isEnabledFor( __ )' ) is not None for a in src.ancestors( n.stmt )):
            continue
        if n.kind == 'test' and pmatch( n.expr, 'log.isEnabledFor( __ )' ) is not None:
            continue
        if DATA in names_in( own ) and not cfg.dominates( tests[0], n, dom ):
            late.append( n )
    if late:
        late.sort( key=lambda n: getattr( n.stmt, 'lineno', 0 ))
        res.bad( src, late[0].stmt, 'Logix.request: %s uses the request before it was offered to the Object its path names' % norm_text( ast.unparse( late[0].own() ))[:80],
                 'inside a Multiple Service Packet ( or on a connection ) a Read / Write Tag for a tag bound to another Object is served by the Message Router itself - refused with 0x05 where the same request sent alone is served' )
    else:
        res.ok( src, rt.stmt, 'every use of the request in the handler is dominated by the routing step' )
    return res


@rule( 'P-ONCE', props=( 'C07', 'C08' ), floor=2 )
def p_once( ctx ):
    """a request takes effect at most once, and a reply that cannot be rendered is still a reply.  (1) Connection_Manager.request hands a lone
    request to an Object's request() once: every further hand-over in the handler of that try ( the stand-in re-parsed and answered by the
    Message Router ) is barred by a flag that is False ahead of the try and set immediately before `<target>.request( data.request ... )` -
    `assert not <flag>` ahead of it in the same block, or an `if not <flag>:` around it.  Without the bar, a request whose target failed
    AFTER executing it ( a Multiple Service Packet whose replies cannot be rendered ) is parsed and executed a second time.  (2) The last
    statement of Message_Router.request that renders the reply ( <data>.input = ... self.produce( <data> )) lies in a try whose catch-all
    sets a non-zero status and renders again: what cannot be rendered ( replies beyond the reach of the UINT offsets ) is answered with an
    error status by the Object that executed the members, not taken for an unparsable request by its caller."""
    res = Result( 'P-ONCE' )
    src = ctx.src( DEVICE )
    fn = src.get( 'Connection_Manager.request' )
    first = [ c for c in walk_no_nested( fn ) if isinstance( c, ast.Call ) and isinstance( c.func, ast.Attribute ) and c.func.attr == 'request'
              and isinstance( c.func.value, ast.Name ) and c.args and dotted( c.args[0] ) == 'data.request' ]
    if len( first ) != 1:
        raise AnalysisError( 'Connection_Manager.request: %d dispatches <target>.request( data.request ... )' % len( first ))
    st = stmt_of( src, first[0] )
    blk = None
    par = src.parent.get( st )
    for fld in ( 'body', 'orelse', 'finalbody' ):
        if st in getattr( par, fld, [] ):
            blk = getattr( par, fld )
    tries = [ a for a in src.ancestors( first[0] ) if isinstance( a, ast.Try ) and any( first[0] is x for b in a.body for x in ast.walk( b )) ]
    if blk is None or not tries:
        raise AnalysisError( 'Connection_Manager.request: block / try of the dispatch not found' )
    again = [ c for t in tries for h in t.handlers for c in ast.walk( h ) if isinstance( c, ast.Call ) and isinstance( c.func, ast.Attribute ) and c.func.attr == 'request'
              and isinstance( c.func.value, ast.Name ) and c.args ]
    if not again:
        res.ok( src, first[0], 'Connection_Manager.request: the handler of the dispatch hands nothing to an Object a second time' )
    else:
        i = blk.index( st )
        flag = None
        if i > 0 and isinstance( blk[i - 1], ast.Assign ) and isinstance( blk[i - 1].targets[0], ast.Name ) and try_fold( blk[i - 1].value ) is True:
            flag = blk[i - 1].targets[0].id
        inits = [ a for a in walk_no_nested( fn ) if flag and isinstance( a, ast.Assign ) and isinstance( a.targets[0], ast.Name ) and a.targets[0].id == flag and try_fold( a.value, default=None ) is False
                  and a.lineno < tries[-1].lineno ]
        others = [ a for a in ast.walk( fn ) if flag and isinstance( a, ( ast.Assign, ast.AugAssign )) and any( isinstance( t, ast.Name ) and t.id == flag for t in ast.walk( a.targets[0] if isinstance( a, ast.Assign ) else a.target ))
                   and a is not blk[i - 1] and a not in inits ]
        if flag is None or not inits or others:
            res.bad( src, first[0], 'Connection_Manager.request: nothing records that the request was handed to its target Object',
                     'when the target fails after executing the request ( a Multiple Service Packet whose replies cannot be rendered ), the handler parses it again and hands it to the Message Router: every write in it is executed twice', func='Connection_Manager.request' )
        else:
            for c in again:
                cs = stmt_of( src, c )
                cpar = src.parent.get( cs )
                cblk = next(( getattr( cpar, f_ ) for f_ in ( 'body', 'orelse', 'finalbody' ) if cs in getattr( cpar, f_, [] )), [] )
                barred = any( isinstance( b, ast.Assert ) and pmatch( b.test, 'not %s' % flag ) is not None for b in cblk[:cblk.index( cs )] ) if cs in cblk else False
                barred = barred or any( isinstance( a, ast.If ) and pmatch( a.test, 'not %s' % flag ) is not None and any( cs is x for b in a.body for x in ast.walk( b )) for a in src.ancestors( cs ))
                if barred:
                    res.ok( src, c, 'Connection_Manager.request: %s is barred once the request was handed to its target ( %s )' % ( norm_text( ast.unparse( c ))[:50], flag ))
                else:
                    res.bad( src, c, 'Connection_Manager.request: %s may run after the request was already handed to its target Object' % norm_text( ast.unparse( c ))[:60],
                             'a request whose target failed after executing it is executed a second time ( a write takes effect twice; the caller is told "service not supported" )', func='Connection_Manager.request' )
    # (2) the final rendering of Message_Router.request
    mr = src.get( 'Message_Router.request' )
    DATA = mr.args.args[1].arg
    rend = [ a for a in walk_no_nested( mr ) if isinstance( a, ast.Assign ) and dotted( a.targets[0] ) == DATA + '.input'
             and any( isinstance( c_, ast.Call ) and isinstance( c_.func, ast.Attribute ) and c_.func.attr == 'produce' for c_ in ast.walk( a.value )) ]
    if not rend:
        raise AnalysisError( 'Message_Router.request: %s.input = ... produce( ... ) not found' % DATA )
    outside = [ a for a in rend if not any( isinstance( h, ast.ExceptHandler ) for h in src.ancestors( a )) ]
    for a in outside:
        t = [ t_ for t_ in src.ancestors( a ) if isinstance( t_, ast.Try ) and any( a is x for b in t_.body for x in ast.walk( b )) ]
        ok = False
        for t_ in t[:1]:
            for h in t_.handlers:
                if h.type is not None and dotted( h.type ) not in ( 'Exception', 'BaseException' ):
                    continue
                sets = [ b for b in ast.walk( h ) if isinstance( b, ast.Assign ) and dotted( b.targets[0] ) == DATA + '.status' and try_fold( b.value, default=0 ) not in ( 0, 6 ) ]
                rer = [ b for b in ast.walk( h ) if isinstance( b, ast.Assign ) and dotted( b.targets[0] ) == DATA + '.input' ]
                if sets and rer and not any( isinstance( x, ast.Raise ) for x in ast.walk( h )) and sets[0].lineno < rer[0].lineno:
                    ok = True
        if ok:
            res.ok( src, a, 'Message_Router.request: a reply that cannot be rendered is answered with an error status by the router itself' )
        else:
            res.bad( src, a, 'Message_Router.request: %s is not protected' % norm_text( ast.unparse( a ))[:70],
                     'the replies of an executed Multiple Service Packet that do not fit its UINT offsets raise out of request(): the caller takes the request for unparsable, although every member - writes included - has been executed', func='Message_Router.request' )
    return res


@rule( 'U-NULLADDR', props=( 'C08', 'C06' ), floor=1 )
def u_nulladdr( ctx ):
    """UCMM.request: what is not a connected request ( address item of length 0 ) is an unconnected one only if its address item IS the NULL
    address item: the unconnected branch asserts `...CPF.item[0].type_id == 0` ahead of handing the carried request to any Object.  An item
    of another known type and length 0 ( 0x00A1, 0x0001, 0x000C, 0x0100 ) otherwise has its request executed - a write takes effect - before
    rendering the reply fails on the address item: the client gets status 0x08 and loses its session, the tag has changed."""
    res = Result( 'U-NULLADDR' )
    src = ctx.src( UCMM )
    fn = src.get( 'UCMM.request' )
    sel = [ i for i in ast.walk( fn ) if isinstance( i, ast.If ) and pmatch( i.test, '_x.CPF.item[0].length > 0' ) is not None and i.orelse ]
    if len( sel ) != 1:
        raise AnalysisError( 'UCMM.request: the connected / unconnected selection ( ...CPF.item[0].length > 0 ) not found' )
    blk = sel[0].orelse
    first_req = next(( k for k, st in enumerate( blk ) if any( isinstance( c, ast.Call ) and isinstance( c.func, ast.Attribute ) and c.func.attr in ( 'request', 'unconnected_send' ) for c in ast.walk( st ))), len( blk ))
    asserts = [ st for st in blk[:first_req] if isinstance( st, ast.Assert ) and ( pmatch( st.test, '_x.CPF.item[0].type_id == 0' ) is not None or pmatch( st.test, 'not _x.CPF.item[0].type_id' ) is not None ) ]
    if asserts:
        res.ok( src, asserts[0], 'the unconnected branch requires the NULL address item ( type 0 ) before anything is handed to an Object' )
    else:
        res.bad( src, sel[0], 'UCMM.request: the unconnected branch does not look at the type of the address item',
                 'a SendRRData whose address item is of another known type with length 0 has its request executed ( a Write Tag takes effect ) and only then fails when the reply is rendered: status 0x08, session dropped, tag changed' )
    return res


@rule( 'D-NOSUCH', props=( 'C05', 'C07' ), floor=1 )
def d_nosuch( ctx ):
    """Message_Router.route answers None for "the path names this Object itself"; an Object that does not exist must not look the same: the
    result of lookup( *ids ) is required to be an Object ( assert ... is not None, or a test that raises / returns False ) before it is
    returned.  Otherwise a Multiple Service Packet addressed to a class / instance that does not exist is executed by the router itself -
    its writes take effect and it is answered 0x00 - where a path naming an unknown tag is refused with 0x16."""
    res = Result( 'D-NOSUCH' )
    src = ctx.src( DEVICE )
    fn = src.get( 'Message_Router.route' )
    looks = [ a for a in ast.walk( fn ) if isinstance( a, ast.Assign ) and is_call_to( a.value, 'lookup' ) and isinstance( a.targets[0], ast.Name ) ]
    if len( looks ) != 1:
        raise AnalysisError( 'Message_Router.route: %d lookup( ... ) assignments' % len( looks ))
    T = looks[0].targets[0].id
    par = src.parent.get( looks[0] )
    blk = next(( getattr( par, f_ ) for f_ in ( 'body', 'orelse', 'finalbody' ) if looks[0] in getattr( par, f_, [] )), None )
    if blk is None:
        raise AnalysisError( 'Message_Router.route: block of the lookup not found' )
    after = blk[blk.index( looks[0] ) + 1:]
    def requires_( st ):
        if isinstance( st, ast.Assert ):
            return pmatch( st.test, '%s is not None' % T ) is not None or pmatch( st.test, T ) is not None
        if isinstance( st, ast.If ) and ( pmatch( st.test, '%s is None' % T ) is not None or pmatch( st.test, 'not %s' % T ) is not None ):
            return any( isinstance( b, ast.Raise ) or ( isinstance( b, ast.Return ) and try_fold( b.value, default=None ) is False ) for b in st.body )
        return False
    in_try = any( isinstance( a, ast.Try ) and any( looks[0] is y for b in a.body for y in ast.walk( b )) for a in src.ancestors( looks[0] ))
    req = [ st for st in after if requires_( st ) ]
    if req and in_try:
        res.ok( src, req[0], 'Message_Router.route: an Object that does not exist is an invalid route ( %s ), not "this Object"' % norm_text( ast.unparse( req[0] ))[:60] )
    else:
        res.bad( src, looks[0], 'Message_Router.route: %s = lookup( ... ) is returned as it is' % T,
                 'lookup answers None for an Object that does not exist, and route() answers None for "the path names me": a Multiple Service Packet addressed to @0x99/1 or @2/7 is executed by the Message Router itself ( status 0x00, its Write Tag applied ) instead of being refused with 0x16 like one addressed to an unknown tag' )
    return res


@rule( 'S-PHASE', props=( 'C03', 'C04', 'C05', 'C07' ), floor=4 )
def s_phase( ctx ):
    """a request handler turns the request into the reply in place: `data.service |= 0x80`.  Behind that statement ( on the CFG: dominated
    by it ) the service is a REPLY code: a test `data.service == self.<X>_REQ` there is never true - whatever it guards ( a validation
    assert, say the refusal of a byte offset inside an element ) is dead code and the request it should refuse is served.  Comparisons
    of data.service behind the reply bit are examined in Object / Message_Router / Logix / Connection_Manager .request."""
    res = Result( 'S-PHASE' )
    for rel, qn in (( DEVICE, 'Object.request' ), ( DEVICE, 'Message_Router.request' ), ( LOGIX, 'Logix.request' ), ( DEVICE, 'Connection_Manager.request' )):
        src = ctx.src( rel )
        fn = src.get( qn )
        DATA = fn.args.args[1].arg
        cfg = CFG( fn )
        sets = [ n for n in cfg.nodes if n.kind == 'stmt' and isinstance( n.stmt, ast.AugAssign ) and isinstance( n.stmt.op, ast.BitOr ) and dotted( n.stmt.target ) == DATA + '.service' and try_fold( n.stmt.value ) == 0x80 ]
        if not sets:
            res.ok( src, fn, '%s: no in-place reply bit on %s.service' % ( qn, DATA ), nontrivial=False )
            continue
        dom = cfg.dominators()
        dead = []
        seen = 0
        for n in cfg.nodes:
            own = n.own()
            if own is None or n in sets:
                continue
            for c in ast.walk( own ):
                if isinstance( c, ast.Compare ) and any( dotted( x ) == DATA + '.service' for x in [ c.left ] + c.comparators ):
                    consts = [ dotted( x ) or '' for x in [ c.left ] + c.comparators for x in ( x.elts if isinstance( x, ( ast.Tuple, ast.List, ast.Set )) else [ x ] ) ]
                    if any( cfg.dominates( s_, n, dom ) for s_ in sets ):
                        seen += 1
                        reqs = [ k for k in consts if k.endswith( '_REQ' ) ]
                        if reqs:
                            dead.append(( n, c, reqs ))
        if dead:
            n, c, reqs = dead[0]
            res.bad( src, c, '%s: %s is tested behind %s.service |= 0x80' % ( qn, norm_text( ast.unparse( c ))[:70], DATA ),
                     'the service is a reply code by then: the test against %s is never true and what it guards never runs ( e.g. the refusal of a Read Tag Fragmented offset inside an element: the continuation of a string array is answered, with success, from the wrong element )' % ', '.join( reqs ), func=qn )
        else:
            res.ok( src, sets[0].stmt, '%s: %d comparisons of %s.service behind the reply bit, none against a request code' % ( qn, seen, DATA ))
    return res



@rule( 'K-DIRECTION', props=( 'C14', 'C01' ), floor=2 )
def k_direction( ctx ):
    """the two directions of a connection keep their own parameters: in the Connection Manager's handlers and producer an assignment to a
    field of one direction ( <x>.O_T.<f> / <x>.T_O.<f> ) takes its value from the same direction, from both ( the harmonised size class ) or
    from neither - never from the other direction alone ( fo.T_O.API = fo.O_T.RPI reports the O->T interval as the T->O Actual Packet
    Interval to an originator that asked for different ones )."""
    res = Result( 'K-DIRECTION' )
    src = ctx.src( DEVICE )
    n = 0
    def dirs_( e ):
        out = set()
        for x in ast.walk( e ):
            d = dotted( x ) if isinstance( x, ( ast.Attribute, ast.Name )) else None
            for part in ( d or '' ).split( '.' ):
                if part in ( 'O_T', 'T_O' ):
                    out.add( part )
            if isinstance( x, ast.Constant ) and isinstance( x.value, str ):
                for part in x.value.split( '.' ):
                    if part in ( 'O_T', 'T_O' ):
                        out.add( part )
        return out
    cm = src.get( 'Connection_Manager' )
    for a in ast.walk( cm ):
        if not isinstance( a, ast.Assign ):
            continue
        for tg in a.targets:
            td = dirs_( tg )
            if len( td ) != 1:
                continue
            n += 1
            vd = dirs_( a.value )
            if vd and not ( td & vd ):
                res.bad( src, a, 'Connection_Manager: %s' % norm_text( ast.unparse( a ))[:80],
                         'a parameter of the %s direction is taken from the %s direction alone: the reply reports the other direction\'s value ( an originator that asked for different O->T and T->O intervals / sizes is told the wrong one )' % ( sorted( td )[0], sorted( vd )[0] ),
                         func=src.qualname_of( a ))
            else:
                res.ok( src, a, '%s: a %s field from %s' % ( src.qualname_of( a ), sorted( td )[0], ' and '.join( sorted( vd )) or 'direction-neutral values' ))
    if n < 2:
        raise AnalysisError( 'K-DIRECTION: direction-specific assignments not found (%d)' % n )
    return res


@rule( 'K-RELEASE', props=( 'C08', 'C02', 'C14' ), floor=1 )
def k_release( ctx ):
    """however a TCP session ends - EOF between frames, EOF INSIDE a frame, a request that raised, the simulator ending it with an error status -
    the processor is told so ( enip_process( addr, data=<empty> )) and releases what it holds for the peer ( its Forward Opens ): the call sits
    in the `finally` of the connection handler - the one place every way out passes - and cannot keep the connection from being closed."""
    res = Result( 'K-RELEASE' )
    src = ctx.src( MAIN )
    fn = src.get( 'enip_srv_tcp' )
    closers = [ t for t in ast.walk( fn ) if isinstance( t, ast.Try ) and any( isinstance( c, ast.Call ) and isinstance( c.func, ast.Attribute ) and c.func.attr == 'close' and dotted( c.func.value ) == fn.args.args[0].arg
                                                                               for b in t.finalbody for c in ast.walk( b )) ]
    if not closers:
        raise AnalysisError( 'enip_srv_tcp: the try whose finally closes the connection not found' )
    t = closers[0]
    rel = [ c for b in t.finalbody for c in ast.walk( b ) if is_call_to( c, 'enip_process' )
            and any( k.arg == 'data' and is_call_to( k.value, 'dotdict', 'cpppo.dotdict', 'dict' ) and not k.value.args and not k.value.keywords for k in c.keywords ) ]
    if not rel:
        res.bad( src, t, 'enip_srv_tcp: the session\'s state is released ( enip_process( addr, data=dotdict() )) on some ways out only, not in the finally',
                 'a session that ends inside a frame, or that the simulator ends with an error status, leaves its Forward Opens in Connection_Manager.forwards for the life of the process: entries accumulate, and a later connection from the same address and port inherits the connection' )
        return res
    guarded = all( any( isinstance( a, ast.Try ) and any( c is x for b_ in a.body for x in ast.walk( b_ )) and any( h.type is None or dotted( h.type ) in ( 'Exception', 'BaseException' ) for h in a.handlers )
                        and not any( isinstance( r, ast.Raise ) for h in a.handlers for r in ast.walk( h )) for a in src.ancestors( c )) for c in rel )
    if guarded:
        res.ok( src, rel[0], 'every way out of a TCP session tells the processor ( empty request ) - in the finally, absorbed so that the connection is still closed' )
    else:
        res.bad( src, rel[0], 'enip_srv_tcp: the release in the finally may raise ahead of conn.close()', 'a failing clean-up must not keep the connection open or its statistics entry alive' )
    return res


@rule( 'D-ROUTE', props=( 'C05', 'C03' ), floor=1 )
def d_route( ctx ):
    """Message_Router.route: "this request is for me" means class AND instance are this Object's - any other address is looked up, and an
    address nothing lives at is refused ( False / the exception ), never taken for one's own.  By value: the body of route run on five
    addresses with stand-ins for resolve and lookup."""
    res = Result( 'D-ROUTE' )
    src = ctx.src( DEVICE )
    fn = src.get( 'Message_Router.route' )
    DATA = fn.args.args[1].arg
    FAIL = fn.args.args[2].arg if len( fn.args.args ) > 2 else 'fail'
    body = [ st for st in fn.body if not ( isinstance( st, ast.Expr ) and isinstance( st.value, ast.Constant )) ]
    table = { ( 2, 7 ): None, ( 2, 9 ): 'OBJECT 2/9', ( 0x99, 1 ): 'OBJECT 0x99/1', ( 0x77, 1 ): None }
    def route( ids ):
        env = { DATA: ( { 'path': 'P' } if ids is not None else {} ), 'resolve': lambda p_, **kw: ids, 'device.resolve': lambda p_, **kw: ids, 'lookup': lambda *a: table.get( tuple( a[:2] )),
                'device.lookup': lambda *a: table.get( tuple( a[:2] )), 'self.class_id': 2, 'self.instance_id': 1, FAIL: 'FALSE', 'self.ROUTE_FALSE': 'FALSE', 'self.ROUTE_RAISE': 'RAISE' }
        try:
            out = run_block( body, env, ignore_calls=( 'log', ))
        except NoFold as exc:
            raise AnalysisError( 'Message_Router.route: not a decision fragment: %s' % exc )
        return out.value if out.kind == 'return' else out.kind
    cells = (( None, None ), (( 2, 1, None ), None ), (( 2, 7, None ), False ), (( 2, 9, None ), 'OBJECT 2/9' ), (( 0x99, 1, None ), 'OBJECT 0x99/1' ), (( 0x77, 1, None ), False ))
    wrong = [ ( ids, route( ids ), want ) for ids, want in cells ]
    wrong = [ w for w in wrong if w[1] != w[2] and not ( w[2] is None and w[1] is None ) ]
    res.cells = len( cells )
    if wrong:
        ids, got, want = wrong[0]
        res.bad( src, fn, 'Message_Router.route of a request addressed to %r answers %r, specified %r' % ( ids[:2] if ids else None, got, want ),
                 'a Multiple Service Packet addressed to an instance of the router\'s class that does not exist ( @2/7 ) is carried out by THIS router: its embedded writes are applied and answered with success, where a request naming an unknown Object must be refused without side effects' )
    else:
        res.ok( src, fn, 'route: own ( class, instance ) -> None, another Object -> that Object, nothing there -> refused ( %d addresses )' % len( cells ))
    return res
