"""C11: regular-expression machines - the structural clauses of the translation state.from_regex, of the transition lookup
state.__getitem__ and of the acceptance condition dfa_base.terminal.  Each clause is a necessary condition of "accepts exactly the
expression's language"; the language equivalence itself (a statement about the OUTPUT of the translation for every expression) is not
decided here."""
import ast, itertools

from .core import ( rule, Result, AnalysisError, Matcher, dotted, call_name, is_call_to, names_in, attrs_in, walk_no_nested,
                    pmatch, pfind, txt, norm_text )
from .fold import try_fold
from .cfg import CFG
from .rules_history import _k3, U

AUTOMATA = 'automata.py'


@rule( 'X-LOOKUP', props=( 'C11', ), floor=4 )
def x_lookup( ctx ):
    """state.__getitem__: most specific first - the exact (encoded) symbol, then the recognizer predicates, then the ANY wildcard (only when
    an input symbol is present), finally the no-input NON transition"""
    res = Result( 'X-LOOKUP' )
    src = ctx.src( AUTOMATA )
    fn = src.get( 'state.__getitem__' )
    cfg = CFG( fn )
    def lookups( keypat ):
        out = []
        for n in cfg.nodes:
            own = n.own()
            if own is None:
                continue
            for c in ast.walk( own ):
                if isinstance( c, ast.Call ) and isinstance( c.func, ast.Attribute ) and c.func.attr == '__getitem__' and is_call_to( c.func.value, 'super' ) and c.args \
                   and pmatch( c.args[0], keypat ) is not None:
                    out.append( n )
        return out
    M = Matcher()
    enc = M.find( fn, '_enc = self.encode( _inp )' )
    if enc is None or dotted( M.b['_inp'] ) != fn.args.args[1].arg:
        res.bad( src, fn, 'state.__getitem__: encoding of the input symbol', 'the transition table is keyed by the ENCODED symbol: the lookup must encode its argument first' )
        return res
    ENC = M.name( '_enc' )
    exact = lookups( ENC ); anyl = lookups( 'self.ANY' ); nonl = lookups( 'self.NON' )
    if not exact or not anyl or not nonl:
        res.bad( src, fn, 'lookups: exact %d, ANY %d, NON %d' % ( len( exact ), len( anyl ), len( nonl )),
                 'a symbol must be looked up as itself, then through the ANY wildcard, then through the no-input NON transition' )
        return res
    res.ok( src, exact[0].stmt, 'exact lookup uses the encoded symbol' )
    # the table is consulted with the encoded symbol and the two sentinels only: a look-up by the raw argument finds, for the sentinel True
    # ( == 1, same hash ), the transition stored for the symbol 1 - from_regex asks states[pre].get( True, True ) to decide whether an
    # explicit non-transition is redundant, and would leave excluded symbols to the live wildcard
    raw = [ n for n in lookups( '_k' ) if n not in exact and n not in anyl and n not in nonl ]
    if raw:
        res.bad( src, raw[0].stmt, 'state.__getitem__: the transition table is consulted with a key other than the encoded symbol / ANY / NON ( %s )' % norm_text( ast.unparse( raw[0].own() ))[:70],
                 "True == 1 and None / True are the sentinels of the wildcard and no-input transitions: looked up as they come, a sentinel finds the transition of the symbol 1 ( b'\\x01' ), and an unencoded symbol finds nothing or the wrong entry" )
    else:
        res.ok( src, exact[0].stmt, 'the table is consulted with the encoded symbol, self.ANY and self.NON only' )
    # order: every path to the ANY lookup has tried the exact key; every path to the NON lookup has tried the exact key
    if all( cfg.must_pass( cfg.entry, a, exact, correlated=False ) for a in anyl ) and all( cfg.must_pass( cfg.entry, z, exact, correlated=False ) for z in nonl ):
        res.ok( src, anyl[0].stmt, 'the wildcard and the no-input transition are consulted only after the exact symbol failed' )
    else:
        res.bad( src, anyl[0].stmt, 'lookup order', 'an explicit transition on a symbol must take precedence over the wildcard: otherwise `a|.b`-like expressions take the wrong branch' )
    # the exact lookup's failure (KeyError) is what leads on: the exact lookup is in a try whose KeyError handler falls through
    tr = [ a for a in src.ancestors( exact[0].stmt ) if isinstance( a, ast.Try ) ]
    if tr and any( dotted( h.type ) == 'KeyError' and not any( isinstance( x, ( ast.Raise, ast.Return )) for x in ast.walk( h )) for h in tr[0].handlers ):
        res.ok( src, tr[0], 'a missing exact transition (KeyError) falls through to the less specific lookups' )
    else:
        res.bad( src, exact[0].stmt, 'exact lookup failure', 'a missing exact transition must fall through to recognizers / wildcard / no-input' )
    # ANY only with an input symbol
    guards = [ n for n in cfg.nodes if n.kind == 'test' and ( pmatch( n.expr, '%s is not self.NON' % ENC ) is not None or pmatch( n.expr, '%s is not None' % ENC ) is not None ) ]
    if guards and all( cfg.must_pass( cfg.entry, a, [ m for g in guards for m, l in cfg.succ[g] if l == 'true' ], correlated=False ) for a in anyl ):
        res.ok( src, guards[0].stmt, 'the ANY wildcard (and the recognizers) apply only when an input symbol is present' )
    else:
        res.bad( src, anyl[0].stmt, 'wildcard without input', 'the wildcard must not fire on "no input available": the machine would advance without consuming a symbol' )
    # recognizers before ANY
    rec = [ n for n in cfg.nodes if n.kind == 'for' and pmatch( n.expr, 'self.recognizers' ) is not None ]
    if rec:
        if all( cfg.must_pass( cfg.entry, a, rec, correlated=False ) for a in anyl ):
            res.ok( src, rec[0].stmt, 'recognizer predicates are consulted before the wildcard' )
        else:
            res.bad( src, rec[0].stmt, 'recognizers after wildcard', 'predicate transitions are more specific than the wildcard and must be tried first' )
    # NON is the last resort and its KeyError propagates (no transition)
    last = nonl[-1]
    if isinstance( last.stmt, ast.Return ) and not [ a for a in src.ancestors( last.stmt ) if isinstance( a, ast.Try ) ]:
        res.ok( src, last.stmt, 'the no-input lookup is the last resort; its KeyError means "no transition"' )
    else:
        res.bad( src, last.stmt, 'NON lookup', 'the no-input lookup must be the final, unguarded lookup' )
    return res


@rule( 'X-FROMREGEX', props=( 'C11', ), floor=8 )
def x_fromregex( ctx ):
    """state.from_regex: terminal flags from fsm.finals; dead = loopback and not terminal and not initial (decision table); dead states are not
    created, transitions out of them skipped, transitions into them become explicit non-transitions; '.' becomes the ANY wildcard and is
    linked first; the machine starts in a non-consuming copy of the initial state"""
    res = Result( 'X-FROMREGEX' )
    src = ctx.src( AUTOMATA ).inlined( 'state.from_regex' )		# state creation moved into a small nested helper is looked at where it is called
    fn = src.get( 'state.from_regex' )
    loops = [ f for f in fn.body if isinstance( f, ast.For ) and pmatch( f.iter, 'machine.map.items()' ) is not None and isinstance( f.target, ast.Tuple ) ]
    # pass 1 creates the states ( cls( ... )), pass 2 - the next walk over the map behind it - links them; walks ahead of pass 1 only prepare
    creating = [ f for f in loops if any( isinstance( c, ast.Call ) and dotted( c.func ) == 'cls' for c in ast.walk( f )) ]
    if not creating or loops.index( creating[0] ) + 1 >= len( loops ):
        raise AnalysisError( 'from_regex: the two passes over machine.map.items() not found (%d)' % len( loops ))
    l1, l2 = creating[0], loops[loops.index( creating[0] ) + 1]
    # ---- which fsm states get a state of their own, BY VALUE: everything up to and including pass 1 is run on two small automata - a chain
    #      0 -a-> 1 -b-> 2 -c-> 3 ( final ) with greenery's oblivion state 4, and a loop ( a b )+ - with a recording stand-in for the state class.
    #      Exactly the oblivion state is dropped: a state two or more steps ahead of a final one is as alive as its successor
    from .fold import run_block, Record, NoFold as _NoFold
    pre_ = [ st for st in fn.body[:fn.body.index( l1 ) + 1] if not isinstance( st, ast.FunctionDef ) and any( 'machine.map' in txt( x ) or 'machine.finals' in txt( x ) for x in ast.walk( st ) if isinstance( x, ast.Attribute ))
             or ( isinstance( st, ast.Assign ) and isinstance( st.value, ( ast.Dict, ast.Call, ast.Set )) and not names_in( st.value ) - { 'set', 'dict' } ) ]
    samples = (( 'abc', { 0: { 'a': 1, None: 4 }, 1: { 'b': 2, None: 4 }, 2: { 'c': 3, None: 4 }, 3: { None: 4 }, 4: { None: 4 } }, { 3 }, { 0, 1, 2, 3 } ),
               ( '(ab)+', { 0: { 'a': 1, None: 3 }, 1: { 'b': 2, None: 3 }, 2: { 'a': 1, None: 3 }, 3: { None: 3 } }, { 2 }, { 0, 1, 2 } ),
               ( 'a*', { 0: { 'a': 0, None: 1 }, 1: { None: 1 } }, { 0 }, { 0 } ))
    wrong_ = []
    for name_, map_, finals_, want_ in samples:
        made = []
        env_ = { 'machine': Record( map=map_, finals=finals_, initial=0 ), 'cls': lambda *a, **kw: ( made.append(( a + ( kw.get( 'name' ), ))[0] ) or Record( **kw )), 'kwds': {}, 'str': str, 'all': all, 'any': any, 'set': set, 'dict': dict }
        from .fold import helper_calls as _hc
        env_.update( _hc( ast.Module( body=[ f_ for f_ in fn.body if isinstance( f_, ast.FunctionDef ) ], type_ignores=[] ), ignore_calls=( 'log', ), base_env=env_ ))
        try:
            run_block( pre_, env_, ignore_calls=( 'log', ))
        except _NoFold as exc:
            raise AnalysisError( 'from_regex: the creation of the states is not a decision fragment: %s' % exc )
        regd = [ v_ for k_, v_ in env_.items() if isinstance( v_, dict ) and v_ and all( isinstance( x_, Record ) for x_ in v_.values()) ]
        got_ = set( regd[0] ) if regd else set()
        res.cells += 1
        if got_ != want_:
            wrong_.append(( name_, sorted( got_ ), sorted( want_ )))
    if wrong_:
        res.bad( src, l1, 'from_regex keeps the fsm states %s of the automaton of %r, specified %s' % ( wrong_[0][1], wrong_[0][0], wrong_[0][2] ),
                 'a live state is classed dead ( or a dead one live ): transitions into it become non-transitions, and every expression whose shortest sentence is three or more symbols long refuses its own sentences ( abc, a{3}, \\d\\d\\d raise NonTerminal with nothing consumed )' )
    else:
        res.ok( src, l1, 'exactly the oblivion state of the automaton is dropped ( 3 automata )' )
    PRE, TAB = ( e.id for e in l1.target.elts )
    M = Matcher()
    # ---- pass 1
    node = M.find( l1, '_node = cls( str( %s ), terminal=_t, **kwds )' % PRE )
    if node is None:
        raise AnalysisError( 'from_regex: creation of the state for each fsm state not found' )
    if isinstance( M.b['_t'], ast.Name ):
        TERM = M.name( '_t' )
        tdef = [ s.value for s in l1.body if isinstance( s, ast.Assign ) and dotted( s.targets[0] ) == TERM ]
    else:
        TERM = norm_text( M.b['_t'] ); tdef = [ M.b['_t'] ]		# the membership test written in place
    if tdef and pmatch( tdef[0], '%s in machine.finals' % PRE ) is not None:
        res.ok( src, node, 'a state is terminal iff the fsm state is in fsm.finals' )
    else:
        res.bad( src, node, 'terminal = %s' % ( norm_text( tdef[0] ) if tdef else TERM ), 'acceptance must be exactly membership in the fsm\'s final states' )
    reg = [ s for s in ast.walk( l1 ) if isinstance( s, ast.Assign ) and pmatch( s.targets[0], '_states[%s]' % PRE ) is not None and dotted( s.value ) == M.name( '_node' ) ]
    if not reg:
        raise AnalysisError( 'from_regex: registration states[pre] = node not found' )
    STATES = dotted( reg[0].targets[0].value )
    guard = [ a for a in src.ancestors( reg[0] ) if isinstance( a, ast.If ) and any( a is x for x in ast.walk( l1 )) ]
    # decision table for "registered": over loopback x terminal x initial
    defs = { dotted( s.targets[0] ): s.value for s in l1.body if isinstance( s, ast.Assign ) and isinstance( s.targets[0], ast.Name ) }
    def resolve( e, env, depth=0 ):
        """three-valued evaluation with locals of the loop body expanded"""
        class Sub( ast.NodeTransformer ):
            def visit_Name( self, n ):
                if n.id in env or depth > 4:
                    return n
                if n.id in defs and n.id not in ( PRE, TAB ):
                    return self.visit( ast.parse( ast.unparse( defs[n.id] ), mode='eval' ).body )
                return n
        return Sub().visit( ast.parse( ast.unparse( e ), mode='eval' ).body )
    LOOP = [ k for k, v in defs.items() if is_call_to( v, 'all' ) and pmatch( v, 'all( _d == %s for _d in %s.values() )' % ( PRE, TAB )) is not None ]
    INIT = [ k for k, v in defs.items() if pmatch( v, '%s == machine.initial' % PRE ) is not None or pmatch( v, 'machine.initial == %s' % PRE ) is not None ]
    if not LOOP or not INIT or not guard:
        res.bad( src, l1, 'dead-state detection', 'a dead state is a non-terminal, non-initial fsm state all of whose transitions loop back to itself; only the other states may be created' )
    else:
        wrong = []
        for lb, tm, ini in itertools.product(( True, False ), repeat=3 ):
            env = { LOOP[0]: lb, TERM: tm, INIT[0]: ini }
            for k_, v_ in defs.items():			# every local that names "this fsm state is final"
                if pmatch( v_, '%s in machine.finals' % PRE ) is not None:
                    env[k_] = tm
            # registered iff all enclosing guards take the branch holding the registration
            registered = True
            cur = reg[0]
            for g in guard:
                v = _k3( resolve( g.test, env ), env )
                if v is U:
                    raise AnalysisError( 'from_regex: registration guard outside the modelled subset: %s' % norm_text( g.test ))
                in_body = any( cur is x for b in g.body for x in ast.walk( b ))
                if bool( v ) != in_body:
                    registered = False
                cur = g
            want = not ( lb and not tm and not ini )
            if registered != want:
                wrong.append(( lb, tm, ini, registered ))
        res.cells += 8
        if wrong:
            lb, tm, ini, r = wrong[0]
            res.bad( src, guard[0], 'state created for loopback=%s terminal=%s initial=%s: %s (%d of 8 cells differ)' % ( lb, tm, ini, r, len( wrong )),
                     'exactly the dead states (loopback and not terminal and not initial) must be left out: a dead state that is kept absorbs impossible input instead of rejecting it; a live state that is dropped rejects sentences of the language' )
        else:
            res.ok( src, guard[0], 'a state is created iff not ( loopback and not terminal and not initial ): 8-cell table agrees' )
    # ---- pass 2
    if ( e.id for e in l2.target.elts ) and [ e.id for e in l2.target.elts ][0]:
        PRE2, TAB2 = ( e.id for e in l2.target.elts )
    skip = [ s for s in l2.body if isinstance( s, ast.If ) and pmatch( s.test, '%s not in %s' % ( PRE2, STATES )) is not None and any( isinstance( b, ast.Continue ) for b in s.body ) ]
    if skip and l2.body.index( skip[0] ) == min( i for i, s in enumerate( l2.body ) if not isinstance( s, ast.Expr )):
        res.ok( src, skip[0], 'transitions out of a dead state are skipped' )
    else:
        res.bad( src, l2, 'transitions out of dead states', 'a dead state has no counterpart: its transitions must be skipped before anything else' )
    inner = [ f for f in l2.body if isinstance( f, ast.For ) ]
    if not inner:
        raise AnalysisError( 'from_regex: loop over the symbols of a state not found' )
    sl = inner[0]
    SYM = sl.target.id if isinstance( sl.target, ast.Name ) else None
    # the ordering key is evaluated (not text-matched): key( None ) must sort before key( any symbol )
    km = None
    if is_call_to( sl.iter, 'sorted' ) and sl.iter.args and dotted( sl.iter.args[0] ) == TAB2:
        kf = [ k.value for k in sl.iter.keywords if k.arg == 'key' ]
        if kf and isinstance( kf[0], ast.Lambda ) and len( kf[0].args.args ) == 1:
            from .fold import fold, NoFold
            pn = kf[0].args.args[0].arg
            try:
                k_none = fold( kf[0].body, { pn: None } )
                k_syms = [ fold( kf[0].body, { pn: c } ) for c in ( 'a', '\x00', '~' ) ]
                km = all( k_none < ks for ks in k_syms ) or None
            except ( NoFold, TypeError ):
                km = None
    if km is not None:
        res.ok( src, sl, "symbols are processed with '.' (None) first, so the wildcard exists before multi-symbol expansions copy it" )
    else:
        res.bad( src, sl, sl.iter, "the '.' transition (None) must be linked before the other symbols of the state" )
    wild = [ s for s in sl.body if isinstance( s, ast.If ) and pmatch( s.test, '%s is None' % SYM ) is not None and any( pmatch( b, '%s = True' % SYM ) is not None for b in s.body ) ]
    if wild:
        res.ok( src, wild[0], "'.' (None in the fsm) becomes the ANY wildcard (True)" )
    else:
        res.bad( src, sl, "'.' mapping", "the fsm's None (any other symbol) transition must become the ANY wildcard" )
    L = Matcher()
    dst = L.find( sl, '_dst = %s.get( _nxt )' % STATES )
    link = L.find( sl, '%s[_p][%s] = _dst' % ( STATES, SYM )) if dst is not None else None
    if dst is not None and link is not None and pfind( sl, '%s = %s[%s]' % ( L.name( '_nxt' ), TAB2, SYM )):
        res.ok( src, link, 'a transition into a dead state is stored as an explicit non-transition (None); every other one links the counterpart state' )
    else:
        res.bad( src, sl, 'linking', 'each transition must link states.get( next ): the counterpart, or None for a dead state' )
    # redundancy skip: only when the target is dead AND the wildcard already is a non-transition
    red = [ s for s in sl.body if isinstance( s, ast.If ) and any( isinstance( b, ast.Continue ) for b in s.body ) and isinstance( s.test, ast.Name ) ]
    for r in red:
        rd = [ s.value for s in sl.body if isinstance( s, ast.Assign ) and dotted( s.targets[0] ) == r.test.id ]
        if len( rd ) != 1:
            continue
        D = L.name( '_dst' )
        m = pmatch( rd[0], '%s is None and %s[_p].get( True, True ) is None' % ( D, STATES ))
        if m is not None:
            res.ok( src, r, 'a transition is omitted only if it leads to a dead state and the wildcard already is a non-transition' )
        else:
            res.bad( src, r, rd[0], 'a transition may be omitted only when it is dead AND the state\'s wildcard already rejects: otherwise a live transition is lost or a rejected symbol falls into the wildcard' )
    # extra states of a multi-symbol encoding are never terminal
    extra = [ c for c in ast.walk( sl ) if is_call_to( c, 'cls' ) ]
    if extra and all( any( k.arg == 'terminal' and try_fold( k.value ) is False for k in c.keywords ) for c in extra ):
        res.ok( src, extra[0], 'states added for the inner symbols of a multi-symbol encoding are non-terminal' )
    elif extra:
        res.bad( src, extra[0], extra[0], 'an intermediate state inside a multi-byte symbol must not accept' )
    # ---- the expansion is restricted to states with ONE listed symbol ( plus, possibly, the wildcard ): the code that adds the chain re-binds
    # the origin ( pre = last added state ) after an expansion, so a second symbol expanded in the same state would hang off the first symbol's
    # chain.  The restriction is an assert on the size of the state's WHOLE transition table - dead targets included; counted over a filtered
    # list ( live targets only ) it admits [^xy]* with two multi-byte symbols, and the machine built accepts one of the excluded symbols
    sizes = [ a for a in ast.walk( sl ) if isinstance( a, ast.Assert ) and any( is_call_to( c, 'len' ) for c in ast.walk( a.test ))
              and any( isinstance( c, ast.Compare ) and len( c.ops ) == 2 and try_fold( c.left ) == 1 and try_fold( c.comparators[1] ) == 2 for c in ast.walk( a.test )) ]
    if not sizes:
        res.bad( src, sl, 'from_regex: no assertion restricts multi-symbol expansion to states with one listed symbol', 'with two multi-byte symbols in one state the second chain is linked from the first symbol\'s intermediate state' )
    for a in sizes:
        arg = [ c.args[0] for c in ast.walk( a.test ) if is_call_to( c, 'len' ) and c.args ][0]
        if dotted( arg ) == TAB or pmatch( arg, 'machine.map[%s]' % PRE ) is not None:
            res.ok( src, a, 'multi-symbol expansion only in states whose whole transition table has 1 ( or 2, with the wildcard ) entries' )
        else:
            res.bad( src, a, 'the size restriction of the expansion counts %s, not the state\'s transition table' % norm_text( arg ), 'transitions into dead states are what a negated class [^xy] consists of: not counted, a state with two multi-byte symbols is expanded, the second chain hangs off the first one\'s intermediate state and the machine accepts an excluded symbol' )
    # ---- multi-symbol expansion: fresh registry keys, chain linking, wildcard duplication
    exp = [ f for f in ast.walk( sl ) if isinstance( f, ast.For ) and isinstance( f.target, ast.Tuple ) and isinstance( f.iter, ast.Subscript ) and isinstance( f.iter.slice, ast.Slice ) and f.iter.slice.lower is None and try_fold( f.iter.slice.upper ) == -1 ]
    if len( exp ) != 1:
        raise AnalysisError( 'from_regex: the loop adding intermediate states for a multi-symbol encoding not found' )
    xl = exp[0]
    ENC = xl.target.elts[1].id if isinstance( xl.target.elts[1], ast.Name ) else None
    X = Matcher()
    newst = X.find( xl, '%s[_add] = cls( name=_nm, terminal=False, **kwds )' % STATES )
    if newst is None:
        # created with another terminal= argument?  an intermediate state inside a multi-byte symbol must not accept
        alt = [ a_ for a_ in ast.walk( xl ) if isinstance( a_, ast.Assign ) and isinstance( a_.targets[0], ast.Subscript ) and dotted( a_.targets[0].value ) == STATES and is_call_to( a_.value, 'cls' ) ]
        for a_ in alt:
            tk = [ k.value for k in a_.value.keywords if k.arg == 'terminal' ]
            if not tk or try_fold( tk[0] ) is not False:
                res.bad( src, a_, 'an intermediate state of a multi-symbol encoding is created with terminal=%s' % ( norm_text( tk[0] ) if tk else '(default)' ),
                         'an intermediate state inside a multi-byte symbol must not accept: a bytes machine would report acceptance in the middle of a symbol that leaves an accepting state ( π+ accepts b"\\xcf\\x80\\xcf" )' )
        if res.findings:
            return res
    if newst is None or not isinstance( X.b['_add'], ast.Name ):
        raise AnalysisError( 'from_regex: creation of an intermediate state not found' )
    ADD = X.name( '_add' )
    # (a) the key of a new intermediate state collides neither with an fsm state number (dead ones included) nor with a state already registered
    wl = [ w for w in xl.body if isinstance( w, ast.While ) and ADD in names_in( w.test ) ]
    tested = set()
    if wl:
        for c in ( wl[0].test.values if isinstance( wl[0].test, ast.BoolOp ) and isinstance( wl[0].test.op, ast.Or ) else [ wl[0].test ] ):
            m_ = pmatch( c, '%s in _where' % ADD )
            if m_ is not None:
                tested.add( txt( m_['_where'] ))
    if not wl:
        raise AnalysisError( 'from_regex: search for an unused state key not recognised' )
    need = { 'machine.map': 'an fsm state number (the dead state has no entry in the registry, but transitions INTO it are recognised by its number being absent)',
             STATES: 'a state already in the registry (an intermediate state added earlier would be overwritten, and the chain that leads to it dangles)' }
    for where, why in need.items():
        if where in tested or ( where == 'machine.map' and 'machine.map.keys()' in tested ):
            res.ok( src, wl[0], 'a new intermediate state\'s key is not in %s' % where )
        else:
            res.bad( src, wl[0], 'unused-key search tests only %s' % sorted( tested ),
                     'the key chosen for a new intermediate state may equal %s' % why )
    # (b) the chain: each intermediate state is linked from the previous one of the chain (the running "last"), not from the origin
    link = X.find( xl, '%s[_from][%s] = %s[%s]' % ( STATES, ENC, STATES, ADD ))
    if link is None or not isinstance( X.b['_from'], ast.Name ):
        res.bad( src, xl, 'chain linking', 'each intermediate state must be reached from the previous state of the chain on the corresponding inner symbol' )
    else:
        LST = X.name( '_from' )
        upd = [ s_ for s_ in xl.body if isinstance( s_, ast.Assign ) and dotted( s_.targets[0] ) == LST and dotted( s_.value ) == ADD ]
        if upd and xl.body.index( upd[0] ) > [ i for i, s_ in enumerate( xl.body ) if any( link is y for y in ast.walk( s_ )) ][0]:
            res.ok( src, link, 'the chain is linked from the running last state, which then advances to the new one' )
        else:
            res.bad( src, link, link, 'the link must start at the running last state of the chain (advanced to the new state afterwards): linking every inner symbol from the origin state breaks encodings of three or more symbols' )
    # (c) the wildcard of the origin is copied to each intermediate state; its presence is tested with the ENCODED key
    dup = [ i for i in ast.walk( xl ) if isinstance( i, ast.If ) and any( pmatch( b, '%s[%s][True] = %s[_p][True]' % ( STATES, ADD, STATES )) is not None for b in i.body ) ]
    if not dup:
        res.bad( src, xl, 'wildcard duplication', "an intermediate state must inherit the origin's '.' transition: a symbol sharing inner symbols with a listed one is admitted by '.' / [^...]" )
    else:
        t = dup[0].test
        raw = isinstance( t, ast.Compare ) and len( t.ops ) == 1 and isinstance( t.ops[0], ast.In ) and isinstance( t.left, ast.Constant ) and t.left.value in ( True, None )
        if raw:
            res.bad( src, dup[0], t, "plain dict membership bypasses state.encode: the wildcard is stored under the place-holder key ANY (-1), so `True in <state>` is always False and the wildcard is never copied to the intermediate states - e.g. [^π]* over bytes rejects ρ, which shares its lead byte with π" )
        elif ( isinstance( t, ast.Compare ) and isinstance( t.ops[0], ast.In ) and ( dotted( t.left ) or '' ).endswith( '.ANY' )) or 'get' in attrs_in( t ):
            res.ok( src, dup[0], "the origin's wildcard is copied to every intermediate state (presence tested with the encoded key)" )
        else:
            raise AnalysisError( 'from_regex: wildcard-presence test not recognised: %s' % norm_text( t ))
    # (d) whether the symbol's TARGET is dead is consulted before any intermediate state is created: a multi-symbol encoding of a symbol that
    # cannot continue the sentence is otherwise expanded like any other - its leading symbols are consumed, and the machine fails in a
    # non-terminal intermediate state instead of stopping (accepting) ahead of the symbol
    NXT = L.name( '_nxt' )
    if NXT is not None:
        from .cfg import CFG
        cfg = CFG( fn )
        def consults_target( e ):
            for c in ast.walk( e ):
                if is_call_to( c, STATES + '.get' ) and c.args and dotted( c.args[0] ) == NXT:
                    return True
                if isinstance( c, ast.Compare ) and len( c.ops ) == 1 and isinstance( c.ops[0], ( ast.In, ast.NotIn )) and dotted( c.left ) == NXT and dotted( c.comparators[0] ) == STATES:
                    return True
            return False
        # a local that holds the consultation counts as well ( dead = states.get( nxt ) is None; if dead and ... )
        holders = { dotted( a_.targets[0] ) for a_ in ast.walk( sl ) if isinstance( a_, ast.Assign ) and len( a_.targets ) == 1 and isinstance( a_.targets[0], ast.Name ) and consults_target( a_.value ) }
        tests = [ n for n in cfg.nodes if n.kind == 'test' and n.expr is not None and ( consults_target( n.expr ) or names_in( n.expr ) & holders ) ]
        heads = [ n for n in cfg.nodes if n.kind == 'for' and n.stmt is sl ]
        creates = [ n for n in cfg.nodes if n.kind == 'stmt' and n.stmt is newst ]
        if not heads or not creates:
            raise AnalysisError( 'from_regex: CFG nodes of the symbol loop / the intermediate-state creation not found' )
        if tests and all( cfg.must_pass( h, c, tests, correlated=False ) for h in heads for c in creates ):
            res.ok( src, newst, 'whether the target state is dead is tested ( %s.get( %s ) ... ) on every path from the symbol to the creation of an intermediate state' % ( STATES, NXT ))
        else:
            res.bad( src, newst, 'from_regex adds the intermediate states of a multi-symbol encoding before it looks whether the target ( %s ) is dead' % NXT,
                     "the leading symbols of a symbol that cannot continue the sentence are consumed: regex_bytes( 'π' ) on 'ππ' consumes 3 bytes and fails NonTerminal instead of consuming 2 and accepting" )
    # ---- result: non-consuming copy of the initial state
    rets = [ r for r in fn.body if isinstance( r, ast.Return ) ]
    if rets and isinstance( rets[-1].value, ast.Tuple ) and pmatch( rets[-1].value.elts[-1], 'state( %s[machine.initial] )' % STATES ) is not None:
        res.ok( src, rets[-1], 'the machine starts in a non-consuming copy ( state( ... )) of the initial state: the first symbol is consumed only if accepted' )
        # ... and that copy does not accept: state.__init__'s copy branch takes `terminal` from the argument unless it is None, and the default is False
        ini = src.get( 'state.__init__' )
        ar = ini.args
        dflt = dict( zip( [ a.arg for a in ar.args[len( ar.args ) - len( ar.defaults ):] ], ar.defaults ))
        # the copy branch: `if isinstance( name, state ):` - the source state is the first parameter (possibly through an alias local)
        P0 = ini.args.args[1].arg
        cb = [ i_ for i_ in ini.body if isinstance( i_, ast.If ) and pmatch( i_.test, 'isinstance( %s, state )' % P0 ) is not None ]
        alias = { P0 } | { dotted( a_.targets[0] ) for i_ in cb for a_ in i_.body if isinstance( a_, ast.Assign ) and dotted( a_.value ) == P0 }
        cp = [ s_ for i_ in cb for s_ in i_.body if isinstance( s_, ast.Assign ) and dotted( s_.targets[0] ) == 'self._terminal' ]
        OTHER = sorted( alias & names_in( cp[0].value ))[0] if cp and alias & names_in( cp[0].value ) else 'other' 
        call_kw = { k.arg: k.value for k in rets[-1].value.elts[-1].keywords }
        tv = try_fold( call_kw['terminal'] ) if 'terminal' in call_kw else try_fold( dflt.get( 'terminal' ), default='?' )
        if cp:
            from .fold import fold, NoFold
            try:
                got = fold( cp[0].value, { 'terminal': tv, OTHER + '._terminal': True } )
            except NoFold as exc:
                raise AnalysisError( 'state.__init__: copy of the terminal flag outside the modelled subset: %s' % exc )
            if not got:
                res.ok( src, cp[0], 'the non-consuming initial copy is never terminal (terminal=%r reaches the copy branch): acceptance needs at least one consumed symbol' % ( tv, ))
            else:
                res.bad( src, cp[0], 'state( <terminal initial state> ) is terminal (terminal argument %r)' % ( tv, ),
                         'the non-consuming copy of the initial state inherits its terminal flag: a nullable expression ( a*, .* ) then accepts with nothing consumed, and input that cannot start a sentence is no longer rejected' )
        else:
            raise AnalysisError( 'state.__init__: copy branch of the terminal flag not found' )
    else:
        res.bad( src, rets[-1] if rets else fn, 'initial state', 'the initial state must be a non-consuming copy of the fsm\'s initial state' )
    # a multi-symbol ( multi-byte ) transition into a DEAD target is cut to its first encoded symbol only where no live wildcard leaves the
    # origin: with a wildcard ( '.', a negated class ) the first octet alone does not tell the excluded symbol from its neighbours that share
    # it ( rho / pi, EURO SIGN / KIP SIGN ): cut short, every symbol with that lead octet is refused where only one is excluded.  The test
    # around the truncation is evaluated on the four ( target dead?, wildcard live? ) cells
    from .fold import fold as fold_, NoFold as NoFold_
    cuts = [ i_ for i_ in ast.walk( fn ) if isinstance( i_, ast.If ) and any( isinstance( a_, ast.Assign ) and isinstance( a_.value, ast.Subscript ) and isinstance( a_.value.slice, ast.Slice )
                                                                                 and dotted( a_.targets[0] ) == dotted( a_.value.value ) and try_fold( a_.value.slice.upper ) == 1 for a_ in i_.body ) ]
    if len( cuts ) == 1:
        from .fold import run_block as run_block_
        par_ = src.parent.get( cuts[0] )
        blk_ = next(( getattr( par_, f_ ) for f_ in ( 'body', 'orelse' ) if cuts[0] in getattr( par_, f_, [] )), [] )
        pre_ = []
        for st_ in reversed( blk_[:blk_.index( cuts[0] )] ):			# the simple locals computed just ahead of the test
            if isinstance( st_, ast.Assign ) and all( isinstance( t_, ast.Name ) for t_ in st_.targets ) and { t_.id for t_ in st_.targets } & names_in( cuts[0].test ):
                pre_.insert( 0, st_ )
            else:
                break
        used = set( names_in( cuts[0].test )) | { n_ for st_ in pre_ for n_ in names_in( st_.value ) }
        used -= { t_.id for st_ in pre_ for t_ in st_.targets }
        tabs = sorted( n_ for n_ in used if any(( isinstance( c_, ast.Subscript ) and dotted( c_.value ) == n_ ) or ( isinstance( c_, ast.Call ) and isinstance( c_.func, ast.Attribute ) and dotted( c_.func.value ) == n_ )
                                                  or ( isinstance( c_, ast.Compare ) and any( dotted( x_ ) == n_ for x_ in c_.comparators ))
                                                  for e_ in [ cuts[0].test ] + [ st_.value for st_ in pre_ ] for c_ in ast.walk( e_ )))
        keys = sorted( n_ for n_ in used if n_ not in tabs )
        if len( tabs ) != 1 or not ( 1 <= len( keys ) <= 2 ):
            raise AnalysisError( 'from_regex: truncation test uses %s / %s' % ( tabs, keys ))
        mappings = [ dict( zip( keys, ( 'P', 'N' ))), dict( zip( keys, ( 'N', 'P' ))) ] if len( keys ) == 2 else [ { keys[0]: 'N' }, { keys[0]: 'P' } ]
        best = None
        for roles_ in mappings:
            wrong = []
            for dead in ( True, False ):
                for live in ( True, False ):
                    table = { 'P': { True: ( 'W' if live else None ) } }
                    if not dead:
                        table['N'] = { }
                    env_ = { tabs[0]: table }; env_.update( roles_ )
                    try:
                        run_block_( pre_, env_ )
                        got_ = bool( fold_( cuts[0].test, env_ ))
                    except ( NoFold_, AttributeError, TypeError, KeyError ):
                        got_ = None
                    if got_ != ( dead and not live ):
                        wrong.append(( dead, live, got_ ))
            if best is None or len( wrong ) < len( best ):
                best = wrong
        wrong = best
        if wrong and all( w_[2] is None for w_ in wrong ):
            raise AnalysisError( 'from_regex: truncation test not foldable: %s' % norm_text( ast.unparse( cuts[0].test )))
        if wrong:
            d_, l_, o_ = wrong[0]
            res.bad( src, cuts[0], 'from_regex: a multi-symbol transition is cut to its first symbol when the target is %s and a wildcard is %s ( %s )' % ( 'dead' if d_ else 'live', 'live' if l_ else 'absent / dead', norm_text( ast.unparse( cuts[0].test ))[:70] ),
                     'specified: cut only into a dead target from a state without a live wildcard - otherwise every symbol sharing the first encoded octet with the excluded one is rejected ( [^\u03c0]* refuses \u03c1 ), or a symbol that must be refused is absorbed' )
        else:
            res.ok( src, cuts[0], 'a multi-symbol transition is cut to its first symbol exactly when the target is dead and no live wildcard leaves the origin' )
    elif cuts:
        raise AnalysisError( 'from_regex: %d truncation sites' % len( cuts ))
    return res


@rule( 'X-ENCODER', props=( 'C11', ), floor=8 )
def x_encoder( ctx ):
    """the encoder that turns each symbol of the expression into the input symbols of a bytes machine ( regex_bytes' default ) yields the
    symbol's UTF-8 bytes - for EVERY symbol: the lambda's body is evaluated on sample symbols of each UTF-8 length class and on both sides of
    each class boundary ( 0x7F|0x80, 0xFF|0x100, 0x7FF|0x800, 0xFFFF|0x10000 ), and regex_bytes is wired to it.  Input arrives as UTF-8: a
    symbol encoded otherwise ( latin-1 below U+0100 ) becomes a transition on an octet the input never contains alone."""
    res = Result( 'X-ENCODER' )
    from .fold import fold, NoFold
    src = ctx.src( AUTOMATA )
    enc = src.module_assign( 'type_unicode_encoder' )
    if not isinstance( enc.value, ast.Lambda ) or len( enc.value.args.args ) != 1:
        raise AnalysisError( 'automata.type_unicode_encoder is not a one-argument lambda any more' )
    P = enc.value.args.args[0].arg
    samples = ( u'a', u'\x7f', u'\x80', u'\xe9', u'\xff', u'Ā', u'π', u'߿', u'ࠀ', u'€', u'￿', u'\U00010000', u'\U0001f600' )
    wrong = []
    for ch in samples:
        try:
            got = fold( enc.value.body, { P: ch } )
            got = list( bytearray( got ) if isinstance( got, ( bytes, bytearray )) else got )
        except NoFold as exc:
            raise AnalysisError( 'type_unicode_encoder outside the modelled subset: %s' % exc )
        want = list( bytearray( ch.encode( 'utf-8' )))
        if got != want:
            wrong.append(( ch, got, want ))
        else:
            res.ok( src, enc, 'U+%04X is encoded as its %d UTF-8 byte(s)' % ( ord( ch ), len( want )), nontrivial=( ch in ( u'\x80', u'\xff', u'Ā', u'ࠀ', u'\U00010000' )))
    if wrong:
        ch, got, want = wrong[0]
        res.bad( src, enc, 'type_unicode_encoder( U+%04X ) yields %s, not the UTF-8 bytes %s (%d of %d sample symbols differ)' % ( ord( ch ), got, want, len( wrong ), len( samples )),
                 'the bytes machine gets a transition on an octet that UTF-8 input never contains alone: the expression rejects its own symbol and accepts a lone octet; bytes and str machines disagree on the same expression and text' )
    # wiring: on Python 3 the str encoder IS this encoder, and regex_bytes uses it by default
    se = src.module_assign( 'type_str_encoder' )
    names = { dotted( x ) for x in ast.walk( se.value ) if isinstance( x, ast.Name ) }
    rb = src.get( 'regex_bytes.__init__' )
    dfl = dict( zip( [ a.arg for a in rb.args.args[len( rb.args.args ) - len( rb.args.defaults ):] ], rb.args.defaults ))
    if 'type_unicode_encoder' in names and dotted( dfl.get( 'regex_encoder' )) == 'type_str_encoder':
        res.ok( src, rb, 'regex_bytes encodes the symbols of its expression with type_str_encoder ( = type_unicode_encoder on Python 3 ) by default' )
    else:
        res.bad( src, rb, 'regex_bytes default encoder: %s' % norm_text( dfl.get( 'regex_encoder' )) if dfl.get( 'regex_encoder' ) is not None else 'regex_bytes has no default encoder', 'the bytes machine must be built from the UTF-8 bytes of its symbols' )
    return res


@rule( 'X-TERMINAL', props=( 'C11', ), floor=2 )
def x_terminal( ctx ):
    """dfa_base.terminal = own flag and the sub-machine's current state terminal and no repeat cycle pending (8-cell table); a plain state's
    terminal is its own flag"""
    res = Result( 'X-TERMINAL' )
    src = ctx.src( AUTOMATA )
    fn = src.get( 'dfa_base.terminal' )
    rets = [ r for r in fn.body if isinstance( r, ast.Return ) ]
    if len( rets ) != 1:
        raise AnalysisError( 'dfa_base.terminal: single return not found' )
    wrong = 0
    for own, cur, lp in itertools.product(( True, False ), repeat=3 ):
        env = { 'self._terminal': own, 'self.current.terminal': cur }
        class Sub( ast.NodeTransformer ):
            def visit_Call( self, n ):
                if is_call_to( n, 'self.loop' ):
                    return ast.Constant( lp )
                return self.generic_visit( n )
        v = _k3( Sub().visit( ast.parse( ast.unparse( rets[0].value ), mode='eval' ).body ), env )
        if v is U:
            raise AnalysisError( 'dfa_base.terminal outside the modelled subset: %s' % norm_text( rets[0].value ))
        if bool( v ) != ( own and cur and not lp ):
            wrong += 1
    res.cells += 8
    if wrong:
        res.bad( src, rets[0], rets[0].value, 'a dfa accepts iff it is itself marked terminal, its sub-machine stands in a terminal state and no repeat cycle is pending (%d of 8 cells differ)' % wrong )
    else:
        res.ok( src, rets[0], 'dfa terminal iff own flag and current.terminal and not loop(): 8-cell table agrees' )
    st = src.get( 'state.terminal' )
    r2 = [ r for r in st.body if isinstance( r, ast.Return ) ]
    if r2 and pmatch( r2[0].value, 'self._terminal' ) is not None:
        res.ok( src, r2[0], 'a plain state is terminal iff it was created terminal' )
    else:
        res.bad( src, st, 'state.terminal', 'a state\'s acceptance is the flag it was created with' )
    return res
