"""Layout rules (C01, C14): L-AGREE (producer layout accepted by the parser graph and vice versa), L-SPEC (parser/producer layouts equal
the hand-written CIP spec layouts), T-SEGMENTS (EPATH segment table), T-NCP (network connection parameter bit-fields)."""
import ast, copy

from .core import ( rule, Result, AnalysisError, dotted, call_name, const_value, is_call_to, names_in, attrs_in, walk_no_nested,
                    norm_text, dotted_in, stmt_of, pmatch, pfind, txt )
from .fold import try_fold, fold, NoFold, run_block, Record, Raises
from .grammar import grammar_of, Node, Decide, FILES
from .layout import ( ParserLayout, ProducerLayout, Seq, producer_branches, branch_selected, best_match, seq_match, show_atom,
                      resolve_struct_lits, atom_eq )
from .rules_paths import class_consts_env, SERVICE_CLASSES
from . import spec
from .cfg import CFG


class L:
    def __init__( self, line ):
        self.lineno = line


def show_seq( s ):
    return ' '.join( show_atom( a ) for a in s.atoms ) or '(nothing)'


RECOGNISED_LITS = ( 'status_in', 'struct', 'struct?', 'odd', 'present', 'absent' )


def service_layouts( ctx ):
    """-> list of dict( cls, number, name, parser seqs, producer seqs, producer fn, site ) for every registered service parser"""
    def build():
        g = grammar_of( ctx )
        out = []
        for rel, cname in SERVICE_CLASSES:
            src = ctx.src( rel )
            pfn = src.get( cname + '.produce' )
            branches = producer_branches( ctx, g, src, pfn, cname )
            env = class_consts_env( ctx, cname )
            for r in g.registrations:
                if r['cls'] != cname or r['number'] is True or not isinstance( r['number'], int ) or not isinstance( r['machine'], Node ):
                    continue
                pl = ParserLayout( g )
                Q = resolve_struct_lits( pl.seqs( r['machine'], '' ))
                sel = None
                for test, body in branches:
                    if test is None:
                        continue
                    if branch_selected( test, r['number'], env, short=r['short'] ):
                        sel = ( test, body ); break
                P, unknown = [], []
                if sel is not None:
                    pr = ProducerLayout( g, pfn, cname, 'data' )
                    P = resolve_struct_lits( pr.block( sel[1], [ Seq() ], {}, {} ))
                    unknown = pr.unknown
                out.append( dict( cls=cname, number=r['number'], name=r['name'], Q=Q, P=P, sel=sel, pfn=pfn, src=src, site=r['site'],
                                  unknown=unknown, truncated=pl.truncated ))
        return out
    return ctx.cached( 'service_layouts', build )


def truthiness_guards( src, fn, art='data' ):
    """`if <field>:` / `if d.get( '<field>' ):` guarding the emission of that same integer field: -> [ ( If node, field ) ]"""
    out = []
    for i in ast.walk( fn ):
        if not isinstance( i, ast.If ):
            continue
        t = i.test
        field = None
        if isinstance( t, ast.Call ) and isinstance( t.func, ast.Attribute ) and t.func.attr == 'get' and len( t.args ) == 1 and isinstance( try_fold( t.args[0] ), str ):
            field = try_fold( t.args[0] )
        elif isinstance( t, ast.Attribute ):
            field = t.attr
        elif isinstance( t, ast.Name ) and t.id in [ a_.arg for a_ in fn.args.args + fn.args.kwonlyargs ]:
            field = t.id			# a PARAMETER holding the value that is emitted ( `if structure_tag: UINT.produce( structure_tag )` ); a local
            				# computed in the function may use 0 as its own "absent" mark ( EPATH.produce: pext )
        if field is None:
            continue
        for s_ in i.body:
            for c in ast.walk( s_ ):
                if isinstance( c, ast.Call ) and call_name( c ).endswith( '.produce' ) and c.args and ( dotted( c.args[0] ) or '' ).split( '.' )[-1] == field \
                   and call_name( c ).split( '.' )[-2] in ( 'USINT', 'UINT', 'UDINT', 'ULINT', 'SINT', 'INT', 'DINT', 'LINT', 'WORD', 'DWORD' ):
                    out.append(( i, field ))
    return out


NUMERIC_CODECS = ( 'USINT', 'UINT', 'UDINT', 'ULINT', 'SINT', 'INT', 'DINT', 'LINT', 'WORD', 'DWORD', 'BOOL', 'REAL', 'LREAL', 'UINT_network', 'UDINT_network', 'INT_network' )


def lossy_defaults( fn ):
    """arguments of numeric <TYPE>.produce( ... ) calls that replace a falsy field value by a non-zero constant: `x or C`, `x if x else C`
    (a legal 0 is then encoded as C): -> [ ( call, default ) ]"""
    out = []
    for c in ast.walk( fn ):
        if not ( isinstance( c, ast.Call ) and call_name( c ).endswith( '.produce' ) and c.args and call_name( c ).split( '.' )[-2] in NUMERIC_CODECS ):
            continue
        a = c.args[0]
        dflt = None
        if isinstance( a, ast.BoolOp ) and isinstance( a.op, ast.Or ) and len( a.values ) >= 2:
            dflt = try_fold( a.values[-1] )
        elif isinstance( a, ast.IfExp ) and ( txt( a.test ) == txt( a.body ) or ( isinstance( a.test, ast.UnaryOp ) and isinstance( a.test.op, ast.Not ) and txt( a.test.operand ) == txt( a.orelse ))):
            dflt = try_fold( a.orelse if txt( a.test ) == txt( a.body ) else a.body )
        if isinstance( dflt, ( int, float )) and not isinstance( dflt, bool ) and dflt != 0:
            out.append(( c, dflt ))
    return out


@rule( 'L-DEFAULT', props=( 'C01', 'C14' ), floor=20 )
def l_default( ctx ):
    """every produce() of the codec modules: a numeric field is never emitted through a truthiness default (`x or C`, `if x:`) - the value 0
    is legal on the wire and must be re-produced as 0; defaults are selected by PRESENCE of the field"""
    res = Result( 'L-DEFAULT' )
    n = 0
    for rel in ( 'server/enip/parser.py', 'server/enip/device.py', 'server/enip/logix.py', 'server/enip/defaults.py' ):
        src = ctx.src( rel )
        for qn, defs in sorted( src.defs.items()):
            fn = defs[-1]
            if not isinstance( fn, ast.FunctionDef ) or fn.name not in ( 'produce', ) and not fn.name.endswith( '_encode' ):
                continue
            n += 1
            bad = False
            for c, dflt in lossy_defaults( fn ):
                bad = True
                res.bad( src, c, c, 'a field value of 0 is encoded as %r: `x or default` (or `x if x else default`) selects the default by truthiness, but 0 is a legal value of this field and parse( produce( x )) must return it - select the default by presence ( `x if \'field\' in data else default` )' % dflt, func=qn )
            for i, field in truthiness_guards( src, fn ):
                bad = True
                res.bad( src, i, 'if %s: ... produce( %s )' % ( norm_text( i.test ), field ),
                         'the optional field %r is emitted only when it is truthy: a parsed message whose %s is 0 is re-produced without it (the parser decides by presence of input)' % ( field, field ), func=qn )
            if not bad:
                res.ok( src, fn, '%s: no numeric field is emitted through a truthiness default' % qn, nontrivial=False )
    return res


@rule( 'G-INIT', props=( 'C01', 'C14', 'C05', 'C09', 'C08' ), floor=10 )
def g_init( ctx ):
    """every move_if( ..., initializer= ) of the parser graphs creates its accumulator per parse (a callable, or an immutable value): a mutable
    literal ( [] / set ) is ONE object stored into every artifact by every session - the second and later messages start with the items
    of all earlier ones (also: state of one session leaks into another, a refused request leaks into a later accepted one)"""
    res = Result( 'G-INIT' )
    seen_fn = set()
    g = grammar_of( ctx )
    n_ok = 0
    for label, root in sorted( g.all_roots().items() ):
        for n in g.nodes( root ):
            for k, t in n.edges:
                if not isinstance( t, Decide ) or 'initializer' not in t.kw:
                    continue
                key_ = ( t.site, )
                if key_ in seen_fn:
                    continue
                seen_fn.add( key_ )
                s_ = ctx.src( FILES[t.site[0]] )
                if isinstance( t.kw.get( 'initializer' ), ( list, set, bytearray )):
                    res.bad( s_, L( t.site[1] ), 'move_if( %r, initializer=%r )' % ( t.name, t.kw.get( 'initializer' )),
                             'the initializer is one list object shared by every parse: the second and later messages recover the items of all earlier ones', func=label )
                else:
                    n_ok += 1
                    res.ok( s_, L( t.site[1] ), 'move_if( %r ): accumulator created per parse (%s)' % ( t.name, type( t.kw.get( 'initializer' )).__name__ ), nontrivial=False )
    return res


@rule( 'L-AGREE', props=( 'C01', 'C14' ), floor=24 )
def l_agree( ctx ):
    """for every registered service: each layout the parser accepts is one the producer emits, and each layout the producer emits (under recognised guards) is one the parser accepts - same order, width, signedness, byte order, data path, pads, guards"""
    res = Result( 'L-AGREE' )
    seen_fn = set()
    for e in service_layouts( ctx ):
        label = '%s 0x%02X %s' % ( e['cls'], e['number'], e['name'] )
        psrc = ctx.src( FILES[e['site'][0]] )
        if e['sel'] is None:
            res.bad( psrc, L( e['site'][1] ), label, '%s.produce has no branch selecting this service: a parsed message cannot be re-produced' % e['cls'], func=e['cls'] + '.produce' )
            continue
        if e['unknown']:
            raise AnalysisError( '%s: producer construct outside the modelled subset: %s' % ( label, e['unknown'][:3] ))
        if e['truncated'] or not e['Q'] or not e['P']:
            raise AnalysisError( '%s: layout extraction incomplete (parser %d / producer %d sequences)' % ( label, len( e['Q'] ), len( e['P'] )))
        # producer -> parser: every layout variant the producer can emit for this service must be accepted by the parser registered for
        # this service (or, for variants that belong to a sibling service sharing the dispatch branch, by that sibling's parser)
        siblings = [ x for x in service_layouts( ctx ) if x['cls'] == e['cls'] and x['sel'] is not None and x['sel'][0] is e['sel'][0] ]
        seen_atoms = set()
        for p in e['P']:
            if ( p.atoms, any( k[0] == 'large' for k in p.lits )) in seen_atoms:
                continue
            seen_atoms.add(( p.atoms, any( k[0] == 'large' for k in p.lits )))
            here = any( seq_match( p.atoms, q.atoms )[0] for q in e['Q'] )
            if here:
                res.ok( e['src'], L( p.trace[0][0] if p.trace and isinstance( p.trace[0][0], int ) else e['pfn'].lineno ),
                        '%s: producer layout [%s] is accepted by its parser' % ( label, show_seq( p )))
                continue
            elsewhere = [ x for x in siblings if x is not e and any( seq_match( p.atoms, q.atoms )[0] for q in x['Q'] ) ]
            if elsewhere and any( k[0] in ( 'large', ) for k in p.lits ):
                continue				# the variant of the sibling service (e.g. Large Forward Open); checked there
            best = max( e['Q'], key=lambda q: ( seq_match( p.atoms, q.atoms )[1] or 0 ))
            i = seq_match( p.atoms, best.atoms )[1]
            pp = tuple( a for a in p.atoms if a[0] != 'G' ) if not ( any( a[0] == 'G' for a in p.atoms ) and any( a[0] == 'G' for a in best.atoms )) else p.atoms
            pa = show_atom( pp[i] ) if i < len( pp ) else '(end of message)'
            line = p.trace[min( i, len( p.trace ) - 1 )][0] if p.trace else e['pfn'].lineno
            res.bad( e['src'], L( line if isinstance( line, int ) else e['pfn'].lineno ),
                     '%s: producer field %d (%s) is not what the parser expects there' % ( label, i, pa ),
                     'producer layout [%s] is not accepted; closest parser layout [%s]: produced bytes re-parse to different fields' % ( show_seq( p ), show_seq( best )),
                     func=e['cls'] + '.produce' )
    return res


# ---------------------------------------------------------------------------------------- T-SEGMENTS (C01)

PARSER = 'server/enip/parser.py'


def segment_paths( g, pseg, path='seg' ):
    """{ opcode: [ ( atoms, lits ) ] } for the EPATH segment dispatch state: follow each opcode edge until the move into ..segment"""
    pl = ParserLayout( g )
    out = {}
    def walk( n, atoms, lits, acc, depth=0 ):
        if depth > 12:
            raise AnalysisError( 'EPATH segment path too long' )
        variants, ours = pl.node_variants( n, path )
        for a, l in variants:
            atoms2 = atoms + a
            by = {}
            order = []
            for k, t in n.edges:
                by.setdefault( k, [] ).append( t )
                if k not in order: order.append( k )
            if not n.edges:
                acc.append(( atoms2, dict( lits ), 'dead-end' ))
            for k in order:
                neg = {}
                for t in by[k]:
                    if isinstance( t, Decide ):
                        if t.cls == 'move_if' and t.kw.get( 'destination' ) == '..segment':
                            acc.append(( atoms2, dict( lits, **neg ), 'moved' ))
                            break
                        tgt = t.state if isinstance( t.state, Node ) else None
                        nm = str( t.name )
                        if tgt is not None:
                            walk( tgt, atoms2, dict( lits, **dict( neg, **{ nm: True } )), acc, depth + 1 )
                        neg[nm] = False
                    elif isinstance( t, Node ):
                        walk( t, atoms2, dict( lits, **neg ), acc, depth + 1 )
    for k, t in pseg.edges:
        if isinstance( k, int ) and isinstance( t, Node ):
            acc = []
            walk( t, (), {}, acc )
            out[k] = acc
    return out


@rule( 'T-SEGMENTS', props=( 'C01', 'C14' ), floor=31 )
def t_segments( ctx ):
    """EPATH: SEGMENTS opcodes, the parser's per-opcode transition table and EPATH.produce agree with the CIP segment encodings (8/16/32-bit logical, symbolic, port) and with each other"""
    res = Result( 'T-SEGMENTS' )
    g = grammar_of( ctx )
    src = ctx.src( PARSER )
    segs = g.class_const( 'EPATH', 'SEGMENTS' )
    if not isinstance( segs, dict ):
        raise AnalysisError( 'EPATH.SEGMENTS does not fold to a dict' )
    segnode = src.class_assign( 'EPATH', 'SEGMENTS' )
    want = dict( spec.LOGICAL_SEGMENTS, symbolic=spec.SYMBOLIC_SEGMENT, port=0x00 )
    for k, v in sorted( want.items() ):
        if segs.get( k ) == v:
            res.ok( src, segnode, 'SEGMENTS[%r] = 0x%02X' % ( k, v ))
        else:
            res.bad( src, segnode, 'SEGMENTS[%r] = %r' % ( k, segs.get( k )), 'CIP segment opcode of %s is 0x%02X' % ( k, v ))
    m = g.machines.get( 'EPATH' )
    if m is None:
        raise AnalysisError( 'EPATH machine not extracted' )
    pseg = [ n for n in g.nodes( m ) if n.cls == 'octets_noop' and n.name == 'type' ]
    if len( pseg ) != 1:
        raise AnalysisError( 'EPATH segment dispatch state not found' )
    pseg = pseg[0]
    table = segment_paths( g, pseg )
    def show( acc ):
        return [ ' '.join( show_atom( a ) for a in atoms ) + ( ' if ' + ','.join( k for k, v in sorted( l.items() ) if v ) if any( l.values() ) else '' ) for atoms, l, end in acc ]
    B, H, I = spec.fmt_canon( 'B' ), spec.fmt_canon( '<H' ), spec.fmt_canon( '<I' )
    # --- logical segments
    for kind, base in sorted( spec.LOGICAL_SEGMENTS.items() ):
        widths = [ ( 0, 1, B ), ( 1, 2, H ) ] + ( [ ( 2, 2, I ) ] if kind == 'element' else [] )
        for off, drop, fmt in widths:
            op = base + off
            acc = table.get( op )
            L_ = L( pseg.site[1] )
            if not acc:
                res.bad( src, L_, 'EPATH parser has no transition for opcode 0x%02X (%s, %d-bit)' % ( op, kind, 8 << off ),
                         'a %d-bit %s segment the producer can emit cannot be parsed' % ( 8 << off, kind ))
                continue
            atoms, lits, end = acc[0]
            good = len( acc ) == 1 and end == 'moved' and len( atoms ) == 2 and atoms[0] == ( 'K', drop ) \
                and atoms[1][0] == 'F' and atoms[1][1] == fmt and atoms[1][2].endswith( kind )
            if good:
                res.ok( src, L_, 'opcode 0x%02X: drop %d, %s -> .%s' % ( op, drop, fmt[1], kind ))
            else:
                res.bad( src, L_, 'opcode 0x%02X parses as [%s]' % ( op, '; '.join( show( acc ))),
                         'a %d-bit %s segment is opcode%s then a %s value stored at .%s' % ( 8 << off, kind, ', pad byte,' if drop == 2 else ',', fmt[1], kind ))
    # --- symbolic
    acc = table.get( spec.SYMBOLIC_SEGMENT, [] )
    shapes = sorted( show( acc ))
    ok = len( acc ) == 2 and all( a[0][0] == ( 'K', 1 ) and a[0][1][0] == 'F' and a[0][1][1] == B and a[0][1][2].endswith( 'symbolic.length' )
                                   and a[0][2][0] == 'V' and a[0][2][1] == 'string' and dict( a[0][2][3] ).get( 'limit', '' ).endswith( 'symbolic.length' ) for a in acc ) \
        and sorted( len( a[0] ) for a in acc ) == [ 3, 4 ] and [ a for a in acc if len( a[0] ) == 4 ][0][0][3] == ( 'K', 1 ) \
        and [ a for a in acc if len( a[0] ) == 4 ][0][1].get( 'odd' ) is True
    if ok:
        res.ok( src, L( pseg.site[1] ), 'opcode 0x91: drop 1, B length, string( limit=.length ), pad 1 iff odd' )
    else:
        res.bad( src, L( pseg.site[1] ), 'opcode 0x91 parses as %s' % shapes, 'ANSI extended symbolic: 0x91, length octet, that many characters, one pad octet iff the length is odd' )
    # --- port segments
    for lo, hi, addr in (( 0x01, 0x0F, False ), ( 0x11, 0x1F, True )):
        missing = [ op for op in range( lo, hi + 1 ) if op not in table ]
        if missing:
            res.bad( src, L( pseg.site[1] ), 'port opcodes without a transition: %s' % [ hex( x ) for x in missing ], 'every port number 1..14 and the extended marker 15 must be parseable' )
            continue
        ref = sorted( show( table[lo] ))
        same = all( sorted( show( table[op] )) == ref for op in range( lo, hi + 1 ))
        acc = table[lo]
        if not addr:
            # [ B port, ( H port if extended ), B link ]
            want_shapes = { ( 'B:port', 'B:link' ), ( 'B:port', 'H:port', 'B:link' ) }
            got = { tuple(( a[1][1] + ':' + a[2].split( '.' )[-1] ) for a in atoms ) for atoms, l, e in acc }
            good = same and got == want_shapes
            desc = 'port 0x%02X-0x%02X: B port, [H extended port], B link' % ( lo, hi )
        else:
            got = set()
            for atoms, l, e in acc:
                got.add( tuple(( a[1][1] + ':' + '.'.join( a[2].split( '.' )[-2:] ) if a[0] == 'F' else 'pad' if a[0] == 'K' else 'string' ) for a in atoms ))
            want_shapes = { ( 'B:seg.port', 'B:link.length', 'string' ), ( 'B:seg.port', 'B:link.length', 'string', 'pad' ),
                            ( 'B:seg.port', 'B:link.length', 'H:seg.port', 'string' ), ( 'B:seg.port', 'B:link.length', 'H:seg.port', 'string', 'pad' ) }
            good = same and got == want_shapes
            desc = 'port 0x%02X-0x%02X: B port, B link length, [H extended port after the length], address string, [pad iff odd]' % ( lo, hi )
        for op in range( lo, hi + 1 ):
            if good:
                res.ok( src, L( pseg.site[1] ), 'opcode 0x%02X: %s' % ( op, desc.split( ': ', 1 )[1] ), nontrivial=( op == lo ))
            else:
                res.bad( src, L( pseg.site[1] ), 'opcode 0x%02X parses as %s' % ( op, sorted( got )), desc )
                break
    # --- size / pad / single
    for cname, padsize, single in (( 'EPATH', False, False ), ( 'EPATH_padded', True, False ), ( 'EPATH_single', False, True ), ( 'route_path', True, False )):
        mm = g.machines.get( cname )
        if mm is None:
            raise AnalysisError( '%s machine not extracted' % cname )
        init = mm.sub_initial()
        if g.class_const( cname, 'PADSIZE' ) != padsize or g.class_const( cname, 'SINGLE' ) != single:
            res.bad( src, L( g.classes[cname][0].lineno ), '%s PADSIZE=%r SINGLE=%r' % ( cname, g.class_const( cname, 'PADSIZE' ), g.class_const( cname, 'SINGLE' )),
                     '%s is defined as PADSIZE=%r SINGLE=%r' % ( cname, padsize, single ))
            continue
        if single:
            good = init.cls == 'dfa' and init.kw.get( 'limit' ) is None
            d = 'a single segment, no size'
        else:
            nxt = [ t for s, t, d_ in g.edges_of( init ) if t is not None ]
            if padsize:
                good = init.isa( 'USINT' ) and len( nxt ) == 1 and nxt[0].isa( 'octets_drop' ) and nxt[0].kw.get( 'repeat' ) == 1 \
                    and any( t is not None and t.cls == 'dfa' and t.kw.get( 'limit' ) is not None for s, t, d_ in g.edges_of( nxt[0] ))
                d = 'USINT size (words), one pad octet, segments limited by size'
            else:
                good = init.isa( 'USINT' ) and len( nxt ) == 1 and nxt[0].cls == 'dfa' and nxt[0].kw.get( 'limit' ) is not None
                d = 'USINT size (words), segments limited by size'
        if good:
            res.ok( src, L( g.classes[cname][0].lineno ), '%s parser: %s' % ( cname, d ))
        else:
            res.bad( src, L( g.classes[cname][0].lineno ), '%s parser head' % cname, '%s must parse %s' % ( cname, d ))
    init_fn = src.get( 'EPATH.__init__' )
    si = [ f for f in ast.walk( init_fn ) if isinstance( f, ast.FunctionDef ) and f.name == 'size_init' ]
    if si and pfind( si[0], "_o = data[path + '..size'] * 2" ) and [ r for r in ast.walk( si[0] ) if isinstance( r, ast.Return ) and isinstance( r.value, ast.Name ) ]:
        res.ok( src, si[0], 'size limit = size * 2 octets (size is in words)' )
    else:
        res.bad( src, init_fn, 'size_init', 'the segment limit must be the parsed size (words) times 2' )
    # --- producer (local names are followed by role, not by spelling)
    from .core import Matcher
    pr = src.get( 'EPATH.produce' )
    M = Matcher()
    rets = [ r for r in pr.body if isinstance( r, ast.Return ) ]
    if rets and M.m( rets[-1].value, "USINT.produce( len( _res ) // 2 ) + ( b'\\x00' if cls.PADSIZE else b'' ) + _res" ):
        res.ok( src, rets[-1], 'produce: USINT( len // 2 ) + pad iff PADSIZE + segments' )
    else:
        res.bad( src, rets[-1] if rets else pr, rets[-1].value if rets else 'return', 'the produced size must be len( segments ) // 2 words, followed by one pad octet iff PADSIZE' )
        return res
    R = M.name( '_res' )
    sing = [ i for i in ast.walk( pr ) if isinstance( i, ast.If ) and pmatch( i.test, 'cls.SINGLE' ) and any( pmatch( b_, 'return %s' % R ) for b_ in i.body ) ]
    if sing:
        res.ok( src, sing[0], 'produce: SINGLE returns the bare segment' )
    else:
        res.bad( src, pr, 'EPATH.produce SINGLE', 'a single-segment EPATH is produced without a size' )
    inner = [ f for f in ast.walk( pr ) if isinstance( f, ast.For ) and pmatch( f.iter, 'cls.SEGMENTS.items()' ) and isinstance( f.target, ast.Tuple ) and len( f.target.elts ) == 2 ]
    if len( inner ) != 1:
        raise AnalysisError( 'EPATH.produce: loop over cls.SEGMENTS.items() not found' )
    NAM, TYP = inner[0].target.elts[0].id, inner[0].target.elts[1].id
    vals = pfind( inner[0], '_val = _seg[%s]' % NAM )
    if not vals:
        raise AnalysisError( 'EPATH.produce: segment value lookup not found' )
    VAL, SEG = vals[0][1]['_val'].id, ast.unparse( vals[0][1]['_seg'] )
    # numeric chain
    chain = [ i for i in ast.walk( pr ) if isinstance( i, ast.If ) and pmatch( i.test, '%s <= 255' % VAL ) ]
    if len( chain ) != 1:
        raise AnalysisError( 'EPATH.produce: numeric width chain not found' )
    node = chain[0]
    rows = []
    while isinstance( node, ast.If ):
        rows.append( node )
        node = node.orelse[0] if len( node.orelse ) == 1 and isinstance( node.orelse[0], ast.If ) else None
    expect = [ ( '%s <= 255' % VAL, [ 'USINT.produce( %s )' % TYP, 'USINT.produce( %s )' % VAL ], 8 ),
               ( '%s <= 65535' % VAL, [ 'USINT.produce( %s + 1 )' % TYP, 'USINT.produce( 0 )', 'UINT.produce( %s )' % VAL ], 16 ),
               ( "%s <= 4294967295 and %s == 'element'" % ( VAL, NAM ), [ 'USINT.produce( %s + 2 )' % TYP, 'USINT.produce( 0 )', 'UDINT.produce( %s )' % VAL ], 32 ) ]
    for i, ( test, stmts, bits ) in enumerate( expect ):
        if i >= len( rows ):
            res.bad( src, chain[0], 'EPATH.produce numeric chain', 'no branch produces %d-bit logical segments' % bits )
            continue
        r = rows[i]
        got = [ s_.value for s_ in r.body if isinstance( s_, ast.AugAssign ) and dotted( s_.target ) == R ]
        if pmatch( r.test, test ) and len( got ) == len( stmts ) and all( pmatch( gexp, pat ) for gexp, pat in zip( got, stmts )):
            res.ok( src, r, 'produce %d-bit: opcode%s, %svalue' % ( bits, ' + %d' % i if i else '', 'pad, ' if i else '' ))
        else:
            res.bad( src, r, 'if %s: %s' % ( norm_text( r.test ), [ norm_text( x ) for x in got ] ),
                     'a %d-bit logical segment is %s under the test %s' % ( bits, ', '.join( stmts ), test ))
    # symbolic branch
    sym = [ i for i in ast.walk( pr ) if isinstance( i, ast.If ) and pmatch( i.test, "%s == 'symbolic'" % NAM ) ]
    if sym:
        body = sym[0].body
        S = Matcher()
        ok = S.find( sym[0], '_enc = %s.encode( _e )' % VAL ) is not None and S.find( sym[0], '_len = len( _enc )' ) is not None
        if ok:
            LEN, ENC = S.name( '_len' ), S.name( '_enc' )
            seq = [ txt( s_.value ) for s_ in body if isinstance( s_, ast.AugAssign ) and dotted( s_.target ) == R ]
            pads = [ b_ for b_ in body if isinstance( b_, ast.If ) and pmatch( b_.test, '%s %% 2' % LEN )
                     and ( pfind( b_, '%s += USINT.produce( 0 )' % R ) or pfind( b_, "%s += b'\\x00'" % R )) ]
            ok = seq == [ 'USINT.produce(%s)' % TYP, 'USINT.produce(%s)' % LEN, ENC ] and bool( pads ) and try_fold( S.b['_e'] ) == 'iso-8859-1'
        if ok and isinstance( body[-1], ast.Break ):
            res.ok( src, sym[0], 'produce symbolic: opcode, length, iso-8859-1 characters, pad iff odd' )
        else:
            res.bad( src, sym[0], 'symbolic branch %s' % [ norm_text( s_ )[:40] for s_ in body ][:6], 'symbolic segment = USINT opcode, USINT length, iso-8859-1 encoded characters, one zero pad iff the length is odd' )
    else:
        res.bad( src, pr, 'EPATH.produce', 'symbolic segments are not produced' )
    # the parser decodes symbolic names and link addresses with the same character set
    init_src = txt( src.get( 'EPATH.__init__' ))
    if init_src.count( "decode='iso-8859-1'" ) >= 2:
        res.ok( src, src.get( 'EPATH.__init__' ), 'parser decodes symbolic names and link addresses as iso-8859-1' )
    else:
        res.bad( src, src.get( 'EPATH.__init__' ), 'EPATH parser string decoding', 'symbolic names and link addresses are iso-8859-1 on both sides' )
    # port branch
    prt = [ i for i in ast.walk( pr ) if isinstance( i, ast.If ) and pmatch( i.test, "%s == 'port'" % NAM ) ]
    if prt:
        p = prt[0]
        P = Matcher()
        split = P.find( p, '( _port, _pext ) = ( %s.port, 0 ) if %s.port < 15 else ( 15, %s.port )' % ( SEG, SEG, SEG ))
        intb = [ i for i in ast.walk( p ) if isinstance( i, ast.If ) and pmatch( i.test, 'type( %s.link ) is int' % SEG ) ]
        if split is not None and intb:
            PORT, PEXT = P.name( '_port' ), P.name( '_pext' )
            ib, ab = intb[0].body, intb[0].orelse
            E = Matcher()
            encs = E.find( intb[0], '_enc = %s.link.encode( _e )' % SEG )
            ENC = E.name( '_enc' ) if encs is not None else '?'
            def appended( stmts ):
                out = []
                for s_ in stmts:
                    if isinstance( s_, ast.AugAssign ) and dotted( s_.target ) == R:
                        out.append( txt( s_.value ))
                    elif isinstance( s_, ast.If ):
                        out.append( 'if(' + txt( s_.test ) + '){' + ';'.join( appended( s_.body )) + '}' )
                return out
            want_i = [ 'USINT.produce(%s)' % PORT, 'if(%s){UINT.produce(%s)}' % ( PEXT, PEXT ), 'USINT.produce(%s.link)' % SEG ]
            want_a = [ 'USINT.produce(%s|16)' % PORT, 'USINT.produce(len(%s))' % ENC, 'if(%s){UINT.produce(%s)}' % ( PEXT, PEXT ), ENC ]
            ga = appended( ab )
            padok = len( ga ) == 5 and ga[4] in ( "if(len(%s)%%2){b'\\x00'}" % ENC, "if(len(%s)%%2){USINT.produce(0)}" % ENC )
            if appended( ib ) == want_i and ga[:4] == want_a and padok:
                res.ok( src, p, 'produce port: numeric [port, ext?, link]; address [port|0x10, len, ext?, address, pad iff odd]' )
            else:
                res.bad( src, p, 'port branch: %s / %s' % ( appended( ib ), ga ), 'port segment layout: numeric link = port, [extended port], link; address link = port|0x10, length, [extended port], address, pad iff odd' )
        else:
            res.bad( src, p, 'port branch', 'ports >= 15 must be emitted as the extended marker 0x0F followed by the 16-bit port' )
    else:
        res.bad( src, pr, 'EPATH.produce', 'port segments are not produced' )
    return res


# ---------------------------------------------------------------------------------------- T-NCP (C01)

@rule( 'T-NCP', props=( 'C01', 'C14' ), floor=10 )
def t_ncp( ctx ):
    """defaults.Connection: encode shifts = decode shifts/masks = the CIP Network Connection Parameter bit-fields; Large = the same fields 16 bits up with a 16-bit size"""
    res = Result( 'T-NCP' )
    src = ctx.src( 'server/enip/defaults.py' )
    ini = src.get( 'Connection.__init__' ); dec = src.get( 'Connection.decoding' )
    enc_assign = [ s for s in ast.walk( ini ) if isinstance( s, ast.Assign ) and dotted( s.targets[0] ) == 'self._NCP' and isinstance( s.value, ast.BinOp ) ]
    if len( enc_assign ) != 1:
        raise AnalysisError( 'Connection.__init__: NCP encoding expression not found' )
    enc = enc_assign[0].value
    # ---- encode, decode and the inference of Large are decided by VALUE: the expressions are evaluated on probe words / field values and
    # compared with the CIP bit-field table ( sa/spec.py ), so any equivalent way of writing the shifts and masks passes
    FIELDS = [ ( f, sh, mask ) for f, ( sh, mask ) in sorted( spec.NCP_FIELDS_SMALL.items()) if f != 'size' ]
    def want_ncp( vals, large ):
        w = 0
        for f, sh, mask in FIELDS:
            w |= ( vals[f] & mask ) << sh
        return ( w << ( 16 if large else 0 )) + vals['size']
    # tables the class keeps its fields in ( a shared ( name, shift, mask, default ) table ... ) are read by value too
    consts = {}
    cd = src.get( 'Connection' )
    for a_ in cd.body:
        if isinstance( a_, ast.Assign ) and len( a_.targets ) == 1 and isinstance( a_.targets[0], ast.Name ):
            v_ = try_fold( a_.value, consts, default=NoFold )
            if v_ is not NoFold:
                for pre_ in ( 'self.', 'cls.', 'Connection.', '' ):
                    consts[pre_ + a_.targets[0].id] = v_
    # the locals the encoding is written with: the plain assignments of __init__ that precede it
    def enc_locals( env ):
        for st in ast.walk( ini ):
            if isinstance( st, ast.Assign ) and st.lineno < enc_assign[0].lineno and all( isinstance( t_, ast.Name ) for t_ in st.targets ):
                try:
                    run_block( [ st ], env )
                except NoFold:
                    pass
    bad_enc = None
    n_enc = 0
    for large in ( False, True ):
        base = dict( size=0x1F4 if not large else 0x0FA0, variable=0, priority=0, type=0, redundant=0 )
        probes = [ dict( base ) ] + [ dict( base, **{ f: v } ) for f, sh, mask in FIELDS for v in range( 1, mask + 1 ) ] + [ dict( base, size=1 ), dict( base, size=0x1FF if not large else 0xFFFF ) ]
        for vals in probes:
            env = dict( consts ); env.update( vals ); env['self._large'] = large; env.setdefault( 'NCP', None )
            enc_locals( env )
            try:
                got = fold( enc, env )
            except NoFold as exc:
                raise AnalysisError( 'Connection.__init__: NCP encoding not foldable: %s' % exc )
            n_enc += 1
            if got != want_ncp( vals, large ) and bad_enc is None:
                bad_enc = ( vals, large, got, want_ncp( vals, large ))
    if bad_enc is None:
        for f, sh, mask in FIELDS:
            res.ok( src, enc_assign[0], 'encode: %s << %d' % ( f, sh ))
        res.ok( src, enc_assign[0], 'encode: parameter bits << 16 when large; size added in the low bits ( %d probes )' % n_enc )
    else:
        vals, large, got, want = bad_enc
        res.bad( src, enc_assign[0], 'encode: %s, large=%s -> 0x%X' % ( ', '.join( '%s=%d' % kv for kv in sorted( vals.items())), large, got ),
                 'the CIP Network Connection Parameters of these values are 0x%X ( redundant owner bit 15, type 13-14, priority 10-11, variable 9, size in the low 9 bits; Large: the same parameter bits 16 bits up, size in the low 16 bits )' % want )
    # decode: the whole body of decoding() is run on probe words; the mapping it returns is compared field by field
    words = [ 0, 0xFFFFFFFF ] + [ 1 << k for k in range( 32 ) ] + [ 0x43F4, 0x420001F4 ]
    wrongs = {}
    n_dec = 0
    for large in ( False, True ):
        for w in words:
            if not large and w > 0xFFFF:
                continue
            env_ = dict( consts ); env_.update( { 'self._NCP': w, 'self._large': large, 'self.other': {}, 'dotdict': lambda *a_, **kw_: dict( *a_, **kw_ ) } )
            try:
                out = run_block( dec.body, env_, ignore_calls=( 'log', 'update' ))
            except NoFold as exc:
                raise AnalysisError( 'Connection.decoding: not foldable: %s' % exc )
            if out.kind != 'return' or not isinstance( out.value, dict ):
                raise AnalysisError( 'Connection.decoding: the mapping returned not found ( %r )' % ( out, ))
            n_dec += 1
            for f, ( sh, mask ) in sorted( spec.NCP_FIELDS_SMALL.items() ):
                want = ( w & ( spec.NCP_FIELDS_LARGE['size'][1] if large else mask )) if f == 'size' else ( w >> ( sh + ( 16 if large else 0 ))) & mask
                got = out.value.get( f, 'absent' )
                if got != want and f not in wrongs:
                    wrongs[f] = ( w, large, got, want )
    for f, ( sh, mask ) in sorted( spec.NCP_FIELDS_SMALL.items() ):
        wrong = wrongs.get( f )
        if wrong is None:
            res.ok( src, dec, 'decode: size = NCP & ( 0xFFFF if large else 0x01FF )' if f == 'size' else 'decode: %s = %d-bit field at bit %d (+16 when large)' % ( f, bin( mask ).count( '1' ), sh ))
        else:
            res.bad( src, dec, 'decode %s: NCP 0x%X, large=%s -> %r' % (( f, ) + wrong[:3] ), 'CIP NCP field %s is %s: %r' % ( f, 'the low 9 bits ( small ) / 16 bits ( large )' if f == 'size' else 'mask 0x%X at bit %d (+16 when large)' % ( mask, sh ), wrong[3] ))
    # large inference: the expression stored into self._large where no explicit flag is given
    inf = [ a_ for a_ in ast.walk( ini ) if isinstance( a_, ast.Assign ) and dotted( a_.targets[0] ) == 'self._large' and { 'size', 'NCP' } <= names_in( a_.value ) ]
    if len( inf ) != 1:
        res.bad( src, ini, 'large inference', 'without an explicit flag, Large is inferred from size > 0x1FF or NCP > 0xFFFF' )
    else:
        wrong = None
        for size in ( None, 0, 1, 0x1FF, 0x200, 4000 ):
            for NCP in ( None, 0, 0x43F4, 0xFFFF, 0x10000, 0x420001F4 ):
                try:
                    got = bool( fold( inf[0].value, { 'size': size, 'NCP': NCP } ))
                except NoFold as exc:
                    raise AnalysisError( 'Connection.__init__: large inference not foldable: %s' % exc )
                want = bool( size and size > 0x1FF ) or bool( NCP and NCP > 0xFFFF )
                if got != want and wrong is None:
                    wrong = ( size, NCP, got )
        if wrong is None:
            res.ok( src, inf[0], 'large inferred from size > 0x1FF or NCP > 0xFFFF ( 36 cells )' )
        else:
            res.bad( src, inf[0], 'large inference: size=%r, NCP=%r -> %r' % wrong, 'without an explicit flag, Large is inferred from size > 0x1FF or NCP > 0xFFFF' )
    return res


# ---------------------------------------------------------------------------------------- L-SPEC (C14, C01)

DATA_KINDS = ( 'typed_data', 'raw', 'elements', 'member', 'string' )


def spec_atom_match( sa, a, as_producer=False ):
    """spec atom sa vs extracted atom a"""
    kind = sa[0]
    if kind == 'pad':
        return a[0] == 'K' and a[1] == sa[1]
    if kind == 'repeat':
        if a[0] != 'R':
            return False
        # element names inside a repetition are list positions, not field names: compare formats only
        return any( len( sub ) == len( sa[1] ) and all( spec_atom_match( ( x[0], '' ) if x[0] not in ( 'pad', 'repeat' ) else x, y, as_producer )
                                                        for x, y in zip( sa[1], sub )) for sub in a[2] )
    if kind == 'text_fixed':
        # a field of exactly sa[2] octets: a fixed 'Ns' struct field, or a run of raw octets of that constant length
        return ( a[0] == 'F' and a[1][1] == '%ds' % sa[2] ) or ( a[0] == 'V' and dict( a[3] if len( a ) > 3 else () ).get( 'len' ) == sa[2] )
    if kind == 'data':
        return a[0] == 'V' and a[1] in DATA_KINDS
    if kind in ( 'EPATH', 'EPATH_padded', 'route_path', 'status', 'CPF', 'SSTRING', 'STRING' ):
        return a[0] == 'V' and a[1] == kind
    # fixed field
    if a[0] != 'F' or a[1] != spec.fmt_canon( kind ):
        return False
    p = a[2]
    if isinstance( p, tuple ):
        return as_producer			# LEN( ... ) / constants on the producer side carry no data path
    want = sa[1].replace( '_', '.' )
    have = ( p or '' ).replace( '_', '.' )
    if not want:
        return True
    return have == want or have.endswith( '.' + want ) or ( want.split( '.' )[-1] in have.split( '.' ) and kind in ( '<H', ) and sa[1] in ( 'offset', 'attribute', 'ext', 'number' ))


def spec_seq_match( sseq, atoms, as_producer=False ):
    """spec sequence vs extracted atoms (guard markers ignored; possibly-empty variable parts of the extracted side may be absent in the spec)"""
    atoms = [ a for a in atoms if a[0] != 'G' ]
    memo = {}
    def m( i, j ):
        if ( i, j ) in memo: return memo[( i, j )]
        if i == len( sseq ) and j == len( atoms ):
            r = True
        else:
            r = False
            if i < len( sseq ) and j < len( atoms ) and spec_atom_match( sseq[i], atoms[j], as_producer ):
                r = m( i + 1, j + 1 )
            if not r and j < len( atoms ) and atoms[j][0] == 'V' and atoms[j][1] in DATA_KINDS and not ( i < len( sseq ) and sseq[i][0] == 'data' ):
                r = m( i, j + 1 )
            if not r and i < len( sseq ) and sseq[i][0] == 'data' and not ( j < len( atoms ) and atoms[j][0] == 'V' and atoms[j][1] in DATA_KINDS ):
                r = m( i + 1, j )			# an empty payload
        memo[( i, j )] = r
        return r
    return m( 0, 0 )


def show_spec( sseq ):
    out = []
    for a in sseq:
        if a[0] == 'pad': out.append( 'pad*%d' % a[1] )
        elif a[0] == 'repeat': out.append( 'repeat{ %s }' % show_spec( a[1] ))
        else: out.append( '%s:%s' % ( a[0], a[1] ))
    return ' '.join( out )


@rule( 'L-SPEC', props=( 'C14', 'C01' ), floor=40 )
def l_spec( ctx ):
    """for the messages an independent client uses: the extracted parser accepts the CIP-spec layout field for field, and the reply producers emit exactly a spec layout"""
    return _l_spec( ctx, Result( 'L-SPEC' ), False )


# layouts that matter to an independent peer only ( cpppo's own parser and producer agree with each other on them ): decided by L-SPECTEXT,
# which is registered for the interoperability property alone
INTEROP_ONLY = ( 'communications_service', )


@rule( 'L-SPECTEXT', props=( 'C14', ), floor=1 )
def l_spectext( ctx ):
    """fixed-width text fields of the encapsulation replies ( ListServices name of service: 16 octets, NUL padded ) are produced at the width the specification states"""
    return _l_spec( ctx, Result( 'L-SPECTEXT' ), True )


@rule( 'L-STRLEN', props=( 'C01', 'C14' ), floor=2 )
def l_strlen( ctx ):
    """STRING.produce / SSTRING.produce: behind the count, exactly `length` octets of text ( cut or NUL-filled ) plus - for STRING - one pad octet
    when the length is odd.  Decided by interpreting the statements behind the emission of the count for a table of ( length, actual text
    octets ) cells: length above, equal to and BELOW the text's own length, odd and even.  ( A fill count and the pad folded into one
    product is negative for a text cut to an odd length: the pad is lost and the next element is parsed from a shifted position. )"""
    res = Result( 'L-STRLEN' )
    src = ctx.src( PARSER )
    for cname, padded in (( 'STRING', True ), ( 'SSTRING', False )):
        fn = src.get( cname + '.produce' )
        # the statement that emits the count: result += <UINT|USINT>.produce( value.length )
        cnt = [ a for a in fn.body if isinstance( a, ast.AugAssign ) and isinstance( a.op, ast.Add ) and is_call_to( a.value, 'UINT.produce', 'USINT.produce' ) and txt( a.value.args[0] ).endswith( '.length' ) ]
        if len( cnt ) != 1:
            raise AnalysisError( '%s.produce: emission of the count not found' % cname )
        RES = dotted( cnt[0].target ); LEN = txt( cnt[0].value.args[0] )
        tail = fn.body[fn.body.index( cnt[0] ) + 1:]
        enc = [ a for a in fn.body if isinstance( a, ast.Assign ) and isinstance( a.value, ast.Call ) and isinstance( a.value.func, ast.Attribute ) and a.value.func.attr == 'encode' ]
        act = [ a for a in fn.body if isinstance( a, ast.Assign ) and is_call_to( a.value, 'len' ) and enc and dotted( a.value.args[0] ) == dotted( enc[0].targets[0] ) ]
        if not enc or not act:
            raise AnalysisError( '%s.produce: encoded text / its length not found' % cname )
        ENC, ACT = dotted( enc[0].targets[0] ), dotted( act[0].targets[0] )
        def run( L_, A_ ):
            env = { ACT: A_, ENC: b'x' * A_ }
            class Sub( ast.NodeTransformer ):
                def visit_Attribute( self, n ):
                    return ast.Constant( value=L_ ) if txt( n ) == LEN else self.generic_visit( n ) or n
            out = 0
            def ev( e ):
                v = try_fold( Sub().visit( ast.parse( ast.unparse( e ), mode='eval' ).body ), env, default=NoFold )
                if v is NoFold:
                    raise AnalysisError( '%s.produce: cannot evaluate %s' % ( cname, norm_text( e )))
                return v
            def block( stmts ):
                nonlocal out
                for st in stmts:
                    if isinstance( st, ast.AugAssign ) and dotted( st.target ) == RES:
                        out += len( ev( st.value ))
                    elif isinstance( st, ast.If ):
                        block( st.body if ev( st.test ) else st.orelse )
                    elif isinstance( st, ast.Return ):
                        return
                    elif isinstance( st, ( ast.Expr, ast.Assert, ast.Pass )):
                        continue
                    else:
                        raise AnalysisError( '%s.produce: statement outside the modelled subset behind the count: %s' % ( cname, norm_text( st )[:60] ))
            block( tail )
            return out
        wrong = []
        cells = [ ( L_, A_ ) for L_ in ( 0, 1, 2, 3, 4, 7 ) for A_ in ( 0, 1, 2, 3, 4, 7, 8 ) ]
        for L_, A_ in cells:
            got = run( L_, A_ )
            want = L_ + ( L_ % 2 if padded else 0 )
            res.cells += 1
            if got != want:
                wrong.append(( L_, A_, got, want ))
        if wrong:
            L_, A_, got, want = wrong[0]
            res.bad( src, cnt[0], '%s.produce: length %d with %d octets of text emits %d octets behind the count, not %d ( %d of %d cells differ )' % ( cname, L_, A_, got, want, len( wrong ), len( cells )),
                     'the element does not occupy length%s octets: every element behind it in the same request is parsed from a shifted position' % ( ' + pad' if padded else '' ))
        else:
            res.ok( src, cnt[0], '%s.produce: exactly length%s octets behind the count for all %d ( length, text ) cells' % ( cname, ' + pad' if padded else '', len( cells )))
        # every length the count field can carry is produced, none beyond it: the guard(s) on the length ahead of the count are evaluated at
        # the largest count ( 255 / 65535 ) and one above.  ( A text of exactly 255 octets is parsed and stored by a Write Tag; if the
        # producer then refuses it, the tag that was written with success can never be read again. )
        top = 0xFF if cname == 'SSTRING' else 0xFFFF
        guards = [ a for a in fn.body[:fn.body.index( cnt[0] )] if isinstance( a, ast.Assert ) and LEN in txt( a.test ) ]
        cd = src.get( cname )
        consts = { 'cls.' + t_.id: try_fold( a_.value ) for a_ in cd.body if isinstance( a_, ast.Assign ) for t_ in a_.targets if isinstance( t_, ast.Name ) and try_fold( a_.value ) is not None }
        def admits( L_ ):
            class Sub( ast.NodeTransformer ):
                def visit_Attribute( self, n ):
                    return ast.Constant( value=L_ ) if txt( n ) == LEN else self.generic_visit( n ) or n
            for g in guards:
                v = try_fold( Sub().visit( ast.parse( ast.unparse( g.test ), mode='eval' ).body ), dict( consts ), default=NoFold )
                if v is NoFold:
                    raise AnalysisError( '%s.produce: length guard not foldable: %s' % ( cname, norm_text( g.test )))
                if not v:
                    return False
            return True
        if guards:
            if admits( top ) and admits( 0 ) and not admits( top + 1 ):
                res.ok( src, guards[0], '%s.produce admits every length the count can carry ( 0 .. %d ) and none beyond' % ( cname, top ))
            else:
                res.bad( src, guards[0], '%s.produce: length %d %s, length %d %s' % ( cname, top, 'admitted' if admits( top ) else 'REFUSED', top + 1, 'admitted' if admits( top + 1 ) else 'refused' ),
                         'the count field carries 0 .. %d: a text of exactly %d octets is parsed ( and stored by a Write Tag, status 0x00 ) but can then never be produced - every later read of that tag fails, for every session' % ( top, top ), func=cname + '.produce' )
    return res


@rule( 'G-PADPOS', props=( 'C10', ), floor=1 )
def g_padpos( ctx ):
    """STRING: whether a pad octet follows the text is decided by the LENGTH of the value alone, never by where in the stream it lies - the
    decisions out of the text state give the same answer at an even and at an odd position ( the clause of G-EXACT that bears on what a
    length-limited value may consume; evaluated on ( text, count, position ) samples )"""
    full = g_exact( ctx )
    res = Result( 'G-PADPOS' )
    for f in full.findings:
        if 'where in the stream' in f.construct:
            f.rule = 'G-PADPOS'
            res.findings.append( f )
    for i_ in full.instances:
        if i_['fact'].startswith( 'STRING:' ) and ( i_['verdict'] == 'holds' or 'where in the stream' in i_['fact'] ):
            res.instances.append( dict( i_, rule='G-PADPOS' ))
    if not res.instances and not any( f.func.startswith( 'STRING.' ) for f in full.findings ):
        raise AnalysisError( 'G-PADPOS: the decisions out of the STRING text state were not examined' )
    if not res.instances:	# ( G-EXACT reports another defect of the same decisions; the position clause was evaluated with them )
        res.instances.append( dict( rule='G-PADPOS', site=full.instances[-1]['site'], fact='STRING: decisions evaluated at both parities of the position ( another G-EXACT clause reports them )', verdict='holds', nontrivial=False ))
    return res


@rule( 'G-EXACT', props=( 'C08', ), floor=2 )
def g_exact( ctx ):
    """STRING / SSTRING parsers: the count is a LIMIT on what the text may consume - when the input ends first, the '.*' body is content with
    what there was.  A value is a [S]STRING only when the text holds all `length` octets: the body state is not terminal by itself, and every
    way out of it is a decision whose predicate is false for a text shorter than the count ( evaluated on ( text, count ) samples ) - else a
    Write Tag cut off inside a string stores the fragment and answers success"""
    res = Result( 'G-EXACT' )
    src = ctx.src( PARSER )
    for cname in ( 'SSTRING', 'STRING' ):
        fn = src.get( cname + '.__init__' )
        body = [ a for a in ast.walk( fn ) if isinstance( a, ast.Assign ) and is_call_to( a.value, 'string_bytes' ) and any( k.arg == 'limit' for k in a.value.keywords ) ]
        if len( body ) != 1:
            raise AnalysisError( '%s.__init__: the length-limited string_bytes( ... limit= ... ) state not found' % cname )
        b = body[0]
        term = [ k for k in b.value.keywords if k.arg == 'terminal' and try_fold( k.value ) ]
        names = [ t.id for t in b.targets if isinstance( t, ast.Name ) ]
        exits = [ a for a in ast.walk( fn ) if isinstance( a, ast.Assign ) and any( isinstance( t, ast.Subscript ) and isinstance( t.value, ast.Name ) and t.value.id in names for t in a.targets ) ]
        if term:
            res.bad( src, b, '%s: the text state is terminal by itself' % cname,
                     'a value whose text ends with the input before `length` octets were seen is accepted: a Write Tag cut off inside a string stores the fragment and is answered with success', func=cname + '.__init__' )
            continue
        if not exits:
            raise AnalysisError( '%s.__init__: no transition out of the text state found' % cname )
        lambdas = { a.targets[0].id: a.value for a in ast.walk( fn ) if isinstance( a, ast.Assign ) and isinstance( a.targets[0], ast.Name ) and isinstance( a.value, ast.Lambda ) }
        def pred_of( e ):
            if not is_call_to( e, 'decide', 'move_if' ):
                return None
            p_ = [ k.value for k in e.keywords if k.arg == 'predicate' ]
            p_ = p_[0] if p_ else None
            if isinstance( p_, ast.Name ):
                p_ = lambdas.get( p_.id )
            return p_ if isinstance( p_, ast.Lambda ) else None
        def holds( lam, text, count, more=True ):
            class Sub( ast.NodeTransformer ):
                def visit_Attribute( self, n ):
                    t_ = txt( n ).replace( ' ', '' )
                    if t_ == 'data[path].string': return ast.Constant( value=text )
                    if t_ == 'data[path].length': return ast.Constant( value=count )
                    return self.generic_visit( n ) or n
            # ( the value may begin anywhere in the stream: what the source has sent so far is given both parities, and the decision is the same )
            vs = [ try_fold( Sub().visit( ast.parse( ast.unparse( lam.body ), mode='eval' ).body ), { 'source.peek': lambda: ( 0x41 if more else None ), 'source.sent': sent_ }, default=NoFold )
                   for sent_ in ( 2 + len( text ), 3 + len( text )) ]
            if NoFold in vs:
                raise AnalysisError( '%s.__init__: predicate outside the modelled subset: %s' % ( cname, norm_text( lam.body )[:80] ))
            if bool( vs[0] ) != bool( vs[1] ):
                posdep.append(( lam, text, count ))
            return bool( vs[0] )
        bad = None
        posdep = []
        for a in exits:
            lam = pred_of( a.value )
            if lam is None:
                # a state that must consume an octet is no way out for a text that fell short: the text ended because the input ( or an
                # enclosing limit ) did, so the pad cannot be had either and the machine stays non-terminal
                if is_call_to( a.value, 'octets_drop' ) and ( try_fold( dict(( k.arg, k.value ) for k in a.value.keywords ).get( 'repeat' )) or 0 ) >= 1:
                    continue
                bad = ( a, 'an unconditional way out of the text state' )
                break
            short = [ ( t, c ) for t, c in (( 'abc', 5 ), ( 'abc', 4 ), ( '', 1 ), ( 'abcd', 9 ), ( 'a', 2 )) if holds( lam, t, c ) or holds( lam, t, c, more=False ) ]
            # STRING: a text of odd length is followed by a pad octet, which belongs to the value ( L-STRLEN: produce emits it ).  The way out to
            # a terminal state that consumes nothing is therefore closed for every odd count, whatever is left of the input - "nothing left, so
            # no pad to drop" accepts a value cut off one octet short
            st_kw = [ k.value for k in a.value.keywords if k.arg == 'state' ]
            direct = bool( st_kw ) and isinstance( st_kw[0], ast.Call ) and ( call_name( st_kw[0] ) or '' ).endswith( 'octets_noop' ) \
                and any( k.arg == 'terminal' and try_fold( k.value ) for k in st_kw[0].keywords )
            pads = any( is_call_to( x.value, 'octets_drop' ) for x in exits )
            if not short and direct and pads:
                odd = [ ( t, c, m ) for t, c in (( 'abc', 3 ), ( 'a', 1 ), ( 'abcde', 5 )) for m in ( True, False ) if holds( lam, t, c, more=m ) ]
                if odd:
                    bad = ( a, 'the way out %s to a terminal state is taken for a complete text of odd length %d%s: its pad octet is not awaited' % (
                        norm_text( a.targets[0] ), odd[0][1], '' if odd[0][2] else ' when no input is left' ))
                    break
            if short:
                bad = ( a, 'the way out %s is taken for a text of %d octets under a count of %d' % ( norm_text( a.targets[0] ), len( short[0][0] ), short[0][1] ))
                break
        full = [ ( t, c ) for t, c in (( 'abc', 3 ), ( 'abcd', 4 ), ( 'a', 1 ), ( 'ab', 2 )) if not any( pred_of( a.value ) is None or holds( pred_of( a.value ), t, c ) for a in exits ) ]
        if posdep and not bad:
            res.bad( src, posdep[0][0], '%s: the way out of the text state is decided by where in the stream the value lies ( a text of %d octets under a count of %d: one answer at an even position, another at an odd one )' % (
                         cname, len( posdep[0][1] ), posdep[0][2] ),
                     'the pad octet belongs to a value of odd LENGTH wherever it begins: behind an odd number of octets an even-length string takes one octet of what follows it, an odd-length one leaves its pad behind', func=cname + '.__init__' )
        elif bad:
            res.bad( src, bad[0], '%s: %s' % ( cname, bad[1] ),
                     'a value whose text ends with the input before `length` octets were seen is accepted: a Write Tag cut off inside a string stores the fragment and is answered with success', func=cname + '.__init__' )
        elif full:
            res.bad( src, exits[0], '%s: no way out of the text state for a complete text of %d octets' % ( cname, full[0][1] ), 'a complete string value is refused', func=cname + '.__init__' )
        else:
            res.ok( src, b, '%s: the text state is left only by decisions that are false for a text shorter than its count, and one is true for each complete text ( %d exits )' % ( cname, len( exits )))
    return res


@rule( 'L-PRODUCIBLE', props=( 'C01', ), floor=8 )
def l_producible( ctx ):
    """sibling exhaustiveness of the two dispatch tables of the encapsulation grammar: every class that CIP.COMMAND_PARSERS / CPF.ITEM_PARSERS
    selects as the PARSER of a command / item has a `produce` of its own ( defined in the class or inherited from a base in the same file ) -
    CIP.produce and CPF.produce call <class>.produce( ... ) for whatever was parsed: a message that parses but whose class has no producer
    cannot be regenerated ( AttributeError )"""
    res = Result( 'L-PRODUCIBLE' )
    src = ctx.src( PARSER )
    g = grammar_of( ctx )
    def has_produce( cname, seen=() ):
        if cname not in g.classes or cname in seen:
            return False
        cd = g.classes[cname][0]
        if any( isinstance( f, ast.FunctionDef ) and f.name == 'produce' for f in cd.body ):
            return True
        return any( has_produce( b, seen + ( cname, )) for b in g.bases( cname ))
    for owner, table in (( 'CIP', 'COMMAND_PARSERS' ), ( 'CPF', 'ITEM_PARSERS' )):
        cd = src.get( owner )
        tabs = [ a for a in cd.body if isinstance( a, ast.Assign ) and any( dotted( t ) == table for t in a.targets ) and isinstance( a.value, ast.Dict ) ]
        if not tabs:
            raise AnalysisError( '%s.%s not found' % ( owner, table ))
        for k, v in zip( tabs[0].value.keys, tabs[0].value.values ):
            cname = ( dotted( v ) or '' ).split( '.' )[-1]
            if cname not in g.classes:
                raise AnalysisError( '%s.%s: %s is not a class of the grammar' % ( owner, table, norm_text( v )))
            if has_produce( cname ):
                res.ok( src, v, '%s[%s] = %s: has a producer' % ( table, norm_text( k ), cname ))
            else:
                res.bad( src, v, '%s[%s] = %s has no produce()' % ( table, norm_text( k ), cname ), 'the command / item parses ( into .%s ) but %s.produce raises AttributeError for it: the parsed message cannot be regenerated' % ( cname, owner ) )
    return res


@rule( 'L-SOCKADDR', props=( 'C01', 'C14' ), floor=8 )
def l_sockaddr( ctx ):
    """the fields of the struct sockaddr_in carried by the List Identity item and the Legacy 0x0001 reply ( sin_family, sin_port, sin_addr ) are in
    NETWORK byte order, unlike everything else in CIP: every codec applied to one of them - a parser state with context='sin_*', a
    <CLASS>.produce( ... sin_* ... ), a machine run over the produced sin_addr octets, a struct.pack / unpack of them - is a big-endian one"""
    res = Result( 'L-SOCKADDR' )
    g = grammar_of( ctx )
    src = ctx.src( PARSER )
    def order_of( cname ):
        fmt = g.class_const( cname, 'struct_format' ) if cname in g.classes else None
        return fmt[0] if isinstance( fmt, str ) and fmt and fmt[0] in '<>!=@' else ( '@' if isinstance( fmt, str ) else None )
    def about_sockaddr( e ):
        return any(( isinstance( x, ast.Name ) and x.id.startswith( 'sin_' )) or ( isinstance( x, ast.Attribute ) and x.attr.startswith( 'sin_' )) for x in ast.walk( e ))
    def judge( node, cname, what ):
        o = order_of( cname )
        if o is None:
            if cname in g.classes and 'TYPE' not in g.mro( cname ):
                return				# a composite codec ( IPADDR_network is a TYPE; dfa-based ones carry no format )
            raise AnalysisError( 'L-SOCKADDR: byte order of %s unknown' % cname )
        if o in '>!':
            res.ok( src, node, '%s: %s, network order' % ( what, cname ))
        else:
            res.bad( src, node, '%s uses %s ( byte order %r )' % ( what, cname, o ), 'the sockaddr_in fields are big-endian on the wire: decoded or encoded little-endian the address comes out reversed ( 127.0.0.1 -> 1.0.0.127 ), the port byte-swapped' )
    for fn in [ f for f in ast.walk( src.tree ) if isinstance( f, ast.FunctionDef ) ]:
        for c in walk_no_nested( fn ):
            if not isinstance( c, ast.Call ):
                continue
            cn = call_name( c ) or ''
            ctxv = [ try_fold( k.value ) for k in c.keywords if k.arg == 'context' ]
            if ctxv and isinstance( ctxv[0], str ) and ctxv[0].startswith( 'sin_' ) and ctxv[0] != 'sin_zero' and cn.split( '.' )[-1] in g.classes:
                judge( c, cn.split( '.' )[-1], 'parser state for %s' % ctxv[0] )
            elif cn.endswith( '.produce' ) and c.args and about_sockaddr( c.args[0] ) and cn.split( '.' )[-2] in g.classes:
                judge( c, cn.split( '.' )[-2], 'producer of %s' % norm_text( c.args[0] )[:30] )
            elif cn in ( 'struct.pack', 'struct.unpack', 'struct.unpack_from', 'struct.pack_into' ) and any( about_sockaddr( a ) for a in c.args[1:] ):
                f0 = c.args[0]
                fmt = try_fold( f0, default=None )
                if fmt is None and isinstance( f0, ast.Attribute ) and f0.attr == 'struct_format' and ( dotted( f0.value ) or '' ).split( '.' )[-1] in g.classes:
                    fmt = g.class_const(( dotted( f0.value ) or '' ).split( '.' )[-1], 'struct_format' )
                if not isinstance( fmt, str ):
                    raise AnalysisError( 'L-SOCKADDR: format of %s unknown' % norm_text( c )[:60] )
                if fmt[:1] in '>!':
                    res.ok( src, c, '%s of a sockaddr field with format %r' % ( cn, fmt ))
                else:
                    res.bad( src, c, '%s of a sockaddr field with format %r' % ( cn, fmt ), 'the sockaddr_in fields are big-endian on the wire: decoded or encoded little-endian the address comes out reversed ( 127.0.0.1 -> 1.0.0.127 )' )
            elif isinstance( c.func, ast.Attribute ) and c.func.attr == 'run' and any( k.arg == 'source' and about_sockaddr( k.value ) for k in c.keywords ):
                # machine.run( source=<sin_addr octets> ... ): the machine comes from `with <CLASS>() as machine`
                ws = [ w for w in src.ancestors( c ) if isinstance( w, ast.With ) and any( isinstance( i.optional_vars, ast.Name ) and i.optional_vars.id == dotted( c.func.value ) and isinstance( i.context_expr, ast.Call ) for i in w.items ) ]
                if not ws:
                    raise AnalysisError( 'L-SOCKADDR: the machine run over sockaddr octets is not created by an enclosing with' )
                cname = ( call_name( [ i for i in ws[0].items if isinstance( i.optional_vars, ast.Name ) and i.optional_vars.id == dotted( c.func.value ) ][0].context_expr ) or '' ).split( '.' )[-1]
                judge( c, cname, 'parser run over the sockaddr octets' )
    return res


# Identity object ( class 0x01 ) instance attributes, CIP Vol 1, 5A-2.2: all unsigned.  ( Revision is a STRUCT of two USINT - cpppo keeps it as
# one 16-bit word, which has the same octets. )
IDENTITY_ATTRS = { 1: ( 'H', 'Vendor ID' ), 2: ( 'H', 'Device Type' ), 3: ( 'H', 'Product Code' ), 4: ( 'H', 'Revision' ), 5: ( 'H', 'Status' ), 6: ( 'I', 'Serial Number' ) }


@rule( 'L-IDENT', props=( 'C14', ), floor=6 )
def l_ident( ctx ):
    """the Identity object's instance attributes 1-6 are declared with the unsigned types of the specification ( a configured Vendor / Device
    Type / Product Code above 0x7FFF is legal; declared INT it cannot be packed: List Identity is answered with encapsulation status 8, Get
    Attribute Single fails ), and the List Identity reply takes each value from the attribute under the type it was parsed with"""
    res = Result( 'L-IDENT' )
    g = grammar_of( ctx )
    src = ctx.src( 'server/enip/device.py' )
    fn = src.get( 'Identity.__init__' )
    decl = {}
    for a in ast.walk( fn ):
        if isinstance( a, ast.Assign ) and isinstance( a.targets[0], ast.Subscript ) and dotted( a.targets[0].value ) == 'self.attribute' and is_call_to( a.value, 'Attribute' ) and len( a.value.args ) >= 2:
            k = try_fold( a.targets[0].slice )
            if isinstance( k, str ) and k.isdigit():
                decl[int( k )] = ( a, dotted( a.value.args[1] ))
    for num, ( code, what ) in sorted( IDENTITY_ATTRS.items() ):
        if num not in decl:
            res.bad( src, fn, 'Identity attribute %d ( %s ) is not declared' % ( num, what ), 'an independent client reads it' ); continue
        a, tname = decl[num]
        fmt = g.class_const( tname.split( '.' )[-1], 'struct_format' ) if tname and tname.split( '.' )[-1] in g.classes else None
        if isinstance( fmt, str ) and fmt.lstrip( '<>=!@' ) == code:
            res.ok( src, a, 'Identity attribute %d ( %s ): %s, format %r' % ( num, what, tname, fmt ))
        else:
            res.bad( src, a, 'Identity attribute %d ( %s ) is declared %s ( format %r )' % ( num, what, tname, fmt ),
                     'the specification makes it unsigned ( %r ): a configured value above the signed range cannot be packed - List Identity is answered with encapsulation status 8 and no item' % code )
    # the List Identity reply reads attribute <n> through the key of the type it is declared with
    usrc = ctx.src( 'server/enip/ucmm.py' )
    ufn = usrc.get( 'UCMM.list_identity' )
    n = 0
    for t in ast.walk( ufn ):
        if isinstance( t, ast.Tuple ) and len( t.elts ) == 4 and isinstance( t.elts[2], ast.Tuple ) and len( t.elts[2].elts ) == 3 and isinstance( t.elts[3], ast.Lambda ) \
           and ( dotted( t.elts[2].elts[0] ) or '' ).endswith( 'Identity.class_id' ):
            num = try_fold( t.elts[2].elts[2] )
            body = t.elts[3].body
            key = body.attr if isinstance( body, ast.Attribute ) and isinstance( body.value, ast.Name ) else None
            if num in decl and key is not None:
                n += 1
                want = ( decl[num][1] or '' ).split( '.' )[-1]
                if key == want:
                    res.ok( usrc, t, 'List Identity reads attribute %d through .%s' % ( num, key ))
                else:
                    res.bad( usrc, t, 'List Identity reads attribute %d ( declared %s ) through .%s' % ( num, want, key ), 'the attribute parses itself into the key of its own type: the value is not found and the reply fails' )
    if n < 4:
        raise AnalysisError( 'UCMM.list_identity: the table of ( name, default, ( Identity.class_id, 1, <attribute> ), getter ) rows not found' )
    return res


def _l_spec( ctx, res, interop_only ):
    g = grammar_of( ctx )
    layouts = { ( e['cls'], e['number'] ): e for e in service_layouts( ctx ) }
    for key, sseqs in sorted( spec.MESSAGE_LAYOUTS.items(), key=lambda kv: str( kv[0] )):
        if interop_only or key[1] in INTEROP_ONLY:
            continue
        if key[0] == 'service':
            e = layouts.get(( key[1], key[2] ))
            label = '%s service 0x%02X' % ( key[1], key[2] )
            if e is None:
                res.bad( ctx.src( 'server/enip/device.py' ), None, label, 'no parser is registered for a service an independent client uses', func=key[1] )
                continue
            Q = e['Q']; site_src = ctx.src( FILES[e['site'][0]] ); line = e['site'][1]
        else:
            m = g.machines.get( key[1] )
            label = 'class %s' % key[1]
            if m is None:
                raise AnalysisError( 'machine %s not extracted' % key[1] )
            Q = resolve_struct_lits( ParserLayout( g ).seqs( m.sub_initial(), '' ))
            site_src = ctx.src( FILES[m.site[0]] ); line = g.classes[key[1]][0].lineno
        for sseq in sseqs:
            if any( x[0] == 'text_fixed' for x in sseq ):
                continue			# fixed text fields are decided on the producer side only ( how a parser spells "n octets, NUL padded" is open )
            if any( spec_seq_match( sseq, q.atoms ) for q in Q ):
                res.ok( site_src, L( line ), '%s: parser accepts spec layout [%s]' % ( label, show_spec( sseq )))
            else:
                closest = max( Q, key=lambda q: sum( 1 for x, y in zip( sseq, [ a for a in q.atoms if a[0] != 'G' ] ) if spec_atom_match( x, y )))
                res.bad( site_src, L( line ), '%s: spec layout [%s] is not accepted' % ( label, show_spec( sseq )),
                         'closest parser layout [%s]: a reference encoding would be mis-parsed' % show_seq( closest ), func=label )
    # class-level producers against the spec: every layout <class>.produce can emit is a spec layout of that class
    for key, sseqs in sorted( spec.MESSAGE_LAYOUTS.items(), key=lambda kv: str( kv[0] )):
        if key[0] != 'class' or key[1] not in CODEC_PAIRS or ( key[1] in INTEROP_ONLY ) != interop_only:
            continue
        fn_, P_, Q_, unknown_ = codec_layouts( ctx, key[1] )
        if unknown_:
            res.note( '%s.produce: constructs outside the modelled subset; producer side not decided against the spec' % key[1] )
            continue
        psrc = ctx.src( PARSER )
        seen_ = set()
        for p in P_:
            if p.atoms in seen_:
                continue
            seen_.add( p.atoms )
            if any( spec_seq_match( sseq, p.atoms, as_producer=True ) for sseq in sseqs ):
                res.ok( psrc, L( p.trace[0][0] if p.trace and isinstance( p.trace[0][0], int ) else fn_.lineno ), 'class %s: produced layout [%s] is a spec layout' % ( key[1], show_seq( p )))
            else:
                res.bad( psrc, L( p.trace[0][0] if p.trace and isinstance( p.trace[0][0], int ) else fn_.lineno ), 'class %s: produced layout [%s] is not a spec layout' % ( key[1], show_seq( p )),
                         'spec: %s - an independent peer decodes these bytes differently' % ' | '.join( '[%s]' % show_spec( q ) for q in sseqs ), func=key[1] + '.produce' )
    if interop_only:
        return res
    for cname, num in spec.REPLY_PRODUCERS:
        e = layouts.get(( cname, num ))
        if e is None or e['sel'] is None:
            res.bad( ctx.src( 'server/enip/device.py' ), None, '%s 0x%02X reply producer' % ( cname, num ), 'no producer branch', func=cname + '.produce' )
            continue
        sseqs = spec.MESSAGE_LAYOUTS[( 'service', cname, num )]
        seen_atoms = set()
        for p in e['P']:
            if p.atoms in seen_atoms:
                continue
            seen_atoms.add( p.atoms )
            if any( spec_seq_match( sseq, p.atoms, as_producer=True ) for sseq in sseqs ):
                res.ok( e['src'], L( p.trace[0][0] if p.trace and isinstance( p.trace[0][0], int ) else e['pfn'].lineno ),
                        '%s 0x%02X: produced reply [%s] is a spec layout' % ( cname, num, show_seq( p )))
            else:
                res.bad( e['src'], L( p.trace[0][0] if p.trace and isinstance( p.trace[0][0], int ) else e['pfn'].lineno ),
                         '%s 0x%02X: produced reply [%s] is no spec layout' % ( cname, num, show_seq( p )),
                         'spec layouts: %s' % ' | '.join( '[' + show_spec( s ) + ']' for s in sseqs ), func=cname + '.produce' )
    return res


# ---------------------------------------------------------------------------------------- L-CODEC (C01): class-level produce() vs the class's own parser

CODEC_PAIRS = ( 'status', 'register', 'send_data', 'connection_ID', 'connection_data', 'unconnected_send', 'CPF', 'SSTRING', 'STRING',
                'IFACEADDRS', 'identity_object', 'communications_service' )


def codec_layouts( ctx, name ):
    g = grammar_of( ctx )
    src = ctx.src( PARSER )
    fn = src.get( name + '.produce' )
    args = [ a.arg for a in fn.args.args ]
    art = args[1] if args and args[0] in ( 'cls', 'self' ) and len( args ) > 1 else args[0]
    pr = ProducerLayout( g, fn, name, art )
    P = resolve_struct_lits( pr.block( fn.body, [ Seq() ], {}, {} ))
    m = g.machines.get( name )
    if m is None:
        raise AnalysisError( 'machine %s not extracted' % name )
    Q = resolve_struct_lits( ParserLayout( g ).seqs( m.sub_initial(), '' ))
    return fn, P, Q, pr.unknown


@rule( 'L-CODEC', props=( 'C01', 'C14' ), floor=12 )
def l_codec( ctx ):
    """class-level codecs (status, register, send_data, CPF and its items, unconnected_send, SSTRING/STRING, IFACEADDRS, identity/services items): every layout produce() can emit is accepted by the class's own parser; enip_encode emits the 24-byte header the frame machine parses"""
    res = Result( 'L-CODEC' )
    src = ctx.src( PARSER )
    for name in CODEC_PAIRS:
        fn, P, Q, unknown = codec_layouts( ctx, name )
        if unknown:
            res.note( '%s.produce: constructs outside the modelled subset (%s); pair not decided' % ( name, unknown[:2] ))
            continue
        seen = set()
        for p in P:
            if p.atoms in seen:
                continue
            seen.add( p.atoms )
            if any( seq_match( p.atoms, q.atoms )[0] for q in Q ):
                res.ok( src, L( p.trace[0][0] if p.trace and isinstance( p.trace[0][0], int ) else fn.lineno ), '%s: produced layout [%s] is accepted by its parser' % ( name, show_seq( p )))
            else:
                best = max( Q, key=lambda q: ( seq_match( p.atoms, q.atoms )[1] or 0 ))
                i = seq_match( p.atoms, best.atoms )[1]
                pa = show_atom( p.atoms[i] ) if i < len( p.atoms ) else '(end of message)'
                line = p.trace[min( i, len( p.trace ) - 1 )][0] if p.trace else fn.lineno
                res.bad( src, L( line if isinstance( line, int ) else fn.lineno ), '%s.produce: field %d (%s) is not what the %s parser expects there' % ( name, i, pa, name ),
                         'produced layout [%s]; closest parser layout [%s]' % ( show_seq( p ), show_seq( best )), func=name + '.produce' )
    # enip_encode vs the frame machine (header fields in order, then the payload)
    g = grammar_of( ctx )
    fn = src.get( 'enip_encode' )
    pr = ProducerLayout( g, fn, 'enip_encode', fn.args.args[0].arg )
    P = pr.block( fn.body, [ Seq() ], {}, {} )
    m = g.machines.get( 'enip_machine' )
    Q = ParserLayout( g ).seqs( m.sub_initial().sub_initial(), '' )		# the header chain
    hdr = max( Q, key=lambda q: len( q.atoms ))
    if pr.unknown:
        raise AnalysisError( 'enip_encode: construct outside the modelled subset: %s' % pr.unknown[:2] )
    for p in P:
        head = tuple( a for a in p.atoms )[:len( hdr.atoms )]
        ok, i = seq_match( head, hdr.atoms )
        tail = p.atoms[len( hdr.atoms ):]
        if ok and len( tail ) <= 1 and all( a[0] == 'V' for a in tail ):
            res.ok( src, fn, 'enip_encode emits the header [%s] then the payload' % show_seq( Seq( head )))
        else:
            res.bad( src, fn, 'enip_encode layout [%s]' % show_seq( p ), 'the frame machine parses [%s] then `length` payload octets' % show_seq( hdr ), func='enip_encode' )
    # the length field is the length of what is appended
    if pfind( fn, "UINT.produce( len( data.input ) if 'input' in data else 0 )" ) and pfind( fn, "octets_encode( data.input ) if 'input' in data else b''" ):
        res.ok( src, fn, 'enip_encode: length field = len( data.input ), payload = data.input' )
    else:
        res.bad( src, fn, 'enip_encode length/payload', 'the header length must be the length of the payload appended', func='enip_encode' )
    return res


@rule( 'K-NCPSTATE', props=( 'C01', 'C14' ), floor=2 )
def k_ncpstate( ctx ):
    """defaults.Connection keeps its parameters as the coupled pair ( _NCP, _large ): every property that decodes _NCP reads _large.  A method
    that changes one of the two must not read a decoding property until the other has been stored as well (typestate over the method's CFG),
    and must leave the pair consistent."""
    res = Result( 'K-NCPSTATE' )
    src = ctx.src( 'server/enip/defaults.py' )
    cd = src.get( 'Connection' )
    # derived readers: properties / methods of the class whose body reads both self._NCP and self._large (transitively through other readers)
    fns = { f.name: f for f in cd.body if isinstance( f, ast.FunctionDef ) }
    reads = {}
    for f in cd.body:
        if isinstance( f, ast.FunctionDef ) and not any( isinstance( d, ast.Attribute ) and d.attr == 'setter' for d in f.decorator_list ):
            reads.setdefault( f.name, set()).update( a.attr for a in ast.walk( f ) if isinstance( a, ast.Attribute ) and dotted( a.value ) == 'self' and isinstance( a.ctx, ast.Load ))
    changed = True
    while changed:
        changed = False
        for nme, rs in reads.items():
            for r in list( rs ):
                if r in reads and r != nme and not reads[r] <= rs:
                    rs |= reads[r]; changed = True
    decoders = { n for n, rs in reads.items() if { '_NCP', '_large' } <= rs and n != '__init__' }
    if 'decoding' not in decoders:
        raise AnalysisError( 'defaults.Connection: the decoding property (reads _NCP under _large) not found' )
    n = 0
    for f in cd.body:
        if not isinstance( f, ast.FunctionDef ) or f.name == '__init__':
            continue
        stores = [ s for s in ast.walk( f ) if isinstance( s, ( ast.Assign, ast.AugAssign )) and any(
            dotted( t ) in ( 'self._NCP', 'self._large' ) for t in ( s.targets if isinstance( s, ast.Assign ) else [ s.target ] )) ]
        if not stores:
            continue
        n += 1
        cfg = CFG( f )
        def transfer( nd, label, st ):
            if label == 'exc':
                return st
            if nd.kind == 'stmt' and isinstance( nd.stmt, ( ast.Assign, ast.AugAssign )):
                for t in ( nd.stmt.targets if isinstance( nd.stmt, ast.Assign ) else [ nd.stmt.target ] ):
                    d = dotted( t )
                    if d == 'self._NCP':
                        st = st | { 'ncp' }
                    elif d == 'self._large':
                        st = st | { 'large' }
                if st == frozenset( [ 'ncp', 'large' ] ):
                    st = frozenset()
            return st
        state = cfg.forward( frozenset(), transfer, lambda a, b: a | b )
        bad = False
        for nd in cfg.nodes:
            own = nd.own()
            if own is None or nd not in state:
                continue
            # the value side of a store is evaluated before the store: check reads against the state BEFORE this node
            for a in ast.walk( own ):
                if isinstance( a, ast.Attribute ) and dotted( a.value ) == 'self' and a.attr in decoders and isinstance( a.ctx, ast.Load ) and state[nd]:
                    bad = True
                    res.bad( src, a, 'Connection.%s: self.%s read after %s was changed alone' % ( f.name, a.attr, ' and '.join( '_' + x.upper() if x == 'ncp' else '_' + x for x in sorted( state[nd] ))),
                             'the stored parameter word is decoded with the masks and shifts of the OTHER size class: a small NCP read as large (or vice versa) yields a different connection type, priority and size, and the re-encoded word no longer describes the connection', func='Connection.' + f.name )
        ex = state.get( cfg.exit, frozenset())
        if ex:
            bad = True
            res.bad( src, f, 'Connection.%s leaves ( _NCP, _large ) half-updated: only %s stored on some path' % ( f.name, sorted( ex )),
                     'the parameter word and its size class must change together', func='Connection.' + f.name )
        if not bad:
            res.ok( src, f, 'Connection.%s: no decoding property is read between the stores of _NCP and _large, and both are stored on every path that stores one' % f.name )
    # the constructor: a supplied NCP word is kept verbatim only while some parameter is left to it; a FULLY specified parameter set is encoded
    # afresh ( that is how the `large` setter re-encodes: Connection( **decoding-with-large-flipped ) carries the old word along )
    ini = src.get( 'Connection.__init__' )
    keep = [ i for i in walk_no_nested( ini ) if isinstance( i, ast.If ) and any( pmatch( b, 'self._NCP = NCP' ) is not None for b in i.orelse )
             and any( isinstance( b, ast.Assign ) and dotted( b.targets[0] ) == 'self._NCP' for b in i.body ) ]
    if len( keep ) != 1:
        raise AnalysisError( 'Connection.__init__: the choice between encoding the parameters and keeping the supplied NCP not found' )
    params = [ a.arg for a in ini.args.args if a.arg in ( 'size', 'variable', 'priority', 'type', 'redundant' ) ]
    ld_ = { t.id: a.value for a in sorted(( a for a in walk_no_nested( ini ) if isinstance( a, ast.Assign )), key=lambda a: a.lineno ) for t in a.targets if isinstance( t, ast.Name ) }
    wrong = []
    for ncp, full in (( None, True ), ( None, False ), ( 0x43F4, True ), ( 0x43F4, False )):
        env = dict( NCP=ncp, **{ p_: ( 1 if full else None ) for p_ in params } )
        for nm, val in ld_.items():
            v_ = try_fold( val, env, NoFold )
            if v_ is not NoFold:
                env[nm] = v_
        got = try_fold( keep[0].test, env, NoFold )
        if got is NoFold:
            raise AnalysisError( 'Connection.__init__: encode-or-keep condition outside the modelled subset: %s' % norm_text( keep[0].test ))
        want = ncp is None or full
        if bool( got ) != want:
            wrong.append(( ncp, full, bool( got )))
    if wrong:
        res.bad( src, keep[0], 'Connection.__init__: with NCP %s and %s parameters the word is %s' % ( 'given' if wrong[0][0] is not None else 'absent', 'fully specified' if wrong[0][1] else 'partly specified', 'encoded afresh' if wrong[0][2] else 'kept verbatim' ),
                 'Connection( **decoding ) with the size class flipped keeps the word of the OTHER class: the `large` setter only flips the flag, a small NCP goes out unshifted in the 32-bit field and parses back as another connection', func='Connection.__init__' )
    else:
        res.ok( src, keep[0], 'Connection.__init__ encodes afresh when no NCP is given or all parameters are; keeps a supplied NCP only for partly specified parameters (4 cells)' )
    if n < 1:
        raise AnalysisError( 'defaults.Connection: no method storing _NCP / _large found' )
    res.ok( src, cd, 'decoding readers of ( _NCP, _large ): %s' % sorted( decoders ), nontrivial=False )
    return res


class _GetAsAttr( ast.NodeTransformer ):
    """D.get( 'k' ) -> D.k : a dotdict read of the same abstract location"""
    def visit_Call( self, node ):
        self.generic_visit( node )
        if isinstance( node.func, ast.Attribute ) and node.func.attr == 'get' and len( node.args ) == 1 and isinstance( node.args[0], ast.Constant ) and isinstance( node.args[0].value, str ):
            return ast.copy_location( ast.Attribute( value=node.func.value, attr=node.args[0].value, ctx=ast.Load()), node )
        return node


@rule( 'K-FOWIDTH', props=( 'C01', 'C14' ), floor=12 )
def k_fowidth( ctx ):
    """the Forward Open request producer emits a service code and two NCP words whose WIDTH (16 / 32 bit) is selected by a size-class flag; the
    parser selects the width from the service code alone.  Decision table over ( size class of each connection, supplied service code ):
    the statements ahead of the first emission are interpreted on every cell - a cell reaches the emission only with
    ( service == the code registered with the 32-bit grammar ) == ( the flag that selects DWORD ); every other cell must raise."""
    res = Result( 'K-FOWIDTH' )
    src = ctx.src( 'server/enip/device.py' )
    cm = src.get( 'Connection_Manager' )
    fn = src.get( 'Connection_Manager.produce' )
    # class constants
    consts = {}
    for st in cm.body:
        if isinstance( st, ast.Assign ) and len( st.targets ) == 1 and isinstance( st.targets[0], ast.Name ):
            v = try_fold( st.value, consts, NoFold )
            if v is not NoFold:
                consts[st.targets[0].id] = v
    # which registered service number selects the 32-bit grammar: the machine-building function that passes large=True to the NCP decoder
    codes = {}
    for call in ast.walk( src.tree ):
        if isinstance( call, ast.Call ) and isinstance( call.func, ast.Attribute ) and call.func.attr == 'register_service_parser':
            kw = { k.arg: k.value for k in call.keywords }
            mach = kw.get( 'machine' )
            if 'number' in kw and isinstance( mach, ast.Call ) and isinstance( mach.func, ast.Name ):
                mf = src.get( mach.func.id, required=False )
                if mf is None:
                    continue
                lg = { const_value( k.value ) for c in ast.walk( mf ) if isinstance( c, ast.Call ) for k in c.keywords if k.arg == 'large' }
                if lg and lg <= { True, False } and len( lg ) == 1:
                    num = try_fold( kw['number'], lambda d: consts.get( d.split( '.' )[-1], NoFold ), NoFold )
                    if num is NoFold:
                        raise AnalysisError( 'K-FOWIDTH: registered service number %s not constant' % txt( kw['number'] ))
                    codes[lg.pop()] = num
    if set( codes ) != { True, False }:
        raise AnalysisError( 'K-FOWIDTH: the small / large Forward Open grammars (Connection_decode large=False / True) are not both registered' )
    LCODE, SCODE = codes[True], codes[False]
    # the request branch: the If body holding the width selections  DWORD.produce( X.NCP ) if X.large else WORD.produce( X.NCP )
    sels = [ e for e in ast.walk( fn ) if isinstance( e, ast.IfExp ) and is_call_to( e.body, 'DWORD.produce', 'WORD.produce' ) and is_call_to( e.orelse, 'DWORD.produce', 'WORD.produce' ) ]
    if len( sels ) < 2:
        raise AnalysisError( 'K-FOWIDTH: the two NCP width selections in Connection_Manager.produce not found' )
    branch = None
    for a in src.ancestors( sels[0] ):
        if isinstance( a, ast.If ) and src.parent.get( a ) is fn:
            branch = a; break
        if isinstance( a, ast.If ) and isinstance( src.parent.get( a ), ast.If ) and a in src.parent[a].orelse:
            branch = a
    if branch is None:
        raise AnalysisError( 'K-FOWIDTH: the Forward Open request branch not found' )
    body = branch.body
    emit = [ i for i, st in enumerate( body ) if isinstance( st, ast.AugAssign ) ]
    if not emit:
        raise AnalysisError( 'K-FOWIDTH: no emission in the request branch' )
    svc_calls = [ c for st in body[emit[0]:] for c in ast.walk( st ) if is_call_to( c, 'USINT.produce' ) ]
    SERVICE = dotted( svc_calls[0].args[0] ) if svc_calls and svc_calls[0].args else None
    if SERVICE is None:
        raise AnalysisError( 'K-FOWIDTH: the emitted service expression not found' )
    pre = [ _GetAsAttr().visit( copy.deepcopy( st )) for st in body[:emit[0]] ]
    # free size-class inputs: every  <x>.large  read ahead of the emission that is not stored first
    free = []
    for st in pre:
        for a in ast.walk( st ):
            if isinstance( a, ast.Attribute ) and a.attr == 'large' and isinstance( a.ctx, ast.Load ) and dotted( a ) and dotted( a ) not in free:
                free.append( dotted( a ))
    stored_large = { dotted( t ) for st in pre if isinstance( st, ast.Assign ) for t in st.targets if isinstance( t, ast.Attribute ) and t.attr == 'large' }

    import itertools
    inputs = list( free )

    class Raised( Exception ):
        pass

    def run( stmts, env, alias ):
        def look( d ):
            if d in env:
                return env[d]
            parts = d.split( '.' )
            if parts[0] in ( 'cls', 'self', cm.name ) and len( parts ) == 2 and parts[1] in consts:
                return consts[parts[1]]
            for i in range( len( parts ) - 1, 0, -1 ):
                pre_ = '.'.join( parts[:i] )
                if pre_ in alias:
                    return look( '.'.join( [ alias[pre_] ] + parts[i:] ))
            return NoFold
        for st in stmts:
            if isinstance( st, ast.Assign ):
                v = try_fold( st.value, look, NoFold )
                for t in st.targets:
                    d = dotted( t )
                    if d is None:
                        continue
                    if v is NoFold:
                        env.pop( d, None )
                        vd = st.value
                        while isinstance( vd, ast.Attribute ) and vd.attr in ( 'decoding', ):
                            vd = vd.value
                        if dotted( vd ):
                            alias[d] = dotted( vd )
                        else:
                            alias.pop( d, None )
                            for k in [ k for k in env if k.startswith( d + '.' ) and k not in inputs ]:		# the free inputs model what is read from the new object
                                del env[k]
                    else:
                        env[d] = v
            elif isinstance( st, ast.If ):
                t = try_fold( st.test, look, NoFold )
                if t is NoFold:
                    touched = { dotted( x ) for b in st.body + st.orelse for x in ast.walk( b ) if isinstance( x, ( ast.Attribute, ast.Name )) and isinstance( x.ctx, ast.Store ) }
                    if SERVICE in touched or any( d and d.endswith( '.large' ) for d in touched ):
                        raise AnalysisError( 'K-FOWIDTH: cannot decide %s, which guards a store of the service code / size class' % txt( st.test ))
                    continue
                run( st.body if t else st.orelse, env, alias )
            elif isinstance( st, ast.Assert ):
                t = try_fold( st.test, look, NoFold )
                if t is not NoFold and not t:
                    raise Raised()
            elif isinstance( st, ast.Raise ):
                raise Raised()
        return look

    cells = 0; reached = []; bad = []; outcome = []
    for bits in itertools.product( ( False, True ), repeat=len( inputs )):
        for svc in ( None, SCODE, LCODE ):
            cells += 1
            env = dict( zip( inputs, bits ))
            env[SERVICE] = svc
            alias = {}
            try:
                look = run( pre, env, alias )
            except Raised:
                outcome.append(( bits, svc, 'refused' ))
                continue
            widths = []
            for e in sels:
                w = try_fold( e.test, look, NoFold )
                if w is NoFold:
                    raise AnalysisError( 'K-FOWIDTH: the width selector %s cannot be traced to the size class decided ahead of the emission' % txt( e.test ))
                widths.append( bool( w ) == is_call_to( e.body, 'DWORD.produce' ))		# True: 32-bit word emitted
            code = look( SERVICE )
            reached.append(( bits, svc ))
            outcome.append(( bits, svc, 'emitted as %s with %s-bit NCP words' % ( '0x%02x' % code if isinstance( code, int ) else code, '/'.join( '32' if w else '16' for w in widths ))))
            for e, w in zip( sels, widths ):
                if code is NoFold or code is None or ( code == LCODE ) != w or code not in ( LCODE, SCODE ):
                    bad.append(( dict( zip( inputs, bits )), svc, code, txt( e.test ), w ))
    if bad:
        c = bad[0]
        res.bad( src, branch.body[emit[0]], 'Connection_Manager.produce: size classes %s with supplied service %s reach the emission with service %s and a %d-bit NCP for %s (%d of %d cells)' % (
            c[0], '0x%02x' % c[1] if c[1] is not None else None, '0x%02x' % c[2] if isinstance( c[2], int ) else c[2], 32 if c[4] else 16, c[3], len({ ( tuple( sorted( b[0].items())), b[1] ) for b in bad }), cells ),
            'the parser selects the NCP width from the service code: a 0x%02x request with 16-bit words (or 0x%02x with 32-bit) is read with every later field shifted - the inconsistent combination must be refused, not emitted' % ( LCODE, SCODE ),
            func='Connection_Manager.produce' )
    else:
        for bits, svc, what in outcome:
            res.ok( src, branch, 'Forward Open request, %s, supplied service %s: %s' % ( ', '.join( '%s=%s' % kv for kv in zip( inputs, bits )), '0x%02x' % svc if svc is not None else None, what ))
        res.ok( src, branch, 'Forward Open request: %d cells ( %s x service None/0x%02x/0x%02x ), %d reach the emission, all with ( service == 0x%02x ) == 32-bit NCP words' % (
            cells, ' x '.join( inputs ), SCODE, LCODE, len( reached ), LCODE ), nontrivial=False )
    # parser side: the grammar of each service knows its size class ( Connection_decode( ..., large=False / True )); the decoder hands THAT to
    # defaults.Connection - a class guessed from the value ( NCP > 0xFFFF ) reads a Large Forward Open whose upper NCP bits are clear ( Null
    # connection type, fixed, low priority ) with the 16-bit field layout
    cdc = src.get( 'Connection_decode', required=False )
    if cdc is None:
        raise AnalysisError( 'K-FOWIDTH: class Connection_decode not found' )
    ini = src.get( 'Connection_decode.__init__' ); exe = src.get( 'Connection_decode.execute' )
    kept = [ dotted( a_.targets[0] ) for a_ in walk_no_nested( ini ) if isinstance( a_, ast.Assign ) and 'large' in names_in( a_.value ) and dotted( a_.targets[0] ) and dotted( a_.targets[0] ).startswith( 'self.' ) ]
    calls = [ c_ for c_ in ast.walk( exe ) if is_call_to( c_, 'defaults.Connection', 'Connection' ) ]
    if not kept or not calls:
        raise AnalysisError( 'K-FOWIDTH: Connection_decode does not keep its large flag / does not build a defaults.Connection' )
    for c_ in calls:
        handed = any( k_.arg == 'large' and dotted( k_.value ) in kept for k_ in c_.keywords ) \
            or any( k_.arg is None and any( isinstance( x_, ast.keyword ) and x_.arg == 'large' and dotted( x_.value ) in kept for x_ in ast.walk( k_.value )) for k_ in c_.keywords )
        if handed:
            res.ok( src, c_, 'Connection_decode decodes the NCP with the size class of the service it parses ( large=%s )' % kept[0] )
        else:
            res.bad( src, c_, 'Connection_decode.execute builds %s without its size class ( %s is kept but not used )' % ( norm_text( c_ )[:60], kept[0] ),
                     'the class is guessed from the value: a Large Forward Open ( 0x5B ) whose 32-bit NCP has its upper bits clear is decoded as a 16-bit NCP - other size, type and priority - and producing the parsed request again raises', func='Connection_decode.execute' )
    return res


@rule( 'L-FRESH', props=( 'C01', 'C14' ), floor=8 )
def l_fresh( ctx ):
    """what a produce() emits for one element of a repetition is computed for THAT element: inside every loop of a produce(), a local that is
    assigned in the loop is assigned on every path of the iteration before it is read (CFG reachability from the loop body's entry to the
    read, avoiding the assignments, not crossing the back edge).  Accumulators - a local read only by its own re-assignment ( x = x + ... )
    or only ever augmented - are loop-carried by design."""
    res = Result( 'L-FRESH' )
    n_loops = 0
    def within( src, node, loop ):
        return any( a is loop for a in src.ancestors( node ))
    for rel in ( 'server/enip/parser.py', 'server/enip/device.py', 'server/enip/logix.py' ):
        src = ctx.src( rel )
        # the produce() functions and the helpers of the same file they call ( by simple name, transitively ): a repetition moved into a
        # helper is still a repetition of the producer
        chosen = { qn for qn in src.defs if qn.split( '.' )[-1] == 'produce' }
        work = sorted( chosen )
        while work:
            for fn in src.defs[work.pop()]:
                for c in ast.walk( fn ):
                    last = ( call_name( c ) or '' ).split( '.' )[-1] if isinstance( c, ast.Call ) else ''
                    if last and last != 'produce':
                        for q2 in src.defs:
                            if q2.split( '.' )[-1] == last and q2 not in chosen:
                                chosen.add( q2 )
                                work.append( q2 )
        for qn, defs in sorted( src.defs.items()):
            if qn not in chosen:
                continue
            for fn in defs:
                if not isinstance( fn, ast.FunctionDef ):
                    continue
                loops = [ l for l in walk_no_nested( fn ) if isinstance( l, ( ast.For, ast.While )) ]
                if not loops:
                    continue
                cfg = CFG( fn )
                for loop in loops:
                    n_loops += 1
                    h = cfg.node_of( loop )
                    first = [ m for m, l in cfg.succ[h] if l == 'true' ]
                    if not first:
                        continue
                    targets = { t.id for t in ast.walk( loop.target ) if isinstance( t, ast.Name ) } if isinstance( loop, ast.For ) else set()
                    assigned = {}
                    for n in cfg.nodes:
                        if n.kind in ( 'stmt', 'for' ) and n.stmt is not None and n.stmt is not loop and within( src, n.stmt, loop ):
                            tgts = n.stmt.targets if isinstance( n.stmt, ast.Assign ) else [ n.stmt.target ] if isinstance( n.stmt, ast.For ) and n.kind == 'for' else []
                            for tg in tgts:
                                for t in ast.walk( tg ):
                                    if isinstance( t, ast.Name ) and isinstance( t.ctx, ast.Store ):
                                        assigned.setdefault( t.id, [] ).append( n )
                    bad = False
                    for v, ass in sorted( assigned.items()):
                        if v in targets:
                            continue
                        reach = cfg.reachable( first[0], avoid=set( ass ), edge_ok=lambda a, b, l: b is not h )
                        for n in cfg.nodes:
                            own = n.own()
                            if own is None or n.stmt is None or n in ass or n not in reach or not ( within( src, n.stmt, loop ) or n.stmt is loop ):
                                continue
                            if n.kind == 'for' and n.stmt is loop:
                                continue
                            if any( isinstance( x, ast.Name ) and x.id == v and isinstance( x.ctx, ast.Load ) for x in ast.walk( own )):
                                bad = True
                                res.bad( src, n.stmt, '%s: %r is read ( %s ) on a path of the iteration that has not assigned it' % ( qn, v, norm_text( own )[:70] ),
                                         'the element is emitted with the value computed for the PREVIOUS element of the repetition ( e.g. an empty CPF item re-emits the length and bytes of the item before it ): the produced message no longer parses back to the same content', func=qn )
                                break
                    if not bad:
                        res.ok( src, loop, '%s: every local assigned in the loop at line %d is assigned before it is read in each iteration (accumulators excepted)' % ( qn, loop.lineno ))
    if n_loops < 8:
        raise AnalysisError( 'L-FRESH: only %d loops found in produce() functions' % n_loops )
    return res


@rule( 'L-PADSIZE', props=( 'C01', 'C14' ), floor=2 )
def l_padsize( ctx ):
    """a size field that counts the WORDS of a payload which is padded to even length ( if len( x ) % 2: x += b'\x00' ) is computed from the
    padded payload: on the CFG the pad is never reachable from the size computation ( size = len( x ) // 2 ) - computed first, an odd
    payload is announced one word short and the parser, limited to size * 2 bytes, leaves its last word (or all of a single byte) behind"""
    res = Result( 'L-PADSIZE' )
    n = 0
    for rel in ( 'server/enip/device.py', 'server/enip/parser.py', 'server/enip/logix.py' ):
        src = ctx.src( rel )
        for qn, defs in sorted( src.defs.items()):
            if qn.split( '.' )[-1] != 'produce':
                continue
            for fn in defs:
                if not isinstance( fn, ast.FunctionDef ):
                    continue
                pads = []
                for i in walk_no_nested( fn ):
                    if isinstance( i, ast.If ):
                        m = pmatch( i.test, 'len( _x ) % 2' )
                        if m is None:
                            continue
                        X = dotted( m['_x'] )
                        for b in i.body:
                            if isinstance( b, ast.AugAssign ) and isinstance( b.op, ast.Add ) and dotted( b.target ) == X and X is not None:
                                pads.append(( X, b ))
                if not pads:
                    continue
                cfg = None
                for X, pad in pads:
                    sizes = [ a for a in walk_no_nested( fn ) if isinstance( a, ast.Assign ) and pmatch( a.value, 'len( %s ) // 2' % X ) is not None ]
                    if not sizes:
                        continue
                    n += 1
                    cfg = cfg or CFG( fn )
                    pn = [ c for c in cfg.nodes if c.kind == 'stmt' and c.stmt is pad ]
                    bad = False
                    for a in sizes:
                        an = [ c for c in cfg.nodes if c.kind == 'stmt' and c.stmt is a ]
                        if any( p_ in cfg.reachable( an ) for p_ in pn ):
                            bad = True
                            res.bad( src, a, '%s: %s is computed before %s is padded to even length' % ( qn, norm_text( a ), X ),
                                     'an odd number of payload bytes is announced one word short ( a single byte: 0 words ): the parser, limited to size * 2 bytes, leaves the last word of the data unconsumed', func=qn )
                    if not bad:
                        res.ok( src, sizes[0], '%s: the word count of %s is taken after the pad byte has been appended' % ( qn, X ))
    if n < 2:
        raise AnalysisError( 'L-PADSIZE: pad + word-count pairs not found (%d)' % n )
    return res


@rule( 'L-TEXTCODEC', props=( 'C01', 'C14', 'C05' ), floor=4 )
def l_textcodec( ctx ):
    """text fields: the character set a codec class ENCODES with in its producer is the one its parser DECODES with ( decode='...' of the
    string sub-machine ) - per class, the sets of codec names on the two sides are equal.  A producer that encodes with a wider codec
    ( utf-8 ) emits more bytes than characters for every symbol above 0x7F: the stored text comes back different and longer, and a
    counted string ( SSTRING < 256 ) can no longer be produced at all"""
    res = Result( 'L-TEXTCODEC' )
    n = 0
    for rel in ( 'server/enip/parser.py', 'server/enip/device.py', 'server/enip/logix.py' ):
        src = ctx.src( rel )
        for cd in ast.walk( src.tree ):
            if not isinstance( cd, ast.ClassDef ):
                continue
            decs, encs = {}, {}
            for c in ast.walk( cd ):
                if not isinstance( c, ast.Call ):
                    continue
                for k in c.keywords:
                    if k.arg == 'decode' and isinstance( k.value, ast.Constant ) and isinstance( k.value.value, str ):
                        decs.setdefault( k.value.value.lower(), c )
                if isinstance( c.func, ast.Attribute ) and c.func.attr == 'encode' and c.args and isinstance( c.args[0], ast.Constant ) and isinstance( c.args[0].value, str ):
                    encs.setdefault( c.args[0].value.lower(), c )
            if not decs or not encs:
                continue
            n += 1
            if set( decs ) == set( encs ):
                res.ok( src, cd, '%s: text is produced with .encode( %s ) and parsed with decode=%s' % ( cd.name, sorted( encs ), sorted( decs )))
            else:
                odd = sorted( set( encs ) - set( decs )) or sorted( set( decs ) - set( encs ))
                site = encs.get( odd[0] ) or decs.get( odd[0] )
                res.bad( src, site, '%s produces text with %s but parses it with %s' % ( cd.name, sorted( encs ), sorted( decs )),
                         'every symbol above 0x7F is written with one codec and read back with another: an acknowledged write of such text reads back as a different, longer value, and a counted string near its maximum length cannot be produced any more (the read fails)', func=cd.name )
    if n < 4:
        raise AnalysisError( 'L-TEXTCODEC: only %d classes with both an encoder and a decoder found' % n )
    return res


@rule( 'T-TYPEDLOOP', props=( 'C01', 'C04', 'C05', 'C14' ), floor=10 )
def t_typedloop( ctx ):
    """typed_data: every element loop is CLOSED on its own type: for each loop head  <d>[True] = <p> = TYPE()  the collector behind the element,
    <p>[None] = move_if( ..., source='.TYPE', ..., state=<s> ), takes what TYPE parsed ( source names TYPE ) and returns to the SAME head
    ( <s> is <d> ).  A collector that returns to another type's head parses the first element with one type and every later element of the
    array with the other ( ULINT data re-read as LINT: values with the top bit set come back negative, and cannot be read back once stored )."""
    res = Result( 'T-TYPEDLOOP' )
    src = ctx.src( 'server/enip/parser.py' )
    fn = src.get( 'typed_data.__init__' )
    heads = {}		# parser local -> ( head local, TYPE name, stmt )
    for a in walk_no_nested( fn ):
        if isinstance( a, ast.Assign ) and len( a.targets ) == 2 and isinstance( a.value, ast.Call ) and isinstance( a.value.func, ast.Name ):
            t0, t1 = a.targets
            if isinstance( t0, ast.Subscript ) and isinstance( t0.value, ast.Name ) and try_fold( t0.slice, default='?' ) is True and isinstance( t1, ast.Name ):
                heads[t1.id] = ( t0.value.id, a.value.func.id, a )
    n = 0
    for a in walk_no_nested( fn ):
        if isinstance( a, ast.Assign ) and len( a.targets ) == 1 and isinstance( a.targets[0], ast.Subscript ) and isinstance( a.targets[0].value, ast.Name ) \
           and a.targets[0].value.id in heads and is_call_to( a.value, 'move_if' ) and try_fold( a.targets[0].slice, default='?' ) is None:
            P = a.targets[0].value.id
            D, T, hs = heads[P]
            kw = { k.arg: k.value for k in a.value.keywords }
            srcv = try_fold( kw.get( 'source' ), default=None ) if 'source' in kw else None
            st = dotted( kw.get( 'state' )) if 'state' in kw else None
            if 'state' not in kw:
                continue			# an intermediate mover of a chain ( [S]STRING: .string moved up first ); the chain's last mover closes the loop
            n += 1
            if st == D and isinstance( srcv, str ) and srcv.lstrip( '.' ).split( '.' )[0] == T:
                res.ok( src, a, 'typed_data: the %s loop is closed: %s collects %s and returns to %s' % ( T, P, srcv, D ))
            else:
                res.bad( src, a, 'typed_data: the collector behind %s() takes %r and returns to %s (loop head: %s)' % ( T, srcv, st, D ),
                         'the first element of an array is parsed as %s, every later one by the loop it was sent to: e.g. ULINT data continued as LINT comes back negative for values with the top bit set - a fragment of two or more elements is reassembled wrong, and a written value cannot be read back' % T )
    if n < 10:
        raise AnalysisError( 'typed_data.__init__: only %d element loops recognised' % n )
    return res


@rule( 'K-STALEMEMO', props=( 'C01', 'C14' ), floor=10 )
def k_stalememo( ctx ):
    """a produce() that stores what it encoded back into the message ( item.input = encode( item.<fields> ), data.input = ... ) never uses the
    presence of that stored value to skip the encoding: the stored bytes are an OUTPUT, not a cache - after any field is changed a second
    produce() must emit the new encoding"""
    res = Result( 'K-STALEMEMO' )
    n = 0
    for rel in ( 'server/enip/parser.py', 'server/enip/device.py', 'server/enip/logix.py' ):
        src = ctx.src( rel )
        for qn, defs in sorted( src.defs.items()):
            fn = defs[-1]
            if not isinstance( fn, ast.FunctionDef ) or fn.name != 'produce':
                continue
            stores = []
            for s in walk_no_nested( fn ):
                if isinstance( s, ast.Assign ):
                    for t in s.targets:
                        if isinstance( t, ast.Attribute ) and isinstance( t.value, ast.Name ):
                            stores.append(( s, t.value.id, t.attr ))
                        elif isinstance( t, ast.Subscript ) and isinstance( t.value, ast.Name ) and isinstance( try_fold( t.slice ), str ):
                            stores.append(( s, t.value.id, try_fold( t.slice )))
            n += 1
            bad = False
            for s, obj, attr in stores:
                # only values that ARE an encoding ( ... .produce( ... ) / struct.pack ): defaults filled in for absent fields are not memos
                if not any( isinstance( c_, ast.Call ) and (( isinstance( c_.func, ast.Attribute ) and c_.func.attr in ( 'produce', 'pack' )) or call_name( c_ ) in ( 'octets_encode', 'enip_encode' )) for c_ in ast.walk( s.value )):
                    continue
                for a in src.ancestors( s ):
                    if a is fn:
                        break
                    if not isinstance( a, ast.If ):
                        continue
                    in_body = any( s is x for b in a.body for x in ast.walk( b ))
                    for c in ast.walk( a.test ):
                        if isinstance( c, ast.Compare ) and len( c.ops ) == 1 and isinstance( c.ops[0], ( ast.In, ast.NotIn )) and try_fold( c.left ) == attr and dotted( c.comparators[0] ) == obj:
                            skipped_when_present = ( isinstance( c.ops[0], ast.NotIn ) and in_body ) or ( isinstance( c.ops[0], ast.In ) and not in_body )
                            if skipped_when_present:
                                bad = True
                                res.bad( src, a, '%s: %s.%s is encoded only when it is not already present ( %s )' % ( qn, obj, attr, norm_text( a.test )[:80] ),
                                         'produce() itself stored %s.%s on an earlier call: the second produce() of a message whose fields were changed in between emits the OLD bytes (and the old length)' % ( obj, attr ), func=qn )
            if not bad:
                res.ok( src, fn, '%s: nothing it stores into the message is used to skip its own encoding' % qn, nontrivial=False )
    return res


@rule( 'L-UNITS', props=( 'C01', 'C14' ), floor=6 )
def l_units( ctx ):
    """sizes the CIP tables count in 16-bit WORDS ( EPATH / Request_Path_Size, Application Reply Size of the Forward Open and Forward Close
    replies ) are words on both sides - a producer and a parser that agree on octets still disagree with every other implementation.
    Parser: each closure handed to a sub-machine as `limit=` returns its `size` field times two.  Producer: in every produce() a payload
    that is kept to whole words ( `if len( x ) % 2: x += pad` or `assert len( x ) % 2 == 0` ) has its length used only as `len( x ) // 2`."""
    res = Result( 'L-UNITS' )
    n_lim = n_len = 0
    for rel in ( 'server/enip/parser.py', 'server/enip/device.py', 'server/enip/logix.py' ):
        src = ctx.src( rel )
        # ---- parser side
        limits = set()
        for c in ast.walk( src.tree ):
            if isinstance( c, ast.Call ):
                for k in c.keywords:
                    if k.arg == 'limit':
                        limits |= { x.id for x in ast.walk( k.value ) if isinstance( x, ast.Name ) }
        for f in ast.walk( src.tree ):
            if not ( isinstance( f, ast.FunctionDef ) and f.name in limits and isinstance( src.parent.get( f ), ( ast.FunctionDef, ast.ClassDef )) ):
                continue
            rets = [ r for r in walk_no_nested( f ) if isinstance( r, ast.Return ) and r.value is not None ]
            if not rets:
                continue
            for r in rets:
                e = r.value
                if isinstance( e, ast.Name ):
                    ass = [ a for a in walk_no_nested( f ) if isinstance( a, ast.Assign ) and len( a.targets ) == 1 and isinstance( a.targets[0], ast.Name ) and a.targets[0].id == e.id ]
                    if len( ass ) != 1:
                        raise AnalysisError( '%s: %s assigned %d times' % ( f.name, e.id, len( ass )))
                    e = ass[0].value
                if 'size' not in txt( e ):
                    continue
                n_lim += 1
                m = pmatch( e, '_s * 2' ) or pmatch( e, '2 * _s' ) or pmatch( e, '_s << 1' ) or pmatch( e, '_s + _s' )
                if m is not None and 'size' in txt( m['_s'] ):
                    res.ok( src, r, '%s ( limit of a sub-machine ): %s - the size field counts words, the limit is in octets' % ( f.name, norm_text( ast.unparse( e ))[:60] ))
                else:
                    res.bad( src, r, 'limit closure %s returns %s' % ( f.name, norm_text( ast.unparse( e ))[:60] ),
                             'the size field counts 16-bit words ( CIP: Request_Path_Size / Application Reply Size ): the sub-machine has to be limited to twice as many octets, else a conformant message is parsed with half of its data and the rest is left to the enclosing grammar', func=src.qualname_of( f ))
        # ---- producer side
        for qn, defs in sorted( src.defs.items()):
            if qn.split( '.' )[-1] != 'produce':
                continue
            for fn in defs:
                if not isinstance( fn, ast.FunctionDef ):
                    continue
                worded = set()
                for i in walk_no_nested( fn ):
                    if isinstance( i, ast.If ):
                        m = pmatch( i.test, 'len( _x ) % 2' )
                        if m is not None and any( isinstance( b, ast.AugAssign ) and dotted( b.target ) == dotted( m['_x'] ) for b in i.body ):
                            worded.add( txt( m['_x'] ))
                    if isinstance( i, ast.Assert ):
                        m = pmatch( i.test, 'len( _x ) % 2 == 0' )
                        if m is not None:
                            worded.add( txt( m['_x'] ))
                for X in sorted( worded ):
                    for c in walk_no_nested( fn ):
                        if not ( isinstance( c, ast.Call ) and pmatch( c, 'len( _x )' ) is not None and txt( c.args[0] ) == X ):
                            continue
                        par = src.parent.get( c )
                        if isinstance( par, ast.BinOp ) and isinstance( par.op, ast.Mod ):
                            continue				# the evenness test itself
                        n_len += 1
                        if isinstance( par, ast.BinOp ) and par.left is c and (( isinstance( par.op, ast.FloorDiv ) and try_fold( par.right ) == 2 ) or ( isinstance( par.op, ast.RShift ) and try_fold( par.right ) == 1 )):
                            res.ok( src, c, '%s: len( %s ) // 2 - the payload kept to whole words is counted in words' % ( qn, X ))
                        else:
                            res.bad( src, c, '%s: len( %s ) used as %s' % ( qn, X, norm_text( ast.unparse( par ))[:60] ),
                                     'the payload is kept to whole 16-bit words because its size field counts words ( CIP ): announcing its length in octets tells every other implementation that twice the data follows', func=qn )
    if n_lim < 3 or n_len < 3:
        raise AnalysisError( 'L-UNITS: %d limit closures over a size field, %d word-counted payload lengths found' % ( n_lim, n_len ))
    return res


@rule( 'L-STATUSDATA', props=( 'C14', 'C01' ), floor=6 )
def l_statusdata( ctx ):
    """the general statuses under which a reply carries data are those of the specification, on both sides: Read Tag / Read Tag Fragmented
    replies carry type and data under 0x00 AND under 0x06 ( partial transfer: an independent client continues from the octets it received ),
    a Multiple Service Packet reply carries its members under 0x00 and 0x1E.  The predicate of the reply grammar's `decide` and the status
    test of the producer's branch are evaluated for every status 0..255 and compared with the table - a producer and a parser narrowed
    together still agree with each other."""
    res = Result( 'L-STATUSDATA' )
    for ( rel, gfn, pqn, svc ), want in sorted( spec.STATUS_WITH_DATA.items()):
        src = ctx.src( rel )
        want = sorted( want )
        # parser side
        g = src.get( gfn )
        preds = [ k.value for c in ast.walk( g ) if isinstance( c, ast.Call ) and is_call_to( c, 'decide' ) for k in c.keywords
                  if k.arg == 'predicate' and isinstance( k.value, ast.Lambda ) and 'status' in ast.unparse( k.value.body ) ]
        if len( preds ) != 1:
            raise AnalysisError( '%s: %d status predicates' % ( gfn, len( preds )))
        def accepted( e, env_of ):
            out = []
            for v in range( 256 ):
                try:
                    if fold( e, env_of( v )):
                        out.append( v )
                except NoFold as exc:
                    raise AnalysisError( '%s: status test not foldable: %s' % ( gfn, exc ))
            return out
        got = accepted( preds[0].body, lambda v: { 'data': { 'status': v }, 'path': None } )
        if got == want:
            res.ok( src, preds[0], '%s: the reply grammar expects data under status %s' % ( gfn, ', '.join( '0x%02X' % v for v in got )))
        else:
            res.bad( src, preds[0], '%s: the reply grammar expects data under status %s' % ( gfn, ', '.join( '0x%02X' % v for v in got ) or 'none' ),
                     'specified: %s - a reply of a conformant device with the other status is parsed without its type and data ( left unconsumed )' % ', '.join( '0x%02X' % v for v in want ), func=gfn )
        # producer side: the branch of the reply service, and the status test inside it
        p = src.get( pqn )
        br = [ i for i in ast.walk( p ) if isinstance( i, ast.If ) and svc in attrs_in( i.test ) ]
        tests = [ j for i in br for b in i.body for j in ast.walk( b ) if isinstance( j, ast.If ) and 'status' in attrs_in( j.test ) and 'service' not in attrs_in( j.test ) ]
        if not tests and br:
            # the branch of the reply is there, its data is produced - under no test of the status at all
            res.bad( src, br[0], '%s ( %s ): the reply data is produced whatever the status' % ( pqn, svc ),
                     'specified: data under status %s only - a refused request is answered with its status FOLLOWED by a body the reply parser never reads ( for a bundle: number, offsets and the octets of the embedded requests )' % ', '.join( '0x%02X' % v for v in want ), func=pqn )
            continue
        if len( tests ) != 1:
            raise AnalysisError( '%s: %d status tests in the %s branch' % ( pqn, len( tests ), svc ))
        art = p.args.args[1].arg if len( p.args.args ) > 1 else 'data'
        got = accepted( tests[0].test, lambda v: { art + '.status': v } )
        if got == want:
            res.ok( src, tests[0], '%s ( %s ): data is produced under status %s' % ( pqn, svc, ', '.join( '0x%02X' % v for v in got )))
        else:
            res.bad( src, tests[0], '%s ( %s ): data is produced under status %s' % ( pqn, svc, ', '.join( '0x%02X' % v for v in got ) or 'none' ),
                     'specified: %s - e.g. a Read Tag larger than one reply is answered 0x06 WITHOUT the first part of the data: an independent client computes its next offset from the octets received and fails' % ', '.join( '0x%02X' % v for v in want ), func=pqn )
    return res


@rule( 'L-CPFEMPTY', props=( 'C01', ), floor=1 )
def l_cpfempty( ctx ):
    """CPF.produce regenerates whatever CPF parses: an item of a recognised type with length 0 parses ( the explicit `empty` branch of the
    item machine ) into an item without the payload record of its type - by value, CPF.produce renders such an item as type + length 0, and an
    item with its record as type + length + the record's rendering."""
    import struct
    res = Result( 'L-CPFEMPTY' )
    src = ctx.src( PARSER )
    fn = src.get( 'CPF.produce' )
    DATA = fn.args.args[-1].arg
    def produce( items ):
        sub = Record( __name__='unconnected_send', produce=lambda rec: b'<' + rec + b'>' )
        env = { DATA: { 'item': items }, 'cls.ITEM_PARSERS': { 0xB2: sub }, 'UINT.produce': lambda v: struct.pack( '<H', v ), 'octets_encode': bytes,
                'bytearray': lambda *a: bytes( bytearray( *a )), 'len': len }
        try:
            out = run_block( [ st for st in fn.body if not ( isinstance( st, ast.Expr ) and isinstance( st.value, ast.Constant )) ], env, ignore_calls=( 'log', ))
        except Raises as exc:
            return 'raises %s' % exc
        except NoFold as exc:
            if 'KeyError' in str( exc ) or "'unconnected_send'" in str( exc ):
                return 'raises %s' % exc
            raise AnalysisError( 'CPF.produce: not a decision fragment: %s' % exc )
        return out.value if out.kind == 'return' else out.kind
    cells = (( 'a recognised item without a payload record ( parsed from length 0 )', [ { 'type_id': 0xB2 } ], b'\x01\x00\xb2\x00\x00\x00' ),
              ( 'a recognised item with its record', [ { 'type_id': 0xB2, 'unconnected_send': b'R' } ], b'\x01\x00\xb2\x00\x03\x00<R>' ),
              ( 'an unrecognised item with raw input', [ { 'type_id': 0x99, 'input': b'xy' } ], b'\x01\x00\x99\x00\x02\x00xy' ),
              ( 'a NULL address item and an empty recognised item', [ { 'type_id': 0 }, { 'type_id': 0xB2 } ], b'\x02\x00\x00\x00\x00\x00\xb2\x00\x00\x00' ))
    wrong = []
    for what, items, want in cells:
        got = produce( items )
        res.cells += 1
        if got != want:
            wrong.append(( what, got, want ))
    if wrong:
        res.bad( src, fn, 'CPF.produce of %s: %r, specified %r' % wrong[0],
                 'a message that CPF parses cannot be regenerated: produce looks up the payload record of the item type although the item carries none' )
    else:
        res.ok( src, fn, 'CPF.produce renders items with and without their payload record ( %d cells )' % len( cells ))
    return res


DEVICE = 'server/enip/device.py'


def _object_consts( src, cname='Object' ):
    """class-level constants of a CIP object class by value ( service numbers, context names ), under self. / cls. / <Class>."""
    consts = {}
    cd = src.get( cname )
    for a_ in cd.body:
        if isinstance( a_, ast.Assign ) and len( a_.targets ) == 1 and isinstance( a_.targets[0], ast.Name ):
            v_ = try_fold( a_.value, consts, default=NoFold )
            if v_ is not NoFold:
                for pre_ in ( 'self.', 'cls.', cname + '.', '' ):
                    consts[pre_ + a_.targets[0].id] = v_
    return consts


@rule( 'L-OBJREPLY', props=( 'C01', ), floor=1 )
def l_objreply( ctx ):
    """Object.produce regenerates every reply the Object's parsers accept: a reply is recognised by its reply bit before the generic request
    branch looks at it, and a successful Get Attribute reply that carried no data octets parses into a reply without the data record - by
    value, on the whole body of Object.produce with marking stand-ins for the element producers."""
    import struct
    res = Result( 'L-OBJREPLY' )
    src = ctx.src( DEVICE )
    fn = src.get( 'Object.produce' )
    consts = _object_consts( src )
    body = [ st for st in fn.body if not ( isinstance( st, ast.Expr ) and isinstance( st.value, ast.Constant )) ]
    DATA = fn.args.args[-1].arg
    def produce( data ):
        env = dict( consts )
        env.update( { DATA: data, 'USINT.produce': lambda v: struct.pack( '<B', v ), 'UINT.produce': lambda v: struct.pack( '<H', v ), 'EPATH.produce': lambda p_: b'<path>',
                      'status.produce': lambda d_: struct.pack( '<BB', d_.get( 'status', 0 ), 0 ), 'typed_data.produce': lambda d_, tag_type=None: bytes( bytearray( d_['data'] )),
                      'isinstance': isinstance, 'dict': dict, 'len': len, 'cls.__name__': 'Object', 'USINT.tag_type': 0xC6 } )
        try:
            out = run_block( body, env, ignore_calls=( 'log', ))
        except Raises as exc:
            return 'raises %s' % exc
        except NoFold as exc:
            if 'KeyError' in str( exc ) or 'stand-in call' in str( exc ):
                return 'raises %s' % exc
            raise AnalysisError( 'Object.produce: not a decision fragment: %s' % exc )
        return out.value if out.kind == 'return' else out.kind
    GA_SNG, GA_ALL, GA_LST = consts.get( 'GA_SNG_RPY' ), consts.get( 'GA_ALL_RPY' ), consts.get( 'GA_LST_RPY' )
    if None in ( GA_SNG, GA_ALL, GA_LST ):
        raise AnalysisError( 'Object: the Get Attribute reply service numbers not found' )
    cells = (( 'a generic service reply ( 0xA2 ) with data', { 'service': 0xA2, 'status': 0, 'service_code': { 'data': [ 1, 2 ] } }, b'\xa2\x00\x00\x00\x01\x02' ),
              ( 'a generic service request ( 0x22 ) with data', { 'service': 0x22, 'path': 'P', 'service_code': { 'data': [ 1 ] } }, b'\x22<path>\x01' ),
              ( 'a successful Get Attribute Single reply without data', { 'service': GA_SNG, 'status': 0 }, struct.pack( '<BBBB', GA_SNG, 0, 0, 0 )),
              ( 'a successful Get Attributes All reply without data', { 'service': GA_ALL, 'status': 0 }, struct.pack( '<BBBB', GA_ALL, 0, 0, 0 )),
              ( 'a successful Get Attribute List reply without data', { 'service': GA_LST, 'status': 0 }, struct.pack( '<BBBB', GA_LST, 0, 0, 0 )),
              ( 'a Get Attribute Single reply with data', { 'service': GA_SNG, 'status': 0, 'get_attribute_single': { 'data': [ 7 ] } }, struct.pack( '<BBBBB', GA_SNG, 0, 0, 0, 7 )),
              ( 'a failed Get Attribute Single reply', { 'service': GA_SNG, 'status': 8 }, struct.pack( '<BBBB', GA_SNG, 0, 8, 0 )))
    wrong = []
    for what, data, want in cells:
        got = produce( data )
        res.cells += 1
        if got != want:
            wrong.append(( what, got, want ))
    if wrong:
        res.bad( src, fn, 'Object.produce of %s: %r, specified %r ( %d of %d cells differ )' % ( wrong[0] + ( len( wrong ), len( cells ))),
                 'a reply the Object\'s own parser accepts cannot be regenerated: the generic REQUEST branch takes a reply that carries service_code data ( and reads its absent path ), or the typed data of a successful reply is looked up although the reply carried none' )
    else:
        res.ok( src, fn, 'Object.produce renders generic and Get Attribute replies with and without data ( %d cells )' % len( cells ))
    return res


@rule( 'L-GALREPLY', props=( 'C14', ), floor=1 )
def l_galreply( ctx ):
    """Get_Attribute_List reply data, as specified ( and as the layout table in Object.produce's docstring shows ): the number of attribute
    responses, then per attribute its number, its status and - when the status is 0 - its value.  By value: the Get Attribute List branch of
    Object.request run on a request for two existing attributes and one that does not exist."""
    import struct
    res = Result( 'L-GALREPLY' )
    src = ctx.src( DEVICE )
    fn = src.get( 'Object.request' )
    consts = _object_consts( src )
    br = [ i for i in ast.walk( fn ) if isinstance( i, ast.If ) ]
    branch = None
    for i in br:
        for test, blk in (( i.test, i.body ), ):
            if 'GA_LST_RPY' in txt( test ) and any( isinstance( f, ast.For ) for f in blk ):
                branch = blk
    if branch is None:
        raise AnalysisError( 'Object.request: the branch that answers Get Attribute List not found' )
    class _Att( type( Record())):
        pass
    def _object_produce( *a ):
        raise TypeError( 'Object.produce() missing 1 required positional argument' )	# slot '0' holds the Object, whose produce is a classmethod over a request
    env = dict( consts )
    ACC = sorted( { a_.target.id for st_ in branch for a_ in ast.walk( st_ ) if isinstance( a_, ast.AugAssign ) and isinstance( a_.target, ast.Name ) } )
    if not ACC:
        raise AnalysisError( 'Object.request: the accumulator of the Get Attribute List reply not found' )
    env.update( { 'data': { 'service': consts.get( 'GA_LST_RPY' ), 'get_attribute_list': [ 1, 2, 99, 0 ] }, ACC[0]: b'', 'UINT.produce': lambda v: struct.pack( '<H', v ),
                  'self.attribute': { '0': Record( produce=_object_produce ), '1': _Att( produce=lambda: b'\x05\x00' ), '2': _Att( produce=lambda: b'\x03\xb2\x80\xc5' ) },
                  'Attribute': _Att, 'isinstance': isinstance, 'str': str, 'dotdict': lambda *a, **kw: dict( *a, **kw ), 'type': type, 'int': int, 'ord': ord, 'len': len } )
    try:
        run_block( branch, env, ignore_calls=( 'log', ))
    except Raises as exc:
        res.bad( src, branch[0], 'Get Attribute List naming attributes 1, 2, 99, 0 raises %s' % exc,
                 'number 0 is the slot the Object keeps itself in, not an attribute: asked for it, the whole request fails ( status 0x08, no data ) where a missing attribute gets its own status' )
        return res
    except NoFold as exc:
        raise AnalysisError( 'Object.request: the Get Attribute List branch is not a decision fragment: %s' % exc )
    rec = env['data'].get( 'get_attribute_list' )
    got = bytes( bytearray( rec['data'] )) if isinstance( rec, dict ) and 'data' in rec else None
    body = b'\x01\x00\x00\x00\x05\x00' + b'\x02\x00\x00\x00\x03\xb2\x80\xc5'
    # ( attribute number 0 is the slot of the Object itself: not an attribute, answered like the missing 99 )
    ok = got is not None and got.startswith( b'\x04\x00' + body ) and got[2 + len( body ):] in ( b'\x63\x00\x16\x00\x00\x00\x16\x00', b'\x63\x00\x14\x00\x00\x00\x14\x00' )
    res.cells += 1
    if ok:
        res.ok( src, branch[0], 'the Get Attribute List reply carries the number of attribute responses, then number / status / value per attribute' )
    else:
        res.bad( src, branch[0], 'Get Attribute List reply data for attributes 1, 2, 99, 0: %s' % ( got.hex() if got is not None else None ),
                 'the reply data must begin with the UINT number of attribute responses ( 04 00 ) followed by ( number, status [, value ] ) groups: without it a client written from the specification takes the first attribute number for the count' )
    return res


@rule( 'L-LEGACYTEXT', props=( 'C01', ), floor=1 )
def l_legacytext( ctx ):
    """legacy_CPF_0x0001.produce: when no .ip_address text is supplied, the text field is derived from the ENCODED sin_addr octets ( whatever form
    the field was given in - the documented 32-bit integer, or text ): a def-use walk over the fall-back block - the value stored as the text
    depends on the octets just produced, not on the raw field ( str( 3232237053 ) is not '192.168.5.253' )."""
    res = Result( 'L-LEGACYTEXT' )
    src = ctx.src( PARSER )
    fn = src.get( 'legacy_CPF_0x0001.produce' )
    raw = { t.id for a in fn.body if isinstance( a, ast.Assign ) and 'sin_addr' in attrs_in( a.value ) for t in a.targets if isinstance( t, ast.Name ) }
    octs = { t.id for a in fn.body if isinstance( a, ast.Assign ) and isinstance( a.value, ast.Call ) and ( call_name( a.value ) or '' ).endswith( '.produce' ) and names_in( a.value ) & raw
             for t in a.targets if isinstance( t, ast.Name ) }
    if not raw or not octs:
        raise AnalysisError( 'legacy_CPF_0x0001.produce: the sin_addr field and its produced octets not found' )
    def none_test( t ):
        if isinstance( t, ast.Compare ) and len( t.ops ) == 1 and isinstance( t.ops[0], ast.Is ):
            for a_, b_ in (( t.left, t.comparators[0] ), ( t.comparators[0], t.left )):
                if isinstance( a_, ast.Name ) and isinstance( b_, ast.Constant ) and b_.value is None:
                    return a_.id
        return None
    fb = [ i for i in fn.body if isinstance( i, ast.If ) and none_test( i.test ) ]
    if len( fb ) != 1:
        raise AnalysisError( 'legacy_CPF_0x0001.produce: the fall-back block ( if <text> is None: ) not found' )
    TEXT = none_test( fb[0].test )
    infl = set( octs )
    changed = True
    stmts = [ st for st in ast.walk( fb[0] ) if isinstance( st, ( ast.Assign, ast.AugAssign, ast.With, ast.For, ast.Expr )) ]
    while changed:
        changed = False
        for st in stmts:
            heads = [ st.value ] if isinstance( st, ( ast.Assign, ast.AugAssign, ast.Expr )) else [ it.context_expr for it in st.items ] if isinstance( st, ast.With ) else [ st.iter ]
            stored = { t.id for t in ast.walk( st ) if isinstance( t, ast.Name ) and isinstance( t.ctx, ast.Store ) } if not isinstance( st, ast.Expr ) else set()
            for h in heads:
                used = names_in( h )
                if used & infl:
                    # what a call is handed ( data=<record> ) and what the statement stores are downstream of the octets
                    new = ( stored | { n for n in used } ) - infl
                    if new:
                        infl |= new; changed = True
    last = [ a for a in ast.walk( fb[0] ) if isinstance( a, ast.Assign ) and any( isinstance( t, ast.Name ) and t.id == TEXT for t in a.targets ) ]
    if last and names_in( last[-1].value ) & infl:
        res.ok( src, last[-1], 'the text of an address given without one is read back from the encoded octets ( %s )' % ', '.join( sorted( octs )))
    else:
        res.bad( src, last[-1] if last else fb[0], 'legacy_CPF_0x0001.produce derives the missing address text from `%s`' % ( norm_text( last[-1].value ) if last else 'nothing' ),
                 'the field may be given as a 32-bit integer ( documented ): its text form must be the dotted quad of the octets produced - str() of the integer puts 3232237053 into the 16-octet text field, and the message parses back to an ip_address that disagrees with sin_addr' )
    return res
