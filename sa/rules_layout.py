"""Layout rules (C01, C14): L-AGREE (producer layout accepted by the parser graph and vice versa), L-SPEC (parser/producer layouts equal
the hand-written CIP spec layouts), T-SEGMENTS (EPATH segment table), T-NCP (network connection parameter bit-fields)."""
import ast

from .core import ( rule, Result, AnalysisError, dotted, call_name, is_call_to, names_in, attrs_in, walk_no_nested,
                    norm_text, dotted_in, stmt_of, pmatch, pfind, txt )
from .fold import try_fold, fold, NoFold
from .grammar import grammar_of, Node, Decide, FILES
from .layout import ( ParserLayout, ProducerLayout, Seq, producer_branches, branch_selected, best_match, seq_match, show_atom,
                      resolve_struct_lits, atom_eq )
from .rules_paths import class_consts_env, SERVICE_CLASSES
from . import spec


class L:
    def __init__( self, line ):
        self.lineno = line


def show_seq( s ):
    return ' '.join( show_atom( a ) for a in s.atoms ) or '(nothing)'


RECOGNISED_LITS = ( 'status_in', 'struct', 'struct?', 'odd', 'present', 'absent' )


def service_layouts( ctx ):
    """-> list of dict( cls, number, name, parser seqs, producer seqs, producer fn, site ) for every registered service parser"""
    def build():
        g = grammar_of( ctx )
        out = []
        for rel, cname in SERVICE_CLASSES:
            src = ctx.src( rel )
            pfn = src.get( cname + '.produce' )
            branches = producer_branches( ctx, g, src, pfn, cname )
            env = class_consts_env( ctx, cname )
            for r in g.registrations:
                if r['cls'] != cname or r['number'] is True or not isinstance( r['number'], int ) or not isinstance( r['machine'], Node ):
                    continue
                pl = ParserLayout( g )
                Q = resolve_struct_lits( pl.seqs( r['machine'], '' ))
                sel = None
                for test, body in branches:
                    if test is None:
                        continue
                    if branch_selected( test, r['number'], env, short=r['short'] ):
                        sel = ( test, body ); break
                P, unknown = [], []
                if sel is not None:
                    pr = ProducerLayout( g, pfn, cname, 'data' )
                    P = resolve_struct_lits( pr.block( sel[1], [ Seq() ], {}, {} ))
                    unknown = pr.unknown
                out.append( dict( cls=cname, number=r['number'], name=r['name'], Q=Q, P=P, sel=sel, pfn=pfn, src=src, site=r['site'],
                                  unknown=unknown, truncated=pl.truncated ))
        return out
    return ctx.cached( 'service_layouts', build )


@rule( 'L-AGREE', props=( 'C01', 'C14' ), floor=40 )
def l_agree( ctx ):
    """for every registered service: each layout the parser accepts is one the producer emits, and each layout the producer emits (under recognised guards) is one the parser accepts - same order, width, signedness, byte order, data path, pads, guards"""
    res = Result( 'L-AGREE' )
    for e in service_layouts( ctx ):
        label = '%s 0x%02X %s' % ( e['cls'], e['number'], e['name'] )
        psrc = ctx.src( FILES[e['site'][0]] )
        if e['sel'] is None:
            res.bad( psrc, L( e['site'][1] ), label, '%s.produce has no branch selecting this service: a parsed message cannot be re-produced' % e['cls'], func=e['cls'] + '.produce' )
            continue
        if e['unknown']:
            raise AnalysisError( '%s: producer construct outside the modelled subset: %s' % ( label, e['unknown'][:3] ))
        if e['truncated'] or not e['Q'] or not e['P']:
            raise AnalysisError( '%s: layout extraction incomplete (parser %d / producer %d sequences)' % ( label, len( e['Q'] ), len( e['P'] )))
        # producer -> parser: every layout variant the producer can emit for this service must be accepted by the parser registered for
        # this service (or, for variants that belong to a sibling service sharing the dispatch branch, by that sibling's parser)
        siblings = [ x for x in service_layouts( ctx ) if x['cls'] == e['cls'] and x['sel'] is not None and x['sel'][0] is e['sel'][0] ]
        for p in e['P']:
            here = any( seq_match( p.atoms, q.atoms )[0] for q in e['Q'] )
            if here:
                res.ok( e['src'], L( p.trace[0][0] if p.trace and isinstance( p.trace[0][0], int ) else e['pfn'].lineno ),
                        '%s: producer layout [%s] is accepted by its parser' % ( label, show_seq( p )))
                continue
            elsewhere = [ x for x in siblings if x is not e and any( seq_match( p.atoms, q.atoms )[0] for q in x['Q'] ) ]
            if elsewhere and any( k[0] in ( 'large', ) for k in p.lits ):
                continue				# the variant of the sibling service (e.g. Large Forward Open); checked there
            best = max( e['Q'], key=lambda q: ( seq_match( p.atoms, q.atoms )[1] or 0 ))
            i = seq_match( p.atoms, best.atoms )[1]
            pp = tuple( a for a in p.atoms if a[0] != 'G' ) if not ( any( a[0] == 'G' for a in p.atoms ) and any( a[0] == 'G' for a in best.atoms )) else p.atoms
            pa = show_atom( pp[i] ) if i < len( pp ) else '(end of message)'
            line = p.trace[min( i, len( p.trace ) - 1 )][0] if p.trace else e['pfn'].lineno
            res.bad( e['src'], L( line if isinstance( line, int ) else e['pfn'].lineno ),
                     '%s: producer field %d (%s) is not what the parser expects there' % ( label, i, pa ),
                     'producer layout [%s] is not accepted; closest parser layout [%s]: produced bytes re-parse to different fields' % ( show_seq( p ), show_seq( best )),
                     func=e['cls'] + '.produce' )
    return res
