"""Statement-level control-flow graph for Python functions, with exception edges, plus the analyses the
path rules use: reachability-avoiding (must-pass-through), dominators, min/max effect counting over paths,
and a generic forward data-flow solver.

Nodes are CNode objects; kinds:
  entry, exit (normal return / fall off the end), raise (an exception leaves the function),
  stmt (simple statement), test (If/While test or IfExp-free condition), for (For header: next item),
  with (With items), dispatch (except-clause dispatch of a Try), handler (entry of one except clause),
  finally (entry of one copy of a finally block; attr `why` in normal/exc/return/break/continue), join.
Edge labels: next, true, false, exc, back, break, continue, return, loop-exit.
"""
import ast
from collections import defaultdict, deque

INF = float( 'inf' )


class CNode:
    __slots__ = ( 'id', 'kind', 'stmt', 'expr', 'why', 'lineno' )
    def __init__( self, id, kind, stmt=None, expr=None, why=None ):
        self.id, self.kind, self.stmt, self.expr, self.why = id, kind, stmt, expr, why
        self.lineno = getattr( stmt, 'lineno', getattr( expr, 'lineno', 0 ))
    def own( self ):
        """the part of the AST this node itself evaluates (a simple statement, or the test / iterable / context expression)"""
        if self.kind == 'stmt':
            return self.stmt
        if self.kind in ( 'test', 'for', 'with' ):
            return self.expr
        return None

    def __repr__( self ):
        t = ''
        if self.expr is not None and self.kind in ( 'test', 'for', 'with' ):
            t = ast.unparse( self.expr )[:50]
        elif self.stmt is not None:
            t = ast.unparse( self.stmt ).split( '\n' )[0][:50]
        return '<%d %s%s L%s %s>' % ( self.id, self.kind, ':' + self.why if self.why else '', self.lineno, t )


def default_may_raise( node ):
    """conservative: anything that calls, subscripts, loads an attribute, divides, asserts or raises"""
    if node is None:
        return False
    for n in ast.walk( node ):
        if isinstance( n, ( ast.Call, ast.Subscript, ast.Attribute, ast.Assert, ast.Raise, ast.BinOp, ast.Await, ast.Yield, ast.YieldFrom )):
            return True
        if isinstance( n, ( ast.FunctionDef, ast.Lambda, ast.ClassDef )):
            pass
    return False


CATCH_ALL = ( 'Exception', 'BaseException' )


def handler_names( h ):
    if h.type is None:
        return [ None ]
    if isinstance( h.type, ast.Tuple ):
        return [ ast.unparse( e ) for e in h.type.elts ]
    return [ ast.unparse( h.type ) ]


class _Ctx:
    __slots__ = ( 'exc', 'ret', 'brk', 'cont' )
    def __init__( self, exc, ret, brk, cont ):
        self.exc, self.ret, self.brk, self.cont = exc, ret, brk, cont
    def but( self, **kw ):
        c = _Ctx( self.exc, self.ret, self.brk, self.cont )
        for k, v in kw.items():
            setattr( c, k, v )
        return c


class CFG:
    def __init__( self, fn, may_raise=default_may_raise ):
        self.fn = fn
        self.may_raise = may_raise
        self.nodes = []
        self.succ = defaultdict( list )		# node -> [( node, label )]
        self.pred = defaultdict( list )
        self.entry = self.new( 'entry' )
        self.exit = self.new( 'exit' )
        self.raise_exit = self.new( 'raise' )
        self.of_stmt = {}			# ast stmt -> first CNode
        body = fn.body if hasattr( fn, 'body' ) else fn
        ends = self.block( body, [ ( self.entry, 'next' ) ], _Ctx( self.raise_exit, self.exit, None, None ))
        self.connect( ends, self.exit )

    # ---- construction
    def new( self, kind, stmt=None, expr=None, why=None ):
        n = CNode( len( self.nodes ), kind, stmt, expr, why )
        self.nodes.append( n )
        if stmt is not None and stmt not in self.of_stmt and kind not in ( 'finally', 'dispatch', 'join' ):
            self.of_stmt[stmt] = n
        return n

    def edge( self, a, b, label='next' ):
        if ( b, label ) not in self.succ[a]:
            self.succ[a].append(( b, label ))
            self.pred[b].append(( a, label ))

    def connect( self, ends, target ):
        for n, label in ends:
            self.edge( n, target, label )

    def exc_edge( self, n, expr_or_stmt, ctx ):
        if self.may_raise( expr_or_stmt ):
            self.edge( n, ctx.exc, 'exc' )

    def block( self, stmts, ends, ctx ):
        for s in stmts:
            ends = self.stmt( s, ends, ctx )
        return ends

    def stmt( self, s, ends, ctx ):
        if isinstance( s, ast.If ):
            t = self.new( 'test', s, s.test )
            self.connect( ends, t ); self.exc_edge( t, s.test, ctx )
            e1 = self.block( s.body, [ ( t, 'true' ) ], ctx )
            e2 = self.block( s.orelse, [ ( t, 'false' ) ], ctx ) if s.orelse else [ ( t, 'false' ) ]
            return e1 + e2
        if isinstance( s, ast.While ):
            t = self.new( 'test', s, s.test )
            self.connect( ends, t ); self.exc_edge( t, s.test, ctx )
            after = self.new( 'join', s, why='after-loop' )
            const_true = isinstance( s.test, ast.Constant ) and bool( s.test.value )
            body_ends = self.block( s.body, [ ( t, 'true' ) ], ctx.but( brk=after, cont=t ))
            for n, label in body_ends:
                self.edge( n, t, 'back' )
            if not const_true:
                else_ends = self.block( s.orelse, [ ( t, 'false' ) ], ctx ) if s.orelse else [ ( t, 'false' ) ]
                self.connect( else_ends, after )
            return [ ( after, 'next' ) ]
        if isinstance( s, ( ast.For, ast.AsyncFor )):
            h = self.new( 'for', s, s.iter )
            self.connect( ends, h ); self.exc_edge( h, s.iter, ctx )
            # iteration of a generator/iterator may itself raise
            if not isinstance( s.iter, ( ast.Tuple, ast.List, ast.Constant )):
                self.edge( h, ctx.exc, 'exc' )
            after = self.new( 'join', s, why='after-loop' )
            body_ends = self.block( s.body, [ ( h, 'true' ) ], ctx.but( brk=after, cont=h ))
            for n, label in body_ends:
                self.edge( n, h, 'back' )
            else_ends = self.block( s.orelse, [ ( h, 'loop-exit' ) ], ctx ) if s.orelse else [ ( h, 'loop-exit' ) ]
            self.connect( else_ends, after )
            return [ ( after, 'next' ) ]
        if isinstance( s, ( ast.With, ast.AsyncWith )):
            w = self.new( 'with', s, s.items[0].context_expr )
            self.connect( ends, w )
            for it in s.items:
                self.exc_edge( w, it.context_expr, ctx )
            return self.block( s.body, [ ( w, 'next' ) ], ctx )
        if isinstance( s, ast.Try ):
            return self.try_( s, ends, ctx )
        # ---- simple statements
        n = self.new( 'stmt', s )
        self.connect( ends, n )
        if isinstance( s, ast.Return ):
            self.exc_edge( n, s.value, ctx )
            self.edge( n, ctx.ret, 'return' )
            return []
        if isinstance( s, ast.Raise ):
            self.edge( n, ctx.exc, 'exc' )
            return []
        if isinstance( s, ast.Break ):
            if ctx.brk is not None:
                self.edge( n, ctx.brk, 'break' )
            return []
        if isinstance( s, ast.Continue ):
            if ctx.cont is not None:
                self.edge( n, ctx.cont, 'continue' )
            return []
        if isinstance( s, ast.Assert ):
            self.edge( n, ctx.exc, 'exc' )
            if isinstance( s.test, ast.Constant ) and not s.test.value:
                return []				# assert False: always raises
            return [ ( n, 'next' ) ]
        if isinstance( s, ( ast.FunctionDef, ast.AsyncFunctionDef, ast.ClassDef, ast.Pass, ast.Global, ast.Nonlocal, ast.Import, ast.ImportFrom )):
            return [ ( n, 'next' ) ]
        self.exc_edge( n, s, ctx )
        return [ ( n, 'next' ) ]

    def try_( self, s, ends, ctx ):
        outer = ctx
        fin = {}
        if s.finalbody:
            for why in ( 'normal', 'exc', 'return', 'break', 'continue' ):
                fin[why] = self.new( 'finally', s, why=why )
            inner = _Ctx( fin['exc'], fin['return'], fin['break'] if ctx.brk is not None else None,
                          fin['continue'] if ctx.cont is not None else None )
        else:
            inner = ctx
        if s.handlers:
            d = self.new( 'dispatch', s )
            body_ctx = inner.but( exc=d )
        else:
            d = None
            body_ctx = inner
        body_ends = self.block( s.body, ends, body_ctx )
        if s.orelse:
            body_ends = self.block( s.orelse, body_ends, inner )
        out = list( body_ends )
        if d is not None:
            catch_all = False
            for h in s.handlers:
                hn = self.new( 'handler', h )
                self.edge( d, hn, 'exc' )
                out += self.block( h.body, [ ( hn, 'next' ) ], inner )
                if any( nm is None or nm in CATCH_ALL for nm in handler_names( h )):
                    catch_all = True
                    break
            if not catch_all:
                self.edge( d, inner.exc, 'exc' )
        if not s.finalbody:
            return out
        self.connect( out, fin['normal'] )
        result = []
        targets = { 'normal': None, 'exc': outer.exc, 'return': outer.ret, 'break': outer.brk, 'continue': outer.cont }
        for why, fnode in fin.items():
            if not self.pred[fnode]:
                continue
            fe = self.block( s.finalbody, [ ( fnode, 'next' ) ], outer )
            if why == 'normal':
                result += fe
            elif targets[why] is not None:
                label = { 'exc': 'exc', 'return': 'return', 'break': 'break', 'continue': 'continue' }[why]
                self.connect( [ ( n, label ) for n, _ in fe ], targets[why] )
        return result

    # ---- queries
    def node_of( self, stmt ):
        return self.of_stmt.get( stmt )

    def nodes_where( self, pred ):
        return [ n for n in self.nodes if pred( n ) ]

    def stmt_nodes( self, pred ):
        """all CFG nodes (incl. duplicated finally copies) whose statement satisfies pred"""
        return [ n for n in self.nodes if n.kind in ( 'stmt', ) and n.stmt is not None and pred( n.stmt ) ]

    def reachable( self, start, avoid=(), labels=None, stop=(), edge_ok=None ):
        """nodes reachable from start (a node or list) without entering `avoid`; only over edge labels in `labels` if given;
        edge_ok( n, m, label ) may veto single edges (used for correlated-branch pruning)"""
        avoid = set( avoid ); stop = set( stop )
        starts = start if isinstance( start, ( list, tuple, set )) else [ start ]
        seen = set(); todo = deque( s for s in starts if s not in avoid )
        while todo:
            n = todo.popleft()
            if n in seen:
                continue
            seen.add( n )
            if n in stop:
                continue
            for m, label in self.succ[n]:
                if m in avoid or m in seen:
                    continue
                if labels is not None and label not in labels:
                    continue
                if edge_ok is not None and not edge_ok( n, m, label ):
                    continue
                todo.append( m )
        return seen

    def must_pass( self, src, dst, through, correlated=True ):
        """every path src -> dst passes through a node of `through` (True also when dst is unreachable).
        With correlated=True, If-tests with identical source text whose operands are not assigned in between are assumed to
        take the same outcome along one path (the only path-sensitivity the repo's handlers need)."""
        through = set( through )
        if src in through or dst in through:
            return True
        if not correlated:
            return dst not in self.reachable( src, avoid=through )
        groups = self.correlated_tests()
        if not groups:
            return dst not in self.reachable( src, avoid=through )
        import itertools
        keys = sorted( groups )
        for outcome in itertools.product( ( 'true', 'false' ), repeat=len( keys )):
            fixed = {}
            for k, o in zip( keys, outcome ):
                for n in groups[k]:
                    fixed[n] = o
            def edge_ok( n, m, label, fixed=fixed ):
                if n in fixed and label in ( 'true', 'false' ):
                    return label == fixed[n]
                return True
            if dst in self.reachable( src, avoid=through, edge_ok=edge_ok ):
                return False
        return True

    def correlated_tests( self ):
        """{ test text: [ test nodes ] } for If tests occurring more than once with no assignment to any name/attribute chain
        they read anywhere in the function (conservative: any store to a prefix disables the correlation)"""
        if hasattr( self, '_corr' ):
            return self._corr
        by = defaultdict( list )
        for n in self.nodes:
            if n.kind == 'test' and isinstance( n.stmt, ast.If ):
                by[ast.unparse( n.expr )].append( n )
        stored = set()
        body = self.fn if isinstance( self.fn, ast.AST ) else None
        if body is not None:
            for x in ast.walk( body ):
                tg = []
                if isinstance( x, ast.Assign ): tg = x.targets
                elif isinstance( x, ( ast.AugAssign, ast.AnnAssign )): tg = [ x.target ]
                elif isinstance( x, ( ast.For, ast.AsyncFor )): tg = [ x.target ]
                for t in tg:
                    for y in ast.walk( t ):
                        if isinstance( y, ( ast.Name, ast.Attribute )) and isinstance( y.ctx, ast.Store ):
                            try:
                                stored.add( ast.unparse( y ))
                            except Exception:
                                pass
        out = {}
        for text, ns in by.items():
            if len( ns ) < 2:
                continue
            reads = set()
            for y in ast.walk( ns[0].expr ):
                if isinstance( y, ( ast.Name, ast.Attribute )):
                    reads.add( ast.unparse( y ))
            # a store *between* the tests matters; conservatively require that stores to what the test reads only occur
            # before the first of the tests (by line)
            first = min( n.lineno for n in ns ); last = max( n.lineno for n in ns )
            clash = False
            if body is not None:
                for x in ast.walk( body ):
                    if isinstance( x, ( ast.Assign, ast.AugAssign )) and first <= getattr( x, 'lineno', 0 ) <= last:
                        tg = x.targets if isinstance( x, ast.Assign ) else [ x.target ]
                        for t in tg:
                            for y in ast.walk( t ):
                                if isinstance( y, ( ast.Name, ast.Attribute )) and isinstance( y.ctx, ast.Store ) and ast.unparse( y ) in reads:
                                    clash = True
            if not clash:
                out[text] = ns
        self._corr = out
        return out

    def dominators( self, entry=None ):
        entry = entry or self.entry
        reach = self.reachable( entry )
        order = [ n for n in self.nodes if n in reach ]
        dom = { n: set( order ) for n in order }
        dom[entry] = { entry }
        changed = True
        while changed:
            changed = False
            for n in order:
                if n is entry:
                    continue
                ps = [ p for p, _ in self.pred[n] if p in reach ]
                new = set.intersection( *[ dom[p] for p in ps ] ) if ps else set()
                new = new | { n }
                if new != dom[n]:
                    dom[n] = new; changed = True
        return dom

    def dominates( self, a, b, dom=None ):
        dom = dom or self.dominators()
        return b in dom and a in dom[b]

    def effect_counts( self, start, effects, ends, cut_back=True, avoid=(), skip_labels=() ):
        """min and max number of `effects` nodes on paths start -> each end (back/continue edges removed when cut_back:
        = 'per iteration' counting).  -> { end: ( min, max ) } for reachable ends."""
        effects = set( effects ); avoid = set( avoid )
        def succs( n ):
            for m, label in self.succ[n]:
                if cut_back and label in ( 'back', 'continue' ):
                    continue
                if label in skip_labels:
                    continue
                if m in avoid:
                    continue
                yield m
        # topological order by DFS over the acyclic (back edges cut) graph
        order = []; state = {}
        stack = [ ( start, iter( succs( start ))) ]
        state[start] = 1
        cyclic = False
        while stack:
            n, it = stack[-1]
            adv = False
            for m in it:
                if state.get( m ) == 1:
                    cyclic = True
                    continue
                if m not in state:
                    state[m] = 1
                    stack.append(( m, iter( succs( m ))))
                    adv = True
                    break
            if not adv:
                state[n] = 2; order.append( n ); stack.pop()
        order.reverse()
        lo = { start: ( 1 if start in effects else 0 ) }; hi = dict( lo )
        for n in order:
            if n not in lo:
                continue
            for m in succs( n ):
                w = 1 if m in effects else 0
                a, b = lo[n] + w, hi[n] + w
                if m not in lo:
                    lo[m], hi[m] = a, b
                else:
                    lo[m] = min( lo[m], a ); hi[m] = max( hi[m], b )
        out = {}
        for e in ends:
            if e in lo:
                out[e] = ( lo[e], INF if cyclic and not cut_back else hi[e] )
        return out

    def forward( self, init, transfer, join, start=None, bottom=None ):
        """generic forward data-flow: state_in[n] = join of transfer( p, label, state_in[p] ) over preds.
        transfer( node, label, state ) -> state carried along the edge node->succ with that label (or None = edge infeasible)."""
        start = start or self.entry
        state = { start: init }
        work = deque( [ start ] )
        while work:
            n = work.popleft()
            s = state[n]
            for m, label in self.succ[n]:
                out = transfer( n, label, s )
                if out is None:
                    continue
                if m not in state:
                    state[m] = out; work.append( m )
                else:
                    j = join( state[m], out )
                    if j != state[m]:
                        state[m] = j; work.append( m )
        return state

    def dump( self ):
        out = []
        for n in self.nodes:
            out.append( '%r -> %s' % ( n, ', '.join( '%d:%s' % ( m.id, l ) for m, l in self.succ[n] )))
        return '\n'.join( out )


def loop_body_region( cfg, loop_stmt ):
    """( header node, set of nodes inside the loop ) for a While/For statement"""
    h = cfg.node_of( loop_stmt )
    inside = set()
    def mark( stmts ):
        for s in stmts:
            for sub in ast.walk( s ):
                if isinstance( sub, ast.stmt ):
                    pass
            inside.update( n for n in cfg.nodes if n.stmt is not None and _contains( s, n.stmt ))
    mark( loop_stmt.body )
    return h, inside


def _contains( outer, inner ):
    if outer is inner:
        return True
    lo, hi = getattr( outer, 'lineno', None ), getattr( outer, 'end_lineno', None )
    li = getattr( inner, 'lineno', None )
    if lo is None or li is None:
        return False
    if not ( lo <= li <= hi ):
        return False
    for n in ast.walk( outer ):
        if n is inner:
            return True
    return False


def carried_reads( cfg, src, loop ):
    """reads, inside `loop`, of a local that is assigned inside the loop but not on every path of the iteration ahead of the read: the value
    of the PREVIOUS iteration (or of the initialisation ahead of the loop) is used.  A read inside the local's own re-assignment ( x = x + y )
    and locals that are only augmented are accumulators and not reported.  -> [ ( name, CNode of the read ) ]"""
    def within( node ):
        return any( a is loop for a in src.ancestors( node ))
    h = cfg.node_of( loop )
    first = [ m for m, l in cfg.succ[h] if l == 'true' ]
    if not first:
        return []
    targets = { t.id for t in ast.walk( loop.target ) if isinstance( t, ast.Name ) } if isinstance( loop, ast.For ) else set()
    assigned = {}
    for n in cfg.nodes:
        if n.kind in ( 'stmt', 'for', 'with' ) and n.stmt is not None and n.stmt is not loop and within( n.stmt ):
            st = n.stmt
            tgts = st.targets if isinstance( st, ast.Assign ) else [ st.target ] if isinstance( st, ast.For ) and n.kind == 'for' else \
                   [ it.optional_vars for it in st.items if it.optional_vars is not None ] if isinstance( st, ast.With ) and n.kind == 'with' else []
            for tg in tgts:
                for t in ast.walk( tg ):
                    if isinstance( t, ast.Name ) and isinstance( t.ctx, ast.Store ):
                        assigned.setdefault( t.id, [] ).append( n )
    out = []
    for v, ass in sorted( assigned.items()):
        if v in targets:
            continue
        reach = cfg.reachable( first[0], avoid=set( ass ), edge_ok=lambda a, b, l: b is not h )
        for n in cfg.nodes:
            own = n.own()
            if own is None or n.stmt is None or n in ass or n not in reach or not within( n.stmt ):
                continue
            if any( isinstance( x, ast.Name ) and x.id == v and isinstance( x.ctx, ast.Load ) for x in ast.walk( own )):
                out.append(( v, n ))
    return out
