"""Grammar extractor: abstract interpretation of cpppo's parser-construction code.

cpppo's wire grammars are graphs of state/dfa objects wired by straight-line constructor code.
This module evaluates the AST of each grammar-building __init__ / factory function and each
`X.register_service_parser( number=, name=, short=, machine= )` call over an abstract domain
(constants, class references, abstract state nodes, abstract decides, closures, containers,
Unknown) and returns the declared state graphs, each node carrying the file:line of the call that
created it.  Nothing of the repository is imported or executed.

The automata framework layer (automata.py and the octets/words primitives of parser.py) is not
interpreted but summarised: PRIMS lists the classes instantiated as leaves, and
`check_primitive_summaries` re-validates the facts the summaries rely on against the AST.
"""
import ast, itertools, struct

from .core import AnalysisError, Src, dotted

FILES = {
    'automata':	'automata.py',
    'parser':	'server/enip/parser.py',
    'device':	'server/enip/device.py',
    'logix':	'server/enip/logix.py',
    'defaults':	'server/enip/defaults.py',
    'tnet':	'server/tnet.py',
}

# classes instantiated as leaves (their __init__ is summarised, not interpreted)
PRIMS = { 'state', 'state_input', 'state_drop', 'state_struct', 'dfa_base', 'dfa', 'dfa_input', 'dfa_drop',
          'dfa_post', 'regex', 'regex_bytes', 'string_base', 'string', 'string_bytes', 'integer_base', 'integer',
          'integer_bytes', 'regex_bytes_promote', 'octets_base', 'octets', 'octets_struct', 'octets_noop',
          'octets_drop', 'words_base', 'words', 'TYPE', 'decide', 'move_if', 'state_multiple_service' }


class Unknown:
    def __init__( self, why ):
        self.why = why
    def __repr__( self ):
        return 'Unknown(%s)' % self.why


class ClassRef:
    def __init__( self, name ):
        self.name = name
    def __repr__( self ):
        return '<class %s>' % self.name
    def __eq__( self, other ):
        return isinstance( other, ClassRef ) and other.name == self.name
    def __hash__( self ):
        return hash(( 'ClassRef', self.name ))


class ModuleRef:
    def __init__( self, name ):
        self.name = name


class Closure:
    def __init__( self, node, env, mod ):
        self.node, self.env, self.mod = node, env, mod
    def __repr__( self ):
        return '<closure %s@%s:%s>' % ( getattr( self.node, 'name', 'lambda' ), self.mod, self.node.lineno )
    def source( self ):
        return ast.unparse( self.node )


class KwDict( dict ):
    pass


class Node:
    """An abstract state (or dfa) instance."""
    def __init__( self, g, cls, site ):
        self.id = next( g._ids ); self.cls = cls; self.kw = {}; self.edges = []; self.initial = None
        self.site = site; self.sub = None; self.args = []; self.g = g
    def __repr__( self ):
        return '<%s#%d %s @%s:%s>' % ( self.cls, self.id, self.kw.get( 'context', self.args[:1] ), self.site[0], self.site[1] )
    @property
    def name( self ):
        if self.args and isinstance( self.args[0], str ):
            return self.args[0]
        n = self.kw.get( 'name' )
        return n if isinstance( n, str ) else self.cls
    @property
    def mro( self ):
        return self.g.mro( self.cls ) if not self.cls.startswith( 'substate' ) else [ 'state' ]
    def isa( self, cname ):
        return cname in self.mro
    @property
    def is_dfa( self ):
        return self.isa( 'dfa_base' )
    @property
    def terminal_flag( self ):
        return bool( self.kw.get( 'terminal', False ))
    def sub_initial( self ):
        return self.initial if isinstance( self.initial, Node ) else ( self.sub if isinstance( self.sub, Node ) else None )


class Decide:
    """An abstract decide/move_if transition object."""
    def __init__( self, g, cls, site ):
        self.id = next( g._ids ); self.cls = cls; self.kw = {}; self.args = []; self.site = site; self.g = g
    @property
    def state( self ):
        return self.kw.get( 'state' )
    @property
    def predicate( self ):
        return self.kw.get( 'predicate' )
    @property
    def name( self ):
        return self.args[0] if self.args and isinstance( self.args[0], str ) else self.kw.get( 'name', self.cls )
    def __repr__( self ):
        return '<%s %r -> %r>' % ( self.cls, self.args[:1], self.state )


class ClassEnv( dict ):
    """Lazily evaluates class-level constants through the MRO."""
    def __init__( self, g, cname ):
        self.g, self.cname = g, cname
    def __contains__( self, k ):
        return self.g.class_attr( self.cname, k )[0] is not None
    def __getitem__( self, k ):
        v, c = self.g.class_attr( self.cname, k )
        if v is None:
            raise KeyError( k )
        return Interp( self.g, self.g.classes[c][1] ).ev( v, ClassEnv( self.g, c ))
    def get( self, k, d=None ):
        return self[k] if k in self else d


class Grammar:
    """Class table + extracted machines."""
    def __init__( self, model, files=None ):
        self.model = model
        self._ids = itertools.count()
        self.files = dict( files or FILES )
        self.classes = {}		# name -> ( ClassDef, mod )
        self.modfuncs = {}		# ( mod, name ) -> FunctionDef
        self.modassigns = {}		# ( mod, name ) -> value expr (last module-level assignment)
        self.srcs = {}
        self.unknowns = []
        self.registrations = []		# dict( cls, number, name, short, machine, site )
        self.machines = {}		# label -> root Node
        for mod, rel in self.files.items():
            if not model.exists( rel ):
                if mod in ( 'tnet', 'defaults' ):
                    continue
                raise AnalysisError( 'anchor file missing: %s' % rel )
            src = model.src( rel ); self.srcs[mod] = src
            for n in src.tree.body:
                self._index_stmt( n, mod )

    def _index_stmt( self, n, mod ):
        if isinstance( n, ast.ClassDef ):
            self.classes.setdefault( n.name, ( n, mod ))
            if self.classes[n.name][1] != mod and mod in ( 'parser', 'device', 'logix' ):
                self.classes[n.name] = ( n, mod )
        elif isinstance( n, ast.FunctionDef ):
            self.modfuncs[( mod, n.name )] = n
        elif isinstance( n, ast.Assign ):
            for t in n.targets:
                if isinstance( t, ast.Name ):
                    self.modassigns[( mod, t.id )] = n.value
        elif isinstance( n, ( ast.If, ast.Try )):
            for s in n.body:
                self._index_stmt( s, mod )

    # ---- class table
    def bases( self, name ):
        cd, _ = self.classes[name]
        out = []
        for b in cd.bases:
            if isinstance( b, ast.Name ): out.append( b.id )
            elif isinstance( b, ast.Attribute ): out.append( b.attr )
        return out

    def mro( self, name ):
        out = []
        def walk( n ):
            if n not in self.classes or n in out:
                return
            out.append( n )
            for b in self.bases( n ):
                walk( b )
        walk( name )
        return out

    def is_state_class( self, name ):
        return any( c in ( 'state', 'dfa_base' ) for c in self.mro( name ))

    def is_decide_class( self, name ):
        return 'decide' in self.mro( name )

    def class_attr( self, name, attr ):
        for c in self.mro( name ):
            for s in self.classes[c][0].body:
                if isinstance( s, ast.Assign ):
                    for t in s.targets:
                        if isinstance( t, ast.Name ) and t.id == attr:
                            return s.value, c
        return None, None

    def class_const( self, cname, attr, default=None ):
        """folded value of a class-level constant (through the MRO)"""
        if cname not in self.classes:
            return default
        env = ClassEnv( self, cname )
        if attr in env:
            v = env[attr]
            return default if isinstance( v, Unknown ) else v
        return default

    def find_init( self, name ):
        """first non-primitive __init__ in the MRO, else None (instantiate as a primitive)"""
        for c in self.mro( name ):
            if c in PRIMS:
                return None
            for s in self.classes[c][0].body:
                if isinstance( s, ast.FunctionDef ) and s.name == '__init__':
                    return s, c
        return None

    def method( self, cname, mname ):
        for c in self.mro( cname ):
            for s in self.classes[c][0].body:
                if isinstance( s, ast.FunctionDef ) and s.name == mname:
                    return s, c
        return None, None

    def unk( self, why, mod, node=None ):
        u = Unknown( '%s @%s:%s' % ( why, mod, getattr( node, 'lineno', '?' )))
        self.unknowns.append( u )
        return u

    # ---- drivers
    def extract_registrations( self, mods=( 'device', 'logix' )):
        for mod in mods:
            it = Interp( self, mod ); env = {}
            for s in self.srcs[mod].tree.body:
                if isinstance( s, ast.Expr ) and isinstance( s.value, ast.Call ) and isinstance( s.value.func, ast.Attribute ) \
                   and s.value.func.attr == 'register_service_parser':
                    it.ev( s.value, env )

    def instantiate( self, cname, mod='parser', args=(), kw=None ):
        if cname not in self.classes:
            raise AnalysisError( 'anchor vanished: class %s' % cname )
        class E: lineno = self.classes[cname][0].lineno
        return Interp( self, mod ).instantiate( cname, list( args ), dict( kw or {} ), E )

    def call_function( self, mod, fname, kw=None ):
        fn = self.modfuncs.get(( mod, fname ))
        if fn is None:
            raise AnalysisError( 'anchor vanished: function %s in %s' % ( fname, self.files.get( mod )))
        return Interp( self, mod ).call_closure( Closure( fn, {}, mod ), [], dict( kw or {} ), fn )

    # ---- graph walking
    def nodes( self, root, into_sub=True ):
        """all Nodes reachable from root (through edges, decide targets and, if into_sub, sub-machines)"""
        seen, order, todo = set(), [], [ root ]
        while todo:
            n = todo.pop()
            if not isinstance( n, Node ) or n.id in seen:
                continue
            seen.add( n.id ); order.append( n )
            if into_sub:
                for sub in ( n.initial, n.sub ):
                    if isinstance( sub, Node ):
                        todo.append( sub )
            for k, t in n.edges:
                if isinstance( t, Decide ):
                    if isinstance( t.state, Node ):
                        todo.append( t.state )
                elif isinstance( t, Node ):
                    todo.append( t )
        return order

    def edges_of( self, n ):
        """[( symbol, target Node or None, Decide or None )]"""
        out = []
        for k, t in n.edges:
            if isinstance( t, Decide ):
                out.append(( k, t.state if isinstance( t.state, Node ) else None, t ))
            elif isinstance( t, Node ):
                out.append(( k, t, None ))
            else:
                out.append(( k, None, None ))
        return out

    @property
    def total_nodes( self ):
        return sum( len( self.nodes( m )) for m in self.all_roots().values() )

    @property
    def total_edges( self ):
        return sum( len( n.edges ) for m in self.all_roots().values() for n in self.nodes( m ))

    def all_roots( self ):
        roots = {}
        for r in self.registrations:
            roots['%s/%s' % ( r['cls'], r['name'] )] = r['machine']
        roots.update( self.machines )
        return { k: v for k, v in roots.items() if isinstance( v, Node ) }


class Interp:
    def __init__( self, g, mod ):
        self.g, self.mod = g, mod

    def unk( self, why, node=None ):
        return self.g.unk( why, self.mod, node )

    # ---- expressions
    def ev( self, e, env ):
        m = getattr( self, 'ev_' + type( e ).__name__, None )
        if m is None:
            return self.unk( 'expr ' + type( e ).__name__, e )
        return m( e, env )

    def ev_Constant( self, e, env ):
        return e.value

    def ev_Name( self, e, env ):
        g = self.g
        if e.id in env:
            return env[e.id]
        if isinstance( env, dict ) and '__outer__' in env:
            o = env['__outer__']
            while o is not None:
                if e.id in o:
                    return o[e.id]
                o = o.get( '__outer__' ) if isinstance( o, dict ) else None
        if e.id in g.classes:
            return ClassRef( e.id )
        if ( self.mod, e.id ) in g.modfuncs:
            return Closure( g.modfuncs[( self.mod, e.id )], {}, self.mod )
        if ( self.mod, e.id ) in g.modassigns:
            return Interp( g, self.mod ).ev( g.modassigns[( self.mod, e.id )], {} )
        for mod in g.files:
            if ( mod, e.id ) in g.modassigns and mod != self.mod and e.id.isupper():
                return Interp( g, mod ).ev( g.modassigns[( mod, e.id )], {} )
        if e.id in ( 'cpppo', 'automata', 'struct', 'parser', 'device', 'defaults' ):
            return ModuleRef( e.id )
        if e.id in ( 'True', 'False', 'None' ):
            return { 'True': True, 'False': False, 'None': None }[e.id]
        return self.unk( 'name ' + e.id, e )

    def ev_Lambda( self, e, env ):
        return Closure( e, env, self.mod )

    def ev_Tuple( self, e, env ):
        return tuple( self.ev( x, env ) for x in e.elts )

    def ev_List( self, e, env ):
        return [ self.ev( x, env ) for x in e.elts ]

    def ev_Dict( self, e, env ):
        out = {}
        for k, v in zip( e.keys, e.values ):
            if k is None:
                d = self.ev( v, env )
                if isinstance( d, dict ): out.update( d )
                continue
            kk = self.ev( k, env )
            try:
                out[kk] = self.ev( v, env )
            except TypeError:
                return self.unk( 'dict key', e )
        return out

    def ev_JoinedStr( self, e, env ):
        return self.unk( 'fstring', e )

    def ev_IfExp( self, e, env ):
        t = self.ev( e.test, env )
        if isinstance( t, Unknown ):
            return self.unk( 'ifexp test', e )
        return self.ev( e.body if t else e.orelse, env )

    def ev_BoolOp( self, e, env ):
        v = None
        for x in e.values:
            v = self.ev( x, env )
            if isinstance( v, Unknown ):
                return v
            if isinstance( e.op, ast.Or ) and v:
                return v
            if isinstance( e.op, ast.And ) and not v:
                return v
        return v

    def ev_UnaryOp( self, e, env ):
        v = self.ev( e.operand, env )
        if isinstance( v, Unknown ):
            return v
        try:
            if isinstance( e.op, ast.Not ): return not v
            if isinstance( e.op, ast.USub ): return -v
            if isinstance( e.op, ast.Invert ): return ~v
        except Exception:
            pass
        return self.unk( 'unary', e )

    def ev_Compare( self, e, env ):
        l = self.ev( e.left, env ); r = self.ev( e.comparators[0], env )
        if isinstance( l, Unknown ) or isinstance( r, Unknown ) or len( e.ops ) != 1:
            return self.unk( 'compare', e )
        op = e.ops[0]
        try:
            if isinstance( op, ast.Is ): return l is r
            if isinstance( op, ast.IsNot ): return l is not r
            if isinstance( op, ast.Eq ): return l == r
            if isinstance( op, ast.NotEq ): return l != r
            if isinstance( op, ast.In ): return l in r
            if isinstance( op, ast.NotIn ): return l not in r
            if isinstance( op, ast.Lt ): return l < r
            if isinstance( op, ast.LtE ): return l <= r
            if isinstance( op, ast.Gt ): return l > r
            if isinstance( op, ast.GtE ): return l >= r
        except Exception:
            pass
        return self.unk( 'compare op', e )

    def ev_BinOp( self, e, env ):
        l = self.ev( e.left, env ); r = self.ev( e.right, env )
        if isinstance( l, Unknown ) or isinstance( r, Unknown ):
            return self.unk( 'binop', e )
        try:
            op = e.op
            if isinstance( op, ast.Add ): return l + r
            if isinstance( op, ast.Sub ): return l - r
            if isinstance( op, ast.BitOr ): return l | r
            if isinstance( op, ast.BitAnd ): return l & r
            if isinstance( op, ast.Mult ): return l * r
            if isinstance( op, ast.LShift ): return l << r
            if isinstance( op, ast.RShift ): return l >> r
            if isinstance( op, ast.FloorDiv ): return l // r
            if isinstance( op, ast.Mod ) and isinstance( l, int ): return l % r
            if isinstance( op, ast.Pow ): return l ** r
        except Exception:
            pass
        return self.unk( 'binop op', e )

    def ev_Subscript( self, e, env ):
        v = self.ev( e.value, env ); k = self.ev( e.slice, env )
        if isinstance( v, ( bytes, str, tuple, list, dict )) and not isinstance( k, Unknown ):
            try:
                return v[k]
            except Exception:
                pass
        return self.unk( 'subscript', e )

    def ev_Attribute( self, e, env ):
        g = self.g
        # self.__class__.__name__
        if isinstance( e.value, ast.Attribute ) and e.value.attr == '__class__' and e.attr == '__name__':
            o = self.ev( e.value.value, env )
            if isinstance( o, Node ):
                return o.cls
        o = self.ev( e.value, env )
        if isinstance( o, ModuleRef ):
            if e.attr in g.classes:
                return ClassRef( e.attr )
            if o.name == 'struct' and e.attr == 'calcsize':
                return ( 'builtin', 'struct.calcsize' )
            for mod in g.files:
                if ( mod, e.attr ) in g.modassigns:
                    return Interp( g, mod ).ev( g.modassigns[( mod, e.attr )], {} )
            if e.attr.startswith( 'type_' ) or e.attr in ( 'path_ext_input', ):
                return ( 'opaque', e.attr )
            return self.unk( 'module attr ' + e.attr, e )
        if isinstance( o, Node ):
            if e.attr == 'initial':
                if o.initial is None:
                    if o.sub is None:
                        o.sub = Node( g, 'substate(%s)' % o.cls, o.site ); o.sub.kw['terminal'] = True
                    return o.sub
                return o.initial
            if o.cls in g.classes:
                v, c = g.class_attr( o.cls, e.attr )
                if v is not None:
                    return Interp( g, g.classes[c][1] ).ev( v, ClassEnv( g, c ))
        if isinstance( o, ClassRef ) and e.attr == '__name__':
            return o.name
        if isinstance( o, ClassRef ):
            v, c = g.class_attr( o.name, e.attr )
            if v is not None:
                return Interp( g, g.classes[c][1] ).ev( v, ClassEnv( g, c ))
            m, c = g.method( o.name, e.attr )
            if m is not None:
                return ( 'method', o.name, e.attr )
        return self.unk( 'attr ' + e.attr, e )

    def ev_Call( self, e, env ):
        g = self.g
        f = e.func
        if isinstance( f, ast.Attribute ) and f.attr == 'setdefault':
            d = self.ev( f.value, env )
            if isinstance( d, dict ):
                k = self.ev( e.args[0], env ); v = self.ev( e.args[1], env )
                return d.setdefault( k, v )
        if isinstance( f, ast.Attribute ) and f.attr == 'get' and len( e.args ) in ( 1, 2 ):
            d = self.ev( f.value, env )
            if isinstance( d, dict ):
                k = self.ev( e.args[0], env )
                dv = self.ev( e.args[1], env ) if len( e.args ) == 2 else None
                try:
                    return d.get( k, dv )
                except TypeError:
                    pass
        if isinstance( f, ast.Attribute ) and f.attr == 'items':
            d = self.ev( f.value, env )
            if isinstance( d, dict ):
                return list( d.items() )
        if isinstance( f, ast.Attribute ) and f.attr == 'register_service_parser':
            cls = self.ev( f.value, env ); kw = { k.arg: self.ev( k.value, env ) for k in e.keywords }
            g.registrations.append( dict( cls=getattr( cls, 'name', '?' ), number=kw.get( 'number' ), name=kw.get( 'name' ),
                                          short=kw.get( 'short' ), machine=kw.get( 'machine' ),
                                          site=( self.mod, e.lineno ), call=e ))
            return None
        # super( C, self ).__init__( name=..., initial=..., **kwds )
        if ( isinstance( f, ast.Attribute ) and f.attr == '__init__' and isinstance( f.value, ast.Call )
             and isinstance( f.value.func, ast.Name ) and f.value.func.id == 'super' ):
            node = env['self']
            for i, a in enumerate( e.args ):
                v = self.ev( a, env )
                if i == 0:
                    node.args = [ v ] + node.args[1:]
            for k in e.keywords:
                v = self.ev( k.value, env )
                if k.arg is None:
                    if isinstance( v, dict ):
                        for kk, vv in v.items():
                            if kk == 'initial': node.initial = vv
                            else: node.kw[kk] = vv
                elif k.arg == 'initial':
                    node.initial = v
                elif k.arg == 'name':
                    node.args = [ v ] + node.args[1:]
                else:
                    node.kw[k.arg] = v
            return None
        if isinstance( f, ast.Name ) and f.id in ( 'len', 'int', 'str', 'bool', 'list', 'tuple' ) and len( e.args ) == 1:
            v = self.ev( e.args[0], env )
            if not isinstance( v, Unknown ):
                try:
                    return { 'len': len, 'int': int, 'str': str, 'bool': bool, 'list': list, 'tuple': tuple }[f.id]( v )
                except Exception:
                    pass
            return self.unk( 'builtin ' + f.id, e )
        callee = self.ev( f, env )
        args = [ self.ev( a, env ) for a in e.args ]
        kw = {}
        for k in e.keywords:
            v = self.ev( k.value, env )
            if k.arg is None:
                if isinstance( v, dict ):
                    kw.update( v )
            else:
                kw[k.arg] = v
        if callee == ( 'builtin', 'struct.calcsize' ) and args and isinstance( args[0], str ):
            try:
                return struct.calcsize( args[0] )
            except struct.error:
                return self.unk( 'calcsize', e )
        if isinstance( callee, ClassRef ):
            return self.instantiate( callee.name, args, kw, e )
        if isinstance( callee, Closure ) and isinstance( callee.node, ast.FunctionDef ):
            return self.call_closure( callee, args, kw, e )
        return self.unk( 'call ' + ast.unparse( f )[:40], e )

    def call_closure( self, callee, args, kw, e ):
        fn = callee.node
        a = fn.args
        pos = [ p.arg for p in a.args ]
        it = Interp( self.g, callee.mod )
        env = { '__outer__': callee.env } if callee.env else {}
        defaults = dict( zip( reversed( pos ), reversed( [ it.ev( d, env ) for d in a.defaults ] )))
        kw = dict( kw )
        kwds = KwDict()
        for i, p in enumerate( pos ):
            if i < len( args ): env[p] = args[i]
            elif p in kw: env[p] = kw.pop( p )
            else: env[p] = defaults.get( p )
        kwds.update( kw )
        if a.kwarg:
            env[a.kwarg.arg] = kwds
        elif kwds:
            return self.unk( 'unexpected kwargs to ' + fn.name, e )
        return it.run_body( fn.body, env )

    def instantiate( self, cname, args, kw, e ):
        g = self.g
        site = ( self.mod, getattr( e, 'lineno', 0 ))
        if g.is_decide_class( cname ):
            d = Decide( g, cname, site ); d.args = args; d.kw = kw
            return d
        if not g.is_state_class( cname ):
            return self.unk( 'instantiate non-state ' + cname, e )
        node = Node( g, cname, site ); node.args = list( args )
        found = g.find_init( cname )
        if found is None:				# primitive
            node.kw = dict( kw )
            if 'name' in node.kw and not node.args:
                node.args = [ node.kw.pop( 'name' ) ]
            if 'initial' in kw:
                node.initial = node.kw.pop( 'initial' )
            return node
        fn, owner = found
        omod = g.classes[owner][1]
        it = Interp( g, omod )
        env = { 'self': node }
        a = fn.args
        pos = [ p.arg for p in a.args ][1:]
        defaults = dict( zip( reversed( pos ), reversed( [ it.ev( d, ClassEnv( g, owner )) for d in a.defaults ] )))
        kw = dict( kw )
        kwds = KwDict()
        for i, p in enumerate( pos ):
            if i < len( args ): env[p] = args[i]
            elif p in kw: env[p] = kw.pop( p )
            else: env[p] = defaults.get( p )
        kwds.update( kw )
        if a.kwarg:
            env[a.kwarg.arg] = kwds
        node.params = { p: env.get( p ) for p in pos }
        it.run_body( fn.body, env )
        for k, v in kwds.items():
            if k == 'initial':
                if node.initial is None: node.initial = v
            else:
                node.kw.setdefault( k, v )
        return node

    # ---- statements
    def run_body( self, body, env ):
        for s in body:
            r = self.st( s, env )
            if r is not None and r[0] == 'return':
                return r[1]
        return None

    def st( self, s, env ):
        g = self.g
        if isinstance( s, ast.Expr ):
            if isinstance( s.value, ast.Constant ):
                return None
            self.ev( s.value, env )
            return None
        if isinstance( s, ast.Assign ):
            v = self.ev( s.value, env )
            for t in s.targets:
                self.assign( t, v, env )
            return None
        if isinstance( s, ast.FunctionDef ):
            env[s.name] = Closure( s, env, self.mod )
            return None
        if isinstance( s, ast.ClassDef ):
            g.classes[s.name] = ( s, self.mod )
            return None
        if isinstance( s, ast.Return ):
            return ( 'return', self.ev( s.value, env ) if s.value else None )
        if isinstance( s, ( ast.Assert, ast.Pass, ast.Import, ast.ImportFrom )):
            return None
        if isinstance( s, ast.If ):
            t = self.ev( s.test, env )
            if isinstance( t, Unknown ):
                g.unk( 'if test', self.mod, s )
                return None
            return self.run_inline( s.body if t else s.orelse, env )
        if isinstance( s, ast.For ):
            it = self.ev( s.iter, env )
            if isinstance( it, tuple ):
                it = list( it )
            if not isinstance( it, list ):
                g.unk( 'for iter', self.mod, s )
                return None
            for item in it:
                self.assign( s.target, item, env )
                r = self.run_inline( s.body, env )
                if r is not None:
                    return r
            return None
        g.unk( 'stmt %s' % type( s ).__name__, self.mod, s )
        return None

    def run_inline( self, body, env ):
        for s in body:
            r = self.st( s, env )
            if r is not None:
                return r
        return None

    def assign( self, t, v, env ):
        if isinstance( t, ast.Name ):
            env[t.id] = v
        elif isinstance( t, ast.Tuple ):
            try:
                for tt, vv in zip( t.elts, v ):
                    self.assign( tt, vv, env )
            except TypeError:
                self.g.unk( 'tuple assign', self.mod, t )
        elif isinstance( t, ast.Subscript ):
            o = self.ev( t.value, env ); k = self.ev( t.slice, env )
            if isinstance( o, Node ) and not isinstance( k, Unknown ):
                o.edges.append(( k, v ))
            elif isinstance( o, dict ) and not isinstance( k, Unknown ):
                try:
                    o[k] = v
                except TypeError:
                    self.g.unk( 'dict store', self.mod, t )
            else:
                self.g.unk( 'subscript-assign on %r[%r]' % ( o, k ), self.mod, t )
        elif isinstance( t, ast.Attribute ):
            o = self.ev( t.value, env )
            if isinstance( o, Node ):
                o.kw.setdefault( '_attrs', {} )[t.attr] = v
        else:
            self.g.unk( 'assign target', self.mod, t )


# ---------------------------------------------------------------- the standard extraction

STANDALONE = ( 'SSTRING', 'STRING', 'IFACEADDRS', 'enip_header', 'enip_machine', 'EPATH', 'EPATH_padded', 'EPATH_single',
               'route_path', 'unconnected_send', 'communications_service', 'identity_object', 'legacy_CPF_0x0001',
               'connection_ID', 'connection_data', 'CPF', 'send_data', 'register', 'list_services', 'list_identity',
               'list_interfaces', 'legacy', 'CIP', 'status', 'STRUCT' )


def extract( model ):
    g = Grammar( model )
    g.extract_registrations()
    for cname in STANDALONE:
        if cname in g.classes:
            g.machines[cname] = g.instantiate( cname )
    if 'typed_data' in g.classes:
        g.machines['typed_data(USINT)'] = g.instantiate( 'typed_data', kw={ 'tag_type': 0xc6 } )
        g.machines['typed_data(.type)'] = g.instantiate( 'typed_data', kw={ 'tag_type': '.type', 'structure_tag': '.structure_tag' } )
    if ( 'tnet', 'tnet_machine' ) in g.modfuncs:
        g.machines['tnet_machine'] = g.call_function( 'tnet', 'tnet_machine' )
    return g


def grammar_of( ctx ):
    return ctx.cached( 'grammar', lambda: extract( ctx.model ))


# ---------------------------------------------------------------- data paths (context composition)

DEFAULT_CTX = { 'string_bytes': 'string', 'string': 'string', 'integer_bytes': 'integer', 'integer': 'integer' }


def compose( pre, add, ext ):
    pre = pre or ''; add = add or ''
    return pre + ( '.' if pre and add else '' ) + add + ( ext or '' )


def reduce_path( p ):
    """dotdict '..' back-tracking"""
    while '..' in p:
        front, back = p.split( '..', 1 )
        trunc = front[:max( 0, front.rfind( '.' ))]
        p = trunc + ( '.' if trunc and back else '' ) + back
    return p.lstrip( '.' ) if p.startswith( '.' ) else p


def default_context( n ):
    if 'context' in n.kw:
        c = n.kw['context']
        return c if isinstance( c, str ) or c is None else None
    for c in n.mro:
        if c in DEFAULT_CTX:
            return DEFAULT_CTX[c]
    if n.args and n.args[0]:
        return None
    if n.cls in ( 'state', 'dfa', 'dfa_post', 'dfa_input', 'dfa_drop', 'state_input', 'state_drop', 'state_struct',
                  'state_multiple_service' ) or n.cls.startswith( 'substate' ):
        return None
    return n.cls


def dump( g, root, out=None, depth=0, seen=None, label='' ):
    """textual dump of a machine (developer aid and replay output)"""
    out = [] if out is None else out
    seen = set() if seen is None else seen
    pad = '  ' * depth
    if isinstance( root, Decide ):
        out.append( pad + label + repr(( root.cls, root.args[:1], { k: v for k, v in root.kw.items()
                                                                     if k in ( 'source', 'destination', 'initializer' ) } ))
                    + ( ' pred=' + root.predicate.source()[:80] if isinstance( root.predicate, Closure ) else '' ))
        if isinstance( root.state, Node ):
            dump( g, root.state, out, depth + 1, seen, '=> ' )
        return out
    if not isinstance( root, Node ):
        out.append( pad + label + repr( root ))
        return out
    tag = '%s#%d %r %s' % ( root.cls, root.id, root.name, { k: v for k, v in root.kw.items()
                                                           if k in ( 'context', 'extension', 'terminal', 'repeat', 'limit', 'greedy' )
                                                           and not isinstance( v, Node ) } )
    if root.id in seen:
        out.append( pad + label + '^' + tag )
        return out
    seen.add( root.id )
    out.append( pad + label + tag + ' @%s:%s' % root.site )
    sub = root.sub_initial()
    if sub is not None:
        dump( g, sub, out, depth + 1, seen, 'initial: ' )
    for k, t in root.edges:
        dump( g, t, out, depth + 1, seen, '[%r] ' % ( k, ))
    return out
