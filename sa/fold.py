"""Tiny constant folder for arithmetic / literal expressions (no name resolution unless an env is given)."""
import itertools
import ast, operator

_BIN = { ast.Add: operator.add, ast.Sub: operator.sub, ast.Mult: operator.mul, ast.FloorDiv: operator.floordiv,
         ast.Mod: operator.mod, ast.Pow: operator.pow, ast.BitOr: operator.or_, ast.BitAnd: operator.and_,
         ast.LShift: operator.lshift, ast.RShift: operator.rshift, ast.BitXor: operator.xor, ast.Div: operator.truediv }
_UN = { ast.USub: operator.neg, ast.UAdd: operator.pos, ast.Invert: operator.invert, ast.Not: operator.not_ }


_PURE_STR_METHODS = ( 'startswith', 'endswith', 'lower', 'upper', 'strip', 'lstrip', 'rstrip', 'isdigit', 'split', 'rsplit', 'splitlines', 'replace', 'zfill', 'encode', 'decode', 'count', 'find', 'rfind', 'partition', 'rpartition', 'ljust', 'rjust', 'center', 'title', 'capitalize', 'casefold', 'isalpha', 'isalnum', 'join' )


class NoFold( Exception ):
    pass


class Raises( NoFold ):
    """the expression was evaluated on concrete values and the operation itself raised ( '%g' % 'text' ): a fact about the code, not a limit of the folder"""
    pass


_SAFE_BUILTINS = { 'str': str, 'int': int, 'len': len, 'max': max, 'min': min, 'bool': bool, 'abs': abs, 'tuple': tuple, 'list': list,
                   'all': all, 'any': any, 'zip': lambda *a: list( zip( *a )), 'sorted': sorted, 'set': set, 'dict': dict, 'enumerate': lambda x: list( enumerate( x )),
                   'range': lambda *a: list( range( *a )), 'sum': sum, 'isinstance': None,
                   'bytes': bytes, 'bytearray': lambda *a: bytes( bytearray( *a )), 'float': float, 'repr': repr,
                   'map': lambda f, *a: list( map( f, *a )), 'filter': lambda f, a: list( filter( f, a )), 'reversed': lambda a: list( reversed( a )) }


def _call( f, args, kwargs ):
    """a stand-in the rule supplied, called on folded arguments: a call it was not made for ( TypeError ... ) is "not foldable", not a crash"""
    try:
        return f( *args, **kwargs )
    except NoFold:
        raise
    except RecursionError:
        raise
    except Exception as exc:
        raise Raises( '%s: stand-in call: %s' % ( type( exc ).__name__, exc ))


def _args( args, env ):
    """the folded positional arguments of a call, starred ones spread"""
    out = []
    for a in args:
        if isinstance( a, ast.Starred ):
            out.extend( list( fold( a.value, env )))
        else:
            out.append( fold( a, env ))
    return out


def _kwargs( keywords, env ):
    """the folded keyword arguments of a call, **mapping ones merged"""
    out = {}
    for k in keywords:
        if k.arg is None:
            m = fold( k.value, env )
            if not isinstance( m, dict ):
                raise NoFold( '** of %r' % type( m ).__name__ )
            out.update( m )
        else:
            out[k.arg] = fold( k.value, env )
    return out


def _standin( func, env ):
    """is the dotted callee a stand-in the rule put into the environment ( it then takes precedence over any built-in evaluation )"""
    from .core import dotted as _dotted
    d_ = _dotted( func )
    if d_ is None:
        return False
    f_ = _env_get( env, d_ )
    return f_ is not NoFold and callable( f_ )


def fold( e, env=None ):
    """value of a constant expression; names looked up in env (dict or callable name -> value); raises NoFold"""
    if isinstance( e, ast.Constant ):
        return e.value
    if isinstance( e, ast.BinOp ) and type( e.op ) in _BIN:
        l, r = fold( e.left, env ), fold( e.right, env )
        if isinstance( e.op, ast.Pow ) and isinstance( r, int ) and abs( r ) > 4096:
            raise NoFold( 'pow too large' )
        try:
            return _BIN[type( e.op )]( l, r )
        except Exception as exc:
            raise Raises( '%s: %s' % ( type( exc ).__name__, exc ))
    if isinstance( e, ast.UnaryOp ) and type( e.op ) in _UN:
        return _UN[type( e.op )]( fold( e.operand, env ))
    if isinstance( e, ast.Tuple ):
        return tuple( fold( x, env ) for x in e.elts )
    if isinstance( e, ast.List ):
        return [ fold( x, env ) for x in e.elts ]
    if isinstance( e, ast.Set ):
        try:
            return set( fold( x, env ) for x in e.elts )
        except TypeError as exc:
            raise NoFold( str( exc ))
    if isinstance( e, ast.Slice ):
        return slice( fold( e.lower, env ) if e.lower is not None else None, fold( e.upper, env ) if e.upper is not None else None,
                      fold( e.step, env ) if e.step is not None else None )
    if isinstance( e, ast.Subscript ):
        v = fold( e.value, env ); k = fold( e.slice, env )
        try:
            return v[k]
        except Exception as exc:
            raise NoFold( str( exc ))
    if isinstance( e, ast.Compare ):
        left = fold( e.left, env )
        for op, c in zip( e.ops, e.comparators ):
            right = fold( c, env )
            try:
                if isinstance( op, ast.Eq ): r = left == right
                elif isinstance( op, ast.NotEq ): r = left != right
                elif isinstance( op, ast.In ): r = left in right
                elif isinstance( op, ast.NotIn ): r = left not in right
                elif isinstance( op, ast.Lt ): r = left < right
                elif isinstance( op, ast.LtE ): r = left <= right
                elif isinstance( op, ast.Gt ): r = left > right
                elif isinstance( op, ast.GtE ): r = left >= right
                elif isinstance( op, ast.Is ): r = left is right
                elif isinstance( op, ast.IsNot ): r = left is not right
                else: raise NoFold( 'cmp op' )
            except TypeError as exc:
                raise NoFold( str( exc ))
            if not r:
                return False
            left = right
        return True
    if isinstance( e, ast.BoolOp ):
        v = None
        for x in e.values:
            v = fold( x, env )
            if isinstance( e.op, ast.Or ) and v: return v
            if isinstance( e.op, ast.And ) and not v: return v
        return v
    if isinstance( e, ast.IfExp ):
        return fold( e.body, env ) if fold( e.test, env ) else fold( e.orelse, env )
    if isinstance( e, ast.Call ) and isinstance( e.func, ast.Attribute ) and e.func.attr == 'join' and len( e.args ) == 1 and not e.keywords:
        sep = fold( e.func.value, env ); parts = fold( e.args[0], env )
        try:
            return sep.join( parts )
        except Exception as exc:
            raise NoFold( str( exc ))
    if isinstance( e, ( ast.GeneratorExp, ast.ListComp )) and len( e.generators ) == 1 and not getattr( e.generators[0], 'is_async', 0 ):
        g = e.generators[0]
        seq = fold( g.iter, env )
        out = []
        for item in seq:
            local = {}
            _bind( g.target, item, local )
            env2 = _chain_env( local, env )
            if all( fold( c, env2 ) for c in g.ifs ):
                out.append( fold( e.elt, env2 ))
        return out
    if isinstance( e, ast.Call ) and isinstance( e.func, ast.Attribute ) and e.func.attr in _PURE_STR_METHODS and not e.keywords:
        # side-effect-free methods of str / bytes constants (table lookup on constants, nothing of the repository runs)
        try:
            base = fold( e.func.value, env )
        except NoFold:
            base = None
        if isinstance( base, ( str, bytes )):
            try:
                return getattr( base, e.func.attr )( *_args( e.args, env ) )
            except NoFold:
                raise
            except Exception as exc:
                raise NoFold( str( exc ))
    if isinstance( e, ast.Call ) and isinstance( e.func, ast.Attribute ) and e.func.attr in ( 'get', ) and not e.keywords and len( e.args ) in ( 1, 2 ):
        try:
            base = fold( e.func.value, env )
        except NoFold:
            base = None
        if isinstance( base, dict ):
            return base.get( *_args( e.args, env ) )
    if isinstance( e, ast.Call ) and isinstance( e.func, ast.Attribute ) and e.func.attr in ( 'pop', 'setdefault' ) and not e.keywords and e.args and env is not None \
       and not _standin( e.func, env ):
        # the two mutating lookups of a mapping / list the cell owns ( a work-list that is consumed ): performed on the cell's own object
        try:
            base = fold( e.func.value, env )
        except NoFold:
            base = None
        if isinstance( base, ( dict, list )) and ( e.func.attr == 'pop' or isinstance( base, dict )):
            try:
                return getattr( base, e.func.attr )( *_args( e.args, env ) )
            except NoFold:
                raise
            except Exception as exc:
                raise Raises( '%s: %s' % ( type( exc ).__name__, exc ))
    if isinstance( e, ast.Call ) and isinstance( e.func, ast.Attribute ) and e.func.attr in ( 'values', 'keys', 'items' ) and not e.keywords and not e.args:
        try:
            base = fold( e.func.value, env )
        except NoFold:
            base = None
        if isinstance( base, dict ):
            return list( getattr( base, e.func.attr )())
    if isinstance( e, ast.Dict ) and all( k is not None for k in e.keys ):
        return { fold( k, env ): fold( v, env ) for k, v in zip( e.keys, e.values ) }
    if isinstance( e, ast.Call ) and isinstance( e.func, ast.Name ) and env is not None and True:
        # a callable the rule put into the environment under the callee's name ( a marking cast ), or a helper of the analysed file made
        # available as 'call:<name>' ( see helper_calls ): evaluated on the folded arguments
        for key in ( e.func.id, 'call:' + e.func.id ):
            f_ = _env_get( env, key )
            if f_ is not NoFold and callable( f_ ):
                return _call( f_, _args( e.args, env ), _kwargs( e.keywords, env ) )
    if isinstance( e, ast.Call ) and isinstance( e.func, ast.Name ) and e.func.id == 'dict' and not e.args and True:
        return _kwargs( e.keywords, env )
    if isinstance( e, ast.Call ) and isinstance( e.func, ast.Attribute ) and env is not None and True:
        # a method the rule put into the environment under its dotted name ( 'self._back.pop' ): a marking stand-in, evaluated on the folded arguments
        from .core import dotted as _dotted
        d_ = _dotted( e.func )
        if d_ is not None:
            f_ = _env_get( env, d_ )
            if f_ is not NoFold and callable( f_ ):
                return _call( f_, _args( e.args, env ), _kwargs( e.keywords, env ) )
    if isinstance( e, ast.Call ) and isinstance( e.func, ast.Attribute ) and env is not None and True:
        try:
            base_ = fold( e.func.value, env )
        except NoFold:
            base_ = None
        if isinstance( base_, _Record ) and callable( getattr( base_, e.func.attr, None )):
            return _call( getattr( base_, e.func.attr ), _args( e.args, env ), _kwargs( e.keywords, env ) )
    if isinstance( e, ast.Call ) and isinstance( e.func, ast.Name ) and e.func.id in _SAFE_BUILTINS and _SAFE_BUILTINS[e.func.id] is not None and not e.keywords:
        args = []
        for a in e.args:
            if isinstance( a, ast.Starred ):
                args.extend( list( fold( a.value, env )))
            else:
                args.append( fold( a, env ))
        try:
            return _SAFE_BUILTINS[e.func.id]( *args )
        except Exception as exc:
            raise Raises( '%s: %s' % ( type( exc ).__name__, exc ))
    if isinstance( e, ast.Call ) and isinstance( e.func, ast.Attribute ) and e.func.attr == 'format' and isinstance( e.func.value, ast.Constant ) and isinstance( e.func.value.value, str ):
        try:
            return e.func.value.value.format( *_args( e.args, env ), **_kwargs( e.keywords, env ) )
        except NoFold:
            raise
        except Exception as exc:
            raise NoFold( str( exc ))
    if isinstance( e, ast.JoinedStr ):
        out = ''
        for v in e.values:
            if isinstance( v, ast.Constant ):
                out += str( v.value )
            elif isinstance( v, ast.FormattedValue ) and v.format_spec is None and v.conversion == -1:
                out += str( fold( v.value, env ))
            else:
                raise NoFold( 'fstring' )
        return out
    if isinstance( e, ( ast.Name, ast.Attribute )) and env is not None:
        from .core import dotted
        d = dotted( e )
        if d is not None:
            if callable( env ):
                v = env( d )
                if v is not NoFold:
                    return v
            elif d in env:
                return env[d]
    if isinstance( e, ast.Attribute ) and e.attr in _PURE_STR_METHODS:
        try:
            base_ = fold( e.value, env )
        except NoFold:
            base_ = None
        if isinstance( base_, ( str, bytes )):
            return getattr( base_, e.attr )			# a bound side-effect-free method of a constant ( map( term.find, symbols ) )
    if isinstance( e, ast.Attribute ):
        # a field of a folded value: a key of a mapping ( the repository's dotdict reads a.b as a['b'] ) or an attribute of a plain record
        try:
            base = fold( e.value, env )
        except NoFold:
            base = NoFold
        if isinstance( base, dict ) and e.attr in base:
            return base[e.attr]
        if isinstance( base, dict ) and not hasattr( base, e.attr ):
            raise Raises( 'AttributeError: %s' % e.attr )		# a field the folded mapping does not have: what dotdict raises
        if isinstance( base, _Record ) and hasattr( base, e.attr ):
            return getattr( base, e.attr )
    if isinstance( e, ast.Name ) and e.id in _SAFE_BUILTINS and _SAFE_BUILTINS[e.id] is not None:
        return _SAFE_BUILTINS[e.id]					# a side-effect-free builtin handed on as a value ( map( float, ... ) )
    raise NoFold( ast.dump( e )[:80] )


class _Record( object ):
    """a plain record for decision tables: Record( struct_calcsize=4 ).struct_calcsize"""
    def __init__( self, **kw ):
        self.__dict__.update( kw )
    def __repr__( self ):
        return 'Record(%s)' % ', '.join( '%s=%r' % kv for kv in sorted( self.__dict__.items()))

Record = _Record


def _env_get( env, name ):
    if env is None:
        return NoFold
    if isinstance( env, dict ):
        return env.get( name, NoFold )
    try:
        return env( name )
    except NoFold:
        return NoFold


def _bind( target, value, local ):
    if isinstance( target, ast.Name ):
        local[target.id] = value
    elif isinstance( target, ( ast.Tuple, ast.List )):
        vals = list( value )
        if len( vals ) != len( target.elts ):
            raise NoFold( 'unpack' )
        for t, v in zip( target.elts, vals ):
            _bind( t, v, local )
    else:
        raise NoFold( 'comprehension target' )


def _chain_env( local, env ):
    def f( d ):
        if d in local:
            return local[d]
        head = d.split( '.' )[0]
        if head in local:
            v = local[head]
            for part in d.split( '.' )[1:]:
                if isinstance( v, dict ) and part in v:
                    v = v[part]
                else:
                    return NoFold
            return v
        if env is None:
            return NoFold
        if callable( env ):
            return env( d )
        return env.get( d, NoFold )
    return f


def try_fold( e, env=None, default=None ):
    try:
        return fold( e, env )
    except NoFold:
        return default


# ---------------------------------------------------------------- decision fragments: a block of statements over a finite abstract domain

class Outcome:
    """how the evaluation of a decision fragment ended: kind in 'fall' / 'raise' / 'return' / 'yield' / 'continue' / 'break'"""
    def __init__( self, kind, value=None, node=None ):
        self.kind, self.value, self.node = kind, value, node
    def __repr__( self ):
        return '%s%s' % ( self.kind, '' if self.value is None else '( %r )' % ( self.value, ))


def _store( tg, val, env ):
    if isinstance( tg, ast.Name ):
        env[tg.id] = val
    elif isinstance( tg, ast.Subscript ):
        base = fold( tg.value, env )
        key = fold( tg.slice, env )
        if not isinstance( base, ( dict, list )):
            raise NoFold( 'store into %r' % type( base ).__name__ )
        try:
            base[key] = val
        except ( IndexError, KeyError, TypeError, ValueError ) as exc:
            raise Raises( type( exc ).__name__ )
    elif isinstance( tg, ast.Attribute ):
        # a.b = v on a folded mapping ( the repository's dotdict stores a.b as a['b'] ) or a plain record
        base = fold( tg.value, env )
        if isinstance( base, dict ):
            base[tg.attr] = val
        elif isinstance( base, _Record ):
            setattr( base, tg.attr, val )
        else:
            raise NoFold( 'store into attribute of %r' % type( base ).__name__ )
    elif isinstance( tg, ( ast.Tuple, ast.List )):
        try:
            vals = list( val )
        except TypeError:
            raise NoFold( 'unpack of %r' % type( val ).__name__ )
        if len( vals ) != len( tg.elts ):
            raise Raises( 'ValueError: unpack of %d values into %d targets' % ( len( vals ), len( tg.elts )))
        for t, v in zip( tg.elts, vals ):
            _store( t, v, env )
    else:
        raise NoFold( 'assignment target' )


def run_block( stmts, env, ignore_calls=(), stop_at_yield=True ):
    """Evaluate a decision fragment ( assignments to locals and to subscripts of local containers, if / elif / else, assert, raise, return,
    yield, expression statements whose call name ends in one of `ignore_calls` ) over the concrete cell `env` ( dict, updated in place ).
    Everything else raises NoFold: the fragment is then not a decision table the rule understands ( ANALYSIS-ERROR, never a verdict )."""
    from .core import dotted, call_name
    for st in stmts:
        if isinstance( st, ast.Pass ):
            continue
        if isinstance( st, ast.Expr ):
            v = st.value
            if isinstance( v, ast.Constant ):
                continue
            if isinstance( v, ( ast.Yield, )):
                if stop_at_yield:
                    return Outcome( 'yield', fold( v.value, env ) if v.value is not None else None, st )
                continue
            if isinstance( v, ast.Call ) and any(( call_name( v ) or '' ).split( '.' )[-1] == n or ( call_name( v ) or '' ).startswith( n + '.' ) for n in ignore_calls ):
                continue
            if isinstance( v, ast.Call ) and call_name( v ) and callable( _env_get( env, call_name( v )) if _env_get( env, call_name( v )) is not NoFold else None ):
                fold( v, env )						# a recording stand-in of the rule's
                continue
            if isinstance( v, ast.Call ) and isinstance( v.func, ast.Attribute ):
                try:
                    base_ = fold( v.func.value, env )
                except NoFold:
                    base_ = None
                if isinstance( base_, _Record ) and callable( getattr( base_, v.func.attr, None )):
                    fold( v, env )					# a method of a record the rule supplied ( source.push( x ) )
                    continue
                if ( isinstance( base_, set ) and v.func.attr in ( 'add', 'update', 'discard' ) or isinstance( base_, dict ) and v.func.attr == 'update' ) and not v.keywords:
                    getattr( base_, v.func.attr )( *_args( v.args, env ))			# the cell's own set / mapping grows
                    continue
                if isinstance( base_, list ) and v.func.attr in ( 'append', 'extend', 'insert' ) and not v.keywords:
                    getattr( base_, v.func.attr )( *[ fold( a, env ) for a in v.args ] )	# the cell's own work-list grows
                    continue
            if isinstance( v, ast.BoolOp ) and all( isinstance( o, ast.Call ) and any(( call_name( o ) or '' ).split( '.' )[0] == n_ for n_ in ignore_calls ) for o in v.values ):
                continue						# `log.isEnabledFor( ... ) and log.info( ... )`
            raise NoFold( 'statement %s' % ast.dump( v )[:60] )
        if isinstance( st, ast.Assign ) and len( st.targets ) == 1:
            _store( st.targets[0], fold( st.value, env ), env )
            continue
        if isinstance( st, ast.AugAssign ) and isinstance( st.target, ( ast.Name, ast.Subscript, ast.Attribute )):
            load = ast.copy_location( ast.fix_missing_locations( ast.parse( ast.unparse( st.target ), mode='eval' ).body ), st )
            _store( st.target, fold( ast.BinOp( left=load, op=st.op, right=st.value ), env ), env )
            continue
        if isinstance( st, ast.If ):
            out = run_block( st.body if fold( st.test, env ) else st.orelse, env, ignore_calls, stop_at_yield )
            if out.kind != 'fall':
                return out
            continue
        if isinstance( st, ast.For ) and not st.orelse:
            # a loop over a folded, finite sequence ( a table of fields ): the body is run once per item
            seq = fold( st.iter, env )
            if isinstance( seq, dict ):
                seq = list( seq )
            if isinstance( seq, ( enumerate, zip, range, reversed, type( {}.items() ), type( {}.keys() ), type( {}.values() ))):
                seq = list( itertools.islice( seq, 4097 ))
            if not isinstance( seq, ( list, tuple, str, bytes )) or len( seq ) > 4096:
                raise NoFold( 'loop over %r' % type( seq ).__name__ )
            done = None
            for item in seq:
                _store( st.target, item, env )
                out = run_block( st.body, env, ignore_calls, stop_at_yield )
                if out.kind == 'break':
                    break
                if out.kind not in ( 'fall', 'continue' ):
                    done = out; break
            if done is not None:
                return done
            continue
        if isinstance( st, ast.While ) and not st.orelse:
            # a loop whose test folds: bounded ( a work-list that is consumed ); more than 256 rounds is not a decision fragment
            rounds = 0
            done = None
            while fold( st.test, env ):
                rounds += 1
                if rounds > 256:
                    raise NoFold( 'while: more than 256 rounds' )
                out = run_block( st.body, env, ignore_calls, stop_at_yield )
                if out.kind == 'break':
                    break
                if out.kind not in ( 'fall', 'continue' ):
                    done = out; break
            if done is not None:
                return done
            continue
        if isinstance( st, ast.With ):
            # context managers ( locks, condition variables ) are not modelled: the body runs straight
            out = run_block( st.body, env, ignore_calls, stop_at_yield )
            if out.kind != 'fall':
                return out
            continue
        if isinstance( st, ast.Try ):
            # the straight path only: body, else, finally ( a body that cannot be folded is not a decision fragment; handlers are not modelled )
            try:
                out = run_block( st.body, env, ignore_calls, stop_at_yield )
            except Raises as exc:
                # an operation of the body raised on the cell's concrete values: the first handler whose type names that exception ( or a
                # catch-all ) takes over, as it would
                name = str( exc ).split( ':' )[0]
                hs = [ h for h in st.handlers if h.type is None or name in ast.unparse( h.type ) or ast.unparse( h.type ) in ( 'Exception', 'BaseException' ) ]
                if not hs:
                    raise
                out = run_block( hs[0].body, env, ignore_calls, stop_at_yield )
                if out.kind != 'fall':
                    return out
                out = run_block( st.finalbody, env, ignore_calls, stop_at_yield )
                if out.kind != 'fall':
                    return out
                continue
            if out.kind == 'raise' and st.handlers:
                # the body ended by raise / a failed assert: the handler that names it ( or a catch-all ) takes over
                hs = [ h for h in st.handlers if h.type is None or str( out.value ) in ast.unparse( h.type ) or ast.unparse( h.type ) in ( 'Exception', 'BaseException' ) ]
                if hs:
                    out2 = run_block( hs[0].body, env, ignore_calls, stop_at_yield )
                    if out2.kind == 'raise' and out2.value == 'raise':
                        out2 = out					# a bare `raise` re-raises what was caught
                    if out2.kind != 'fall':
                        return out2
                    out3 = run_block( st.finalbody, env, ignore_calls, stop_at_yield )
                    if out3.kind != 'fall':
                        return out3
                    continue
            if out.kind != 'fall':
                return out
            for part in ( st.orelse, st.finalbody ):
                out = run_block( part, env, ignore_calls, stop_at_yield )
                if out.kind != 'fall':
                    return out
            continue
        if isinstance( st, ast.Assert ):
            if not fold( st.test, env ):
                return Outcome( 'raise', 'AssertionError', st )
            continue
        if isinstance( st, ast.Raise ):
            name = None
            if st.exc is not None:
                name = dotted( st.exc.func if isinstance( st.exc, ast.Call ) else st.exc )
            return Outcome( 'raise', name or 'raise', st )
        if isinstance( st, ast.Return ):
            return Outcome( 'return', fold( st.value, env ) if st.value is not None else None, st )
        if isinstance( st, ast.Continue ):
            return Outcome( 'continue', None, st )
        if isinstance( st, ast.Break ):
            return Outcome( 'break', None, st )
        raise NoFold( 'statement kind %s' % type( st ).__name__ )
    return Outcome( 'fall' )



def helper_calls( tree, ignore_calls=(), base_env=None ):
    """{ 'call:<name>': callable } for the module-level functions of a parsed file whose body is a loop-free decision fragment: a decision
    moved into a small helper ( transfer_limit( address ), bank( address ) ... ) is evaluated where it is called.  The callable raises
    NoFold when the helper is more than that."""
    out = {}
    defs = { f.name: f for f in tree.body if isinstance( f, ast.FunctionDef ) }
    def make( f ):
        def call( *args ):
            params = [ a.arg for a in f.args.args ]
            if len( args ) > len( params ) or f.args.vararg or f.args.kwarg:
                raise NoFold( 'helper %s: arguments' % f.name )
            env = dict( base_env or {} ); env.update( out )
            dflt = f.args.defaults
            for k, p_ in enumerate( params ):
                if k < len( args ):
                    env[p_] = args[k]
                elif k >= len( params ) - len( dflt ):
                    env[p_] = fold( dflt[k - ( len( params ) - len( dflt ))] )
                else:
                    raise NoFold( 'helper %s: missing argument %s' % ( f.name, p_ ))
            r = run_block( f.body, env, ignore_calls=ignore_calls )
            if r.kind == 'return':
                return r.value
            if r.kind == 'fall':
                return None
            raise NoFold( 'helper %s ends by %s' % ( f.name, r.kind ))
        return call
    for name, f in defs.items():
        out['call:' + name] = make( f )
    return out


def method_calls( cdef, base_env, receiver='self', ignore_calls=() ):
    """{ '<receiver>.<name>': callable } for the methods of a class whose body is a decision fragment: a computation a method moved into a
    helper of its class ( self.span( key ) ) is evaluated where it is called, on the caller's environment `base_env` ( the same self.<field>
    stand-ins ) plus the helper's parameters.  Raises ( errors of the evaluated operations ) propagate; the callable raises NoFold otherwise."""
    out = {}
    def make( f ):
        static = any( isinstance( d, ast.Name ) and d.id == 'staticmethod' for d in f.decorator_list )
        def call( *args ):
            params = [ a.arg for a in f.args.args ]
            if not static and params:
                params = params[1:]
            if len( args ) != len( params ) or f.args.vararg or f.args.kwarg:
                raise NoFold( 'method %s: arguments' % f.name )
            env = dict( base_env ); env.update( out ); env.update( zip( params, args ))
            r = run_block( f.body, env, ignore_calls=ignore_calls )
            if r.kind == 'return':
                return r.value
            if r.kind == 'fall':
                return None
            raise NoFold( 'method %s ends by %s' % ( f.name, r.kind ))
        return call
    for f in cdef.body:
        if isinstance( f, ast.FunctionDef ) and not f.name.startswith( '__' ):
            out[receiver + '.' + f.name] = make( f )
    return out
