"""C18: history replay - structure of parse_record, reader.open (file order, selection, pacing) and loader.load (strict release, queueing, draining).
Every rule follows roles (the loop variable, the first-record timestamp, the list of deferred files ...) rather than local names."""
import ast, itertools

from .core import ( rule, Result, AnalysisError, Matcher, dotted, call_name, is_call_to, names_in, attrs_in, walk_no_nested,
                    pmatch, pfind, txt, norm_text )
from .fold import try_fold
from .cfg import CFG, INF

HFILES = 'history/files.py'
MISC = 'misc.py'


def _falsy_const( e ):
    return isinstance( e, ast.Constant ) and not e.value


def _stores_to( stmt, name ):
    return isinstance( stmt, ast.Assign ) and any( isinstance( t, ast.Name ) and t.id == name for t in stmt.targets )


# ---------------------------------------------------------------------------------------- H-PARSE


def ts_relation( e, ts_name ):
    """the relation a test states between the record's timestamp and the last accepted one ( self._ts ), found by value: evaluated for no
    position yet and for a timestamp before / at / after the position.  '>=' / '>' when it is exactly "no position yet, or ts >= / >
    position"; None for anything else ( a test that also looks at something else does not fold and is None )"""
    cells = []
    for last, ts in (( None, 5 ), ( 5, 4 ), ( 5, 5 ), ( 5, 6 )):
        v = try_fold( e, { 'self._ts': last, ts_name: ts }, default='?' )
        if v == '?':
            return None
        cells.append( bool( v ))
    return { ( True, False, True, True ): '>=', ( True, False, False, True ): '>' }.get( tuple( cells ))

@rule( 'H-PARSE', props=( 'C18', ), floor=4 )
def h_parse( ctx ):
    """parse_record: a skipped (blank / comment) line is never left in the line variable when the file ends; no record => StopIteration;
    every physical line advances the line number exactly once"""
    res = Result( 'H-PARSE' )
    src = ctx.src( HFILES )
    pr = src.get( 'parse_record' )
    loops = [ s for s in pr.body if isinstance( s, ast.For ) and isinstance( s.target, ast.Name ) ]
    if len( loops ) != 1:
        raise AnalysisError( 'parse_record: the line loop not found' )
    lp = loops[0]; L = lp.target.id
    if dotted( lp.iter ) != pr.args.args[0].arg:
        res.bad( src, lp, lp.iter, 'records must be read from the supplied file object, line by line' )
    else:
        res.ok( src, lp, 'lines are iterated from the file argument' )
    # abstract value of L at the loop exit: 'none' | 'skip' (a blank/comment line) | 'rec'
    cfg = CFG( pr )
    skip_ifs = [ n for n in ast.walk( lp ) if isinstance( n, ast.If ) and any( is_call_to( c, L + '.startswith' ) for c in ast.walk( n.test )) ]
    if not skip_ifs:
        res.bad( src, lp, 'parse_record loop', "blank lines and lines starting with '#' must be skipped" )
        return res
    skip_if = skip_ifs[0]
    skip_test_node = [ nd for nd in cfg.nodes if nd.kind == 'test' and nd.stmt is skip_if ][0]
    head = [ nd for nd in cfg.nodes if nd.kind == 'for' and nd.stmt is lp ][0]

    # which outcome of the test is "skip"?  decided by evaluating the test on a blank line, a comment and a record (not by its spelling)
    from .fold import fold, NoFold
    # the line is octets ( the file is read in binary ) until a statement re-binds it from <line>.decode( ... ): is one on the way to the test?
    decodes = [ nd for nd in cfg.nodes if nd.kind == 'stmt' and _stores_to( nd.stmt, L ) and any( is_call_to( c, L + '.decode' ) for c in ast.walk( nd.stmt )) ]
    dom0 = cfg.dominators()
    decoded_first = [ nd for nd in decodes if any( a is lp for a in src.ancestors( nd.stmt )) and cfg.dominates( nd, skip_test_node, dom0 ) ]
    samples = (( 'blank', '' ), ( 'comment', '# note' ), ( 'record', '1.5\t2\t{}' ))
    if not decoded_first:
        samples = tuple(( k, v.encode( 'ascii' )) for k, v in samples )
    try:
        tv = { k: bool( fold( skip_if.test, { L: v } )) for k, v in samples }
    except ( NoFold, TypeError ) as exc:
        raise AnalysisError( 'parse_record: skip test outside the modelled subset: %s' % exc )
    # a comment is free text ( logger.comment takes any encoding ): it is recognised on the octets, before the line is decoded - decoding first
    # makes a comment outside the expected encoding an exception, which at the head of a file condemns the whole file
    if decoded_first:
        res.bad( src, decoded_first[0].stmt, 'the line is decoded before the blank / comment test',
                 "a comment holding octets outside the expected encoding raises where it should be skipped: in front of a file's first record the whole file is ignored and its records are lost" )
    elif decodes:
        res.ok( src, decodes[0].stmt, 'the line is decoded only after the blank / comment test has let it through' )
    else:
        res.bad( src, lp, 'the record line is never decoded', 'the record text must be decoded with the expected encoding before it is split' )
    if tv['blank'] == tv['comment'] != tv['record']:
        SKIP_LABEL = 'true' if tv['blank'] else 'false'
        res.ok( src, skip_if, 'blank lines and comment lines take the same branch of the test, records the other' )
    else:
        res.bad( src, skip_if, skip_if.test, "blank lines and lines starting with '#' must be told apart from records (blank: %s, comment: %s, record: %s)" % ( tv['blank'], tv['comment'], tv['record'] ))
        return res

    def transfer( n, label, st ):
        if n is head:
            if label == 'true':
                return 'line'
            return st				# loop exit keeps whatever the variable holds
        if n is skip_test_node and label in ( 'true', 'false' ):
            return 'skip' if label == SKIP_LABEL else 'rec'
        if n.kind == 'stmt' and _stores_to( n.stmt, L ) and label != 'exc':
            if _falsy_const( n.stmt.value ):
                return 'none'
            return st if st != 'none' else 'line'
        return st

    def join( a, b ):
        return a if a == b else tuple( sorted( set(( a if isinstance( a, tuple ) else ( a, )) + ( b if isinstance( b, tuple ) else ( b, )))))
    pre = [ s for s in pr.body if _stores_to( s, L ) and pr.body.index( s ) < pr.body.index( lp ) ]
    init = 'none' if pre and _falsy_const( pre[-1].value ) else 'undef'
    state = cfg.forward( init, transfer, join, start=head )
    # state at the first statement after the loop
    after = [ nd for nd in cfg.nodes if nd.kind == 'join' and nd.stmt is lp and nd.why == 'after-loop' ][0]
    at_exit = state.get( after )
    vals = set( at_exit if isinstance( at_exit, tuple ) else ( at_exit, ))
    if 'skip' in vals or 'line' in vals:
        c = [ n for n in ast.walk( skip_if ) if isinstance( n, ast.Continue ) ]
        res.bad( src, c[0] if c else skip_if, 'skipped line kept in %r at end of file' % L,
                 'a file ending in a comment or blank line makes that line the "record": the split fails instead of StopIteration, and the reader drops out of the file sequence' )
    elif 'undef' in vals:
        res.bad( src, lp, 'line variable unbound for an empty file', 'an empty file must raise StopIteration, not UnboundLocalError' )
    else:
        res.ok( src, skip_if, 'at end of file the line variable holds None or a record, never a skipped line (%s)' % sorted( vals ))
    # no record -> StopIteration
    post = pr.body[pr.body.index( lp ) + 1:]
    guard = [ s for s in post if isinstance( s, ast.If ) and pmatch( s.test, 'not %s' % L ) and any( isinstance( b, ast.Raise ) and 'StopIteration' in txt( b ) for b in s.body ) ]
    if guard or ( lp.orelse and any( isinstance( b, ast.Raise ) and 'StopIteration' in txt( b ) for b in lp.orelse )):
        res.ok( src, guard[0] if guard else lp, 'no record found => StopIteration' )
    else:
        res.bad( src, pr, 'parse_record: end of file', 'an exhausted file must raise StopIteration (the reader switches files on it)' )
    # the split happens after that guard
    if guard:
        later = post[post.index( guard[0] ) + 1:]
        if any( is_call_to( c, L + '.split' ) for s in later for c in ast.walk( s )):
            res.ok( src, later[0], 'the record is split only after the end-of-file guard' )
        else:
            res.bad( src, pr, 'parse_record: split', 'the record must be split after the end-of-file guard' )
    # line counter: exactly one increment per iteration, before the skip test
    incs = [ nd for nd in cfg.nodes if nd.kind == 'stmt' and isinstance( nd.stmt, ast.AugAssign ) and isinstance( nd.stmt.op, ast.Add )
             and try_fold( nd.stmt.value ) == 1 and dotted( nd.stmt.target ) == pr.args.args[1].arg ]
    dom = cfg.dominators()
    if len( incs ) == 1 and cfg.dominates( incs[0], skip_test_node, dom ) and any( a is lp for a in src.ancestors( incs[0].stmt )):
        res.ok( src, incs[0].stmt, 'line number advanced once per physical line (comments included)' )
    else:
        res.bad( src, lp, 'line counter', 'the line number must advance exactly once for every physical line read' )
    return res


# ---------------------------------------------------------------------------------------- H-FILES

def _abs_eval( e, env ):
    """evaluate a boolean expression over an environment of abstract facts: names -> bool, ( a, b ) -> sign of a - b"""
    if isinstance( e, ast.Constant ):
        return e.value
    if isinstance( e, ast.Name ):
        if e.id in env:
            return env[e.id]
        raise KeyError( e.id )
    if isinstance( e, ast.UnaryOp ) and isinstance( e.op, ast.Not ):
        return not _abs_eval( e.operand, env )
    if isinstance( e, ast.BoolOp ):
        vals = ( _abs_eval( v, env ) for v in e.values )
        if isinstance( e.op, ast.And ):
            r = True
            for v in vals:
                r = v
                if not v:
                    break
            return r
        r = False
        for v in vals:
            r = v
            if v:
                break
        return r
    if isinstance( e, ast.IfExp ):
        return _abs_eval( e.body if _abs_eval( e.test, env ) else e.orelse, env )
    if isinstance( e, ast.Compare ) and len( e.ops ) == 1:
        a, b = txt( e.left ), txt( e.comparators[0] )
        if ( a, b ) in env:
            s = env[( a, b )]
        elif ( b, a ) in env:
            s = -env[( b, a )]
        else:
            raise KeyError(( a, b ))
        op = e.ops[0]
        return { ast.Lt: s < 0, ast.LtE: s <= 0, ast.Gt: s > 0, ast.GtE: s >= 0, ast.Eq: s == 0, ast.NotEq: s != 0 }[type( op )]
    raise KeyError( ast.dump( e )[:60] )


@rule( 'H-FILES', props=( 'C18', ), floor=9 )
def h_files( ctx ):
    """reader.open: candidate files are the directory entries starting with the base name, in natural order of their suffix; the
    before/after x strict selection table; an unreadable or record-less file does not end the search; the winner is the last deferred"""
    res = Result( 'H-FILES' )
    src = ctx.src( HFILES )
    op = src.get( 'reader.open' )
    loops = [ s for s in ast.walk( op ) if isinstance( s, ast.For ) and any( is_call_to( c, 'os.listdir' ) for c in ast.walk( s.iter )) ]
    globs = [ c for c in ast.walk( op ) if isinstance( c, ast.Call ) and ( call_name( c ) or '' ).split( '.' )[-1] in ( 'glob', 'iglob', 'fnmatch', 'filter' ) and ( call_name( c ) or '' ).split( '.' )[0] in ( 'glob', 'fnmatch' ) ]
    if globs:
        res.bad( src, globs[0], 'reader.open finds its candidate files by PATTERN ( %s )' % norm_text( globs[0] )[:60], 'the path the logger opened literally is read as a pattern on replay: a history path holding [ ] * ? ( unit[3].hst ) matches nothing - the replay completes having delivered no record' )
        return res
    if len( loops ) != 1:
        raise AnalysisError( 'reader.open: the loop over os.listdir not found' )
    lp = loops[0]
    it = lp.iter
    # ---- ordering
    if is_call_to( it, 'sorted' ) and any( k.arg == 'key' and dotted( k.value ) in ( 'natural', 'misc.natural' ) for k in it.keywords ) \
       and not any( k.arg == 'reverse' and try_fold( k.value ) for k in it.keywords ):
        res.ok( src, it, 'candidates iterated in sorted( ..., key=natural ) order (newest first: "", .0, .1, ... .9, .10)' )
    else:
        res.bad( src, it, it, 'history file suffixes must be iterated in natural order (numeric suffixes compared numerically): lexicographic order visits .10 before .2, so the wrong file is chosen and records are replayed out of order or lost' )
    M = Matcher()
    gen = it.args[0] if isinstance( it, ast.Call ) and it.args else it
    if isinstance( gen, ( ast.GeneratorExp, ast.ListComp )) and len( gen.generators ) == 1:
        g = gen.generators[0]
        v = g.target.id if isinstance( g.target, ast.Name ) else None
        # the filter: the entry IS the base name, or continues it with a '.' ( a bare prefix test also admits the files of another history
        # whose name merely begins the same way: replaying 'unit1' takes in 'unit10', 'unit10.1' ... )
        flt = g.ifs and len( g.ifs ) == 1 and isinstance( g.ifs[0], ast.BoolOp ) and isinstance( g.ifs[0].op, ast.Or ) and len( g.ifs[0].values ) == 2 \
            and any( pmatch( x_, '%s == self.name' % v ) is not None for x_ in g.ifs[0].values ) \
            and any( pmatch( x_, "%s.startswith( self.name + '.' )" % v ) is not None for x_ in g.ifs[0].values )
        prefix_only = bool( g.ifs ) and pmatch( g.ifs[0], '%s.startswith( self.name )' % v ) is not None
        m2 = pmatch( gen.elt, '%s[_flen:]' % v )
        flen_ok = False
        if m2 is not None:
            fl = m2['_flen']
            if pmatch( fl, 'len( self.name )' ):
                flen_ok = True
            elif isinstance( fl, ast.Name ):
                flen_ok = bool( pfind( op, '%s = len( self.name )' % fl.id ))
        listed = pmatch( g.iter, "os.listdir( self.dirs or '.' )" ) is not None or pmatch( g.iter, "os.listdir( self.dirs or os.curdir )" ) is not None
        if flt and flen_ok and listed and len( g.ifs ) == 1:
            res.ok( src, gen, 'candidates = suffixes of the entries of the history directory ( the current one for a bare file name ) that are self.name or continue it with "."' )
        elif prefix_only and flen_ok:
            res.bad( src, gen, 'the candidate files are all entries that merely BEGIN with the base name', 'a history whose name is a prefix of another\'s ( unit1 / unit10 ) takes in the other\'s files: foreign records are delivered and its own are lost' )
        elif flt and flen_ok and pmatch( g.iter, 'os.listdir( self.dirs )' ) is not None:
            res.bad( src, gen, 'os.listdir( self.dirs ) with an empty directory part', 'a history given by a bare file name ( the logger accepts it ) cannot be replayed: os.listdir( \'\' ) raises, the loader goes FAILED' )
        else:
            res.bad( src, gen, gen, 'the candidate files must be exactly the directory entries starting with the history base name, identified by their suffix' )
    else:
        res.bad( src, it, it, 'the candidate files must be exactly the directory entries starting with the history base name' )
    F = lp.target.id if isinstance( lp.target, ast.Name ) else None
    # ---- evaluation of one file: open + first record
    trys = [ s for s in lp.body if isinstance( s, ast.Try ) ]
    if not trys:
        raise AnalysisError( 'reader.open: per-file try block not found' )
    tr = trys[0]
    P = Matcher()
    first = None
    for s in tr.body:
        if isinstance( s, ast.Assign ) and is_call_to( s.value, 'parse_record' ):
            first = s
    if first is None or not P.m( first, '( _n, ( _ts, _sn, _js )) = parse_record( _fd, encoding=encoding )' ):
        raise AnalysisError( 'reader.open: first-record parse not found' )
    TS, JS, FD, N = P.name( '_ts' ), P.name( '_js' ), P.name( '_fd' ), P.name( '_n' )
    if pfind( tr, '%s = opener( self.path + %s )' % ( FD, F )):
        res.ok( src, tr, 'each candidate is opened through opener( self.path + suffix ) and its first record parsed' )
    else:
        res.bad( src, tr, 'open of candidate', 'a candidate must be opened as self.path + suffix through opener (decompressing by extension)' )
    # handlers: a file with no record / unreadable file must not end the search
    for h in tr.handlers:
        names = [ dotted( h.type ) ] if h.type is not None and not isinstance( h.type, ast.Tuple ) else [ dotted( e ) for e in ( h.type.elts if h.type is not None else [] ) ]
        ends = [ b for b in walk_no_nested( h ) if isinstance( b, ( ast.Break, ast.Return, ast.Raise )) ]
        what = '/'.join( n or '?' for n in names ) or 'bare'
        if ends:
            res.bad( src, ends[0], 'except %s: %s' % ( what, type( ends[0] ).__name__.lower()),
                     'a candidate file without any record (empty, or comments only) or an unreadable one must be passed over: ending the search here hides every older file, so their records are never replayed' )
        elif any( isinstance( b, ast.Continue ) for b in walk_no_nested( h )):
            res.ok( src, h, 'except %s: the file is passed over, the search continues' % what )
        else:
            res.bad( src, h, 'except %s' % what, 'a candidate that cannot be evaluated must be skipped (continue), not compared against the target' )
    # ---- selection table
    app = [ s for s in lp.body if isinstance( s, ast.Expr ) and isinstance( s.value, ast.Call ) and isinstance( s.value.func, ast.Attribute ) and s.value.func.attr == 'append' ]
    if len( app ) != 1:
        raise AnalysisError( 'reader.open: the deferred-file append not found' )
    OPENED = dotted( app[0].value.func.value )
    tup = app[0].value.args[0]
    if pmatch( tup, '( %s, %s, %s, ( %s, %s ))' % ( F, N, FD, TS, JS )):
        res.ok( src, app[0], 'deferred entry = ( suffix, line, fd, ( first ts, first js ))' )
    else:
        res.bad( src, app[0], tup, 'the deferred entry must carry the file suffix, line number, open file and its first record' )
    idx = lp.body.index( app[0] )
    def breaking_ifs( stmts ):
        return [ s for s in stmts if isinstance( s, ast.If ) and any( isinstance( b, ast.Break ) for b in s.body ) and not s.orelse ]
    pre, post = breaking_ifs( lp.body[:idx] ), breaking_ifs( lp.body[idx+1:] )
    pre = [ s for s in pre if s is not tr ]
    def table( test ):
        out = {}
        for after, strict, sgn in itertools.product(( True, False ), ( True, False ), ( -1, 0, 1 )):
            out[( after, strict, sgn )] = bool( _abs_eval( test, { 'after': after, 'strict': strict, ( TS, 'target' ): sgn } ))
        return out
    want_reject = { k: ( k[0] and ( k[2] < 0 or ( k[2] == 0 and k[1] ))) for k in itertools.product(( True, False ), ( True, False ), ( -1, 0, 1 )) }
    want_stop = { k: (( not k[0] ) and ( k[2] < 0 or ( k[2] == 0 and not k[1] ))) for k in want_reject }
    for label, ifs, want, why in (
            ( 'reject (before deferring)', pre, want_reject, 'searching after the target, a file is rejected iff its first timestamp is < target, or == target when strict (else a file holding only equal timestamps is re-opened forever, or the next file is skipped)' ),
            ( 'stop (after deferring)', post, want_stop, 'searching before the target, the search stops at the first file whose first timestamp is < target, or == target when not strict' )):
        if len( ifs ) != 1:
            res.bad( src, lp, 'selection: %s' % label, 'exactly one break condition expected here: ' + why )
            continue
        try:
            got = table( ifs[0].test )
        except KeyError as exc:
            raise AnalysisError( 'reader.open selection condition outside the modelled subset: %s' % exc )
        diff = [ k for k in want if bool( want[k] ) != got[k] ]
        if diff:
            k = diff[0]
            res.bad( src, ifs[0], ifs[0].test, '%s; differs for after=%s strict=%s sign(ts-target)=%+d (%d of 12 cells)' % ( why, k[0], k[1], k[2], len( diff )))
        else:
            res.ok( src, ifs[0], 'selection %s: 12-cell table over after x strict x sign( ts - target ) agrees' % label )
    if pre and not any( is_call_to( c, FD + '.close' ) for c in ast.walk( pre[0] )):
        res.bad( src, pre[0], 'rejected file left open', 'a rejected candidate must be closed' )
    # ---- the winner is the last deferred file
    after_loop = [ s for s in ast.walk( op ) if isinstance( s, ast.Assign ) and isinstance( s.value, ast.Subscript ) and dotted( s.value.value ) == OPENED ]
    win_ok = False
    for s in after_loop:
        i = try_fold( s.value.slice )
        if i == -1:
            win_ok = True
        elif i == 0:
            shr = [ w for w in ast.walk( op ) if isinstance( w, ast.While ) and pmatch( w.test, 'len( %s ) > 1' % OPENED )
                    and any( pmatch( c, '%s.pop( 0 )' % OPENED ) for c in ast.walk( w )) ]
            win_ok = bool( shr ) and shr[0].lineno < s.lineno
        if pmatch( s.targets[0], '( _f, _n, _fd, ( _ts, _js ))' ) is None:
            win_ok = False
    if after_loop and win_ok:
        res.ok( src, after_loop[0], 'the file replayed is the last one deferred (all earlier ones are closed)' )
    else:
        res.bad( src, after_loop[0] if after_loop else op, 'winner selection', 'the file to replay must be the LAST deferred candidate (the oldest one after / newest one before the target)' )
    emp = [ s for s in ast.walk( op ) if isinstance( s, ast.If ) and ( pmatch( s.test, 'len( %s ) == 0' % OPENED ) or pmatch( s.test, 'not %s' % OPENED ))
            and any( isinstance( b, ast.Raise ) and 'HistoryExhausted' in txt( b ) for b in s.body ) ]
    if emp:
        res.ok( src, emp[0], 'no candidate => HistoryExhausted' )
    else:
        res.bad( src, op, 'no candidate', 'when no file qualifies the reader must raise HistoryExhausted (the loader then drains its look-ahead and completes)' )
    # ---- finally: everything still deferred is closed
    fin = [ t for t in ast.walk( op ) if isinstance( t, ast.Try ) and t.finalbody ]
    if fin and any( isinstance( s, ast.For ) and dotted( s.iter ) == OPENED and any( isinstance( c, ast.Call ) and isinstance( c.func, ast.Attribute ) and c.func.attr == 'close' for c in ast.walk( s )) for s in fin[0].finalbody ):
        res.ok( src, fin[0], 'every deferred file is closed when the generator finishes or fails' )
    else:
        res.bad( src, op, 'finally', 'deferred files must be closed on every exit of the generator' )
    # ---- the time the search starts from, decided by value: the statements ahead of the file loop are run with the historical clock at
    #      1000.0 and a look-ahead of 30 - no target given: the clock itself ( the look-ahead bounds what is YIELDED, H-PACE; a search
    #      target moved ahead by it skips the file whose first record lies inside the window: its records are never delivered ); a target
    #      given: that time, converted by timestamp()
    params = [ a.arg for a in op.args.args ]
    if len( params ) < 4 or len( op.args.defaults ) != len( params ) - 1:
        raise AnalysisError( 'reader.open: parameters ( self, target, after, lookahead, ... ) not recognised: %s' % params )
    first_loop = min(( s_.lineno for s_ in ast.walk( op ) if isinstance( s_, ( ast.For, ast.Try, ast.While ))), default=None )
    head = [ s_ for s_ in op.body if s_.lineno < first_loop and not ( isinstance( s_, ast.Expr ) and isinstance( s_.value, ast.Constant )) ]
    sets = [ s_ for h_ in head for s_ in ast.walk( h_ ) if isinstance( s_, ast.Assign ) and dotted( s_.targets[0] ) == params[1] ]
    if not sets:
        raise AnalysisError( 'reader.open: the assignment of the search target ( %s ) ahead of the file loop not found' % params[1] )
    from .fold import run_block, NoFold, Raises
    got = []
    for given in ( None, 'T' ):
        env = dict(( p_, try_fold( d_ )) for p_, d_ in zip( params[1:], op.args.defaults ))
        env.update({ params[1]: given, params[3]: 30.0, 'self.advance': lambda: 1000.0, 'timestamp': lambda x: ( 'timestamp', x ), 'self.lookahead': 30.0,
                     'misc.timestamp': lambda x: ( 'timestamp', x ) })
        try:
            out = run_block( head, env, ignore_calls=( 'log', ))
        except Raises as exc:
            got.append( 'raises %s' % exc ); continue
        except NoFold as exc:
            raise AnalysisError( 'reader.open: the statements ahead of the file loop are outside the modelled subset: %s' % str( exc )[:80] )
        got.append( env.get( params[1] ) if out.kind == 'fall' else out.kind )
    if got == [ 1000.0, ( 'timestamp', 'T' ) ]:
        res.ok( src, sets[0], 'the search for the file to replay starts from the historical clock itself ( no target given ) or from the given time' )
    else:
        res.bad( src, sets[0], 'reader.open searches from %s ( clock 1000.0, look-ahead 30, no target given ) and %s ( target T given )' % ( got[0], got[1] ),
                 'the file whose first record lies between the clock and the time searched from is passed over: the records logged there are never replayed' )
    return res


@rule( 'H-NATURAL', props=( 'C18', ), floor=4 )
def h_natural( ctx ):
    """misc.natural: digit runs accumulate into one integer (base 10), integers are rendered right-aligned in a fixed width so that they
    compare numerically as strings, other characters compare case-insensitively"""
    res = Result( 'H-NATURAL' )
    src = ctx.src( MISC )
    fn = src.get( 'natural' )
    loops = [ s for s in ast.walk( fn ) if isinstance( s, ast.For ) and isinstance( s.target, ast.Name ) and dotted( s.iter ) == fn.args.args[0].arg ]
    if not loops:
        raise AnalysisError( 'misc.natural: character loop not found' )
    lp = loops[0]; C = lp.target.id
    M = Matcher()
    dig = [ s for s in lp.body if isinstance( s, ast.If ) and pmatch( s.test, '%s.isdigit()' % C ) ]
    if not dig:
        res.bad( src, lp, 'digit test', 'digits must be recognised with isdigit()' )
        return res
    d = dig[0]
    acc = M.find( d, '_r[-1] = _r[-1] * 10 + int( %s )' % C )
    new = M.find( d, '_r.append( int( %s ))' % C )
    if acc is not None and new is not None:
        res.ok( src, d, 'a run of digits accumulates into one base-10 integer' )
        # the accumulate branch is taken iff the previous item is a number
        ifs = [ s for s in d.body if isinstance( s, ast.If ) ]
        if ifs and any( acc is x for x in ast.walk( ifs[0] ) if x in ifs[0].body ) and 'num_types' in attrs_in( ifs[0].test ) and pmatch( ifs[0].test, '%s and _t' % M.name( '_r' )):
            res.ok( src, ifs[0], 'accumulate iff the previous item is numeric, else start a new number' )
        else:
            res.bad( src, ifs[0] if ifs else d, 'accumulate/append choice', 'a digit extends the previous item only if that item is a number; otherwise it starts a new number' )
    else:
        res.bad( src, d, d, 'consecutive digits must accumulate numerically (x*10 + digit): ".10" must order after ".9"' )
    oth = [ c for s in d.orelse for c in ast.walk( s ) if isinstance( c, ast.Call ) and isinstance( c.func, ast.Attribute ) and c.func.attr == 'append' ]
    if oth and ( pmatch( oth[0].args[0], '%s.lower()' % C ) or pmatch( oth[0].args[0], C )):
        res.ok( src, oth[0], 'non-digits are kept as characters' )
    else:
        res.bad( src, d, 'non-digit branch', 'non-digit characters must be kept one per item' )
    # numbers rendered with a right-aligned fixed width
    fmt_default = None
    ar = fn.args
    defaults = dict( zip( [ a.arg for a in ar.args[len( ar.args ) - len( ar.defaults ):] ], ar.defaults ))
    if 'fmt' in defaults:
        fmt_default = try_fold( defaults['fmt'] )
    import re
    mo = re.fullmatch( r'%(\d+)[sd]', fmt_default or '' )
    if mo and int( mo.group( 1 )) >= 4:
        res.ok( src, fn, 'numbers are rendered right-aligned in %s columns: string comparison equals numeric comparison up to that width' % mo.group( 1 ))
    else:
        res.bad( src, fn, 'fmt=%r' % ( fmt_default, ), 'numeric items must be rendered right-aligned in a fixed width (space/zero padded) to compare numerically' )
    ret = [ s for s in fn.body if isinstance( s, ast.Return ) ]
    if ret and is_call_to( ret[-1].value, 'tuple' ) and pfind( ret[-1], 'fmt % _i' ):
        res.ok( src, ret[-1], 'key = tuple of items, numbers formatted through fmt' )
    else:
        res.bad( src, ret[-1] if ret else fn, 'return', 'the key must be the tuple of items with numbers formatted through fmt' )
    return res


@rule( 'H-OPENER', props=( 'C18', ), floor=4 )
def h_opener( ctx ):
    """opener: extension -> decompressor table, mode passed through; plain files otherwise"""
    res = Result( 'H-OPENER' )
    src = ctx.src( HFILES )
    fn = src.get( 'opener' )
    want = { '.bz2': 'bz2.BZ2File', '.gz': 'gzip.GzipFile' }
    chain = [ s for s in fn.body if isinstance( s, ast.If ) and any( is_call_to( c, 'path.endswith' ) for c in ast.walk( s.test )) ]
    if not chain:
        raise AnalysisError( 'opener: extension chain not found' )
    node = chain[0]; seen = {}
    while isinstance( node, ast.If ):
        m = pmatch( node.test, 'path.endswith( _e )' )
        ext = try_fold( m['_e'] ) if m is not None else None
        seen[ext] = node
        if ext in want:
            calls = [ c for c in ast.walk( ast.Module( body=node.body, type_ignores=[] )) if is_call_to( c, want[ext] ) ]
            if calls and pmatch( calls[0], '%s( path, mode=mode )' % want[ext] ) or calls and pmatch( calls[0], '%s( path, mode )' % want[ext] ):
                res.ok( src, node, '%s -> %s( path, mode )' % ( ext, want[ext] ))
            else:
                res.bad( src, node, 'extension %s' % ext, '%s files must be opened with %s on the same path and mode' % ( ext, want[ext] ))
        elif ext == '.xz':
            txts = txt( node )
            if '--decompress' in txts and '--stdout' in txts and 'stdout=subprocess.PIPE' in txts.replace( ' ', '' ):
                res.ok( src, node, '.xz -> xz --decompress --stdout subprocess for reading' )
            else:
                res.bad( src, node, 'extension .xz', '.xz files must be read through `xz --decompress --stdout`' )
        nxt = node.orelse
        if len( nxt ) == 1 and isinstance( nxt[0], ast.If ):
            node = nxt[0]
        else:
            plain = [ c for s in nxt for c in ast.walk( s ) if is_call_to( c, 'open' ) ]
            if plain and plain[0].args and dotted( plain[0].args[0] ) == 'path' and len( plain[0].args ) > 1 and dotted( plain[0].args[1] ) == 'mode':
                res.ok( src, plain[0], 'otherwise: open( path, mode )' )
            else:
                res.bad( src, node, 'plain file branch', 'files without a compression extension must be opened directly with the requested mode' )
            break
    for ext in want:
        if ext not in seen:
            res.bad( src, fn, 'extension %s' % ext, 'compressed copies (%s) of rotated history files must be readable' % ext )
    # default mode is binary read (parse_record decodes bytes)
    ar = fn.args
    defaults = dict( zip( [ a.arg for a in ar.args[len( ar.args ) - len( ar.defaults ):] ], ar.defaults ))
    if try_fold( defaults.get( 'mode' )) == 'rb':
        res.ok( src, fn, "default mode 'rb' (parse_record decodes bytes)" )
    else:
        res.bad( src, fn, 'mode default', "history files are read as bytes ('rb'); parse_record decodes each line" )
    return res


# ---------------------------------------------------------------------------------------- H-PACE

@rule( 'H-PACE', props=( 'C18', ), floor=6 )
def h_pace( ctx ):
    """reader.open pacing: a record is yielded only when ts <= advance() + lookahead; a not-yet-due record is announced as ( ts, None ) and
    offered again; exactly one parse_record between two yielded records; end of file ends the generator"""
    res = Result( 'H-PACE' )
    src = ctx.src( HFILES )
    op = src.get( 'reader.open' )
    cfg = CFG( op )
    ys = []
    for nd in cfg.nodes:
        if nd.kind == 'stmt' and isinstance( nd.stmt, ast.Expr ) and isinstance( nd.stmt.value, ast.Yield ):
            ys.append( nd )
    if len( ys ) < 2:
        raise AnalysisError( 'reader.open: yields not found (%d)' % len( ys ))
    M = Matcher()
    wait, recs = [], []
    for y in ys:
        v = y.stmt.value.value
        m = pmatch( v, '( ( _f, _n, _cur ), ( _ts, _js ) )' )
        if m is None:
            res.bad( src, y.stmt, v, 'records are yielded as (( file, line, current historical time ), ( ts, js ))' )
            continue
        if _falsy_const( m['_js'] ):
            wait.append(( y, m ))
        else:
            recs.append(( y, m ))
    if not wait or not recs:
        res.bad( src, op, 'yields', 'the generator must yield both due records ( ts, js ) and "not yet" announcements ( ts, None )' )
        return res
    TS = dotted( recs[0][1]['_ts'] ); JS = dotted( recs[0][1]['_js'] ); CUR = dotted( recs[0][1]['_cur'] )
    # the horizon: ADV = CUR + ( lookahead or 0.0 ), CUR = self.advance()
    def late_( e ):
        """`ts > adv`, possibly guarded `ts is not None and ts > adv` ( ts None: no record could be parsed from the line - nothing to pace )"""
        m_ = pmatch( e, '%s > _adv' % TS )
        if m_ is None and isinstance( e, ast.BoolOp ) and isinstance( e.op, ast.And ) and len( e.values ) == 2 and pmatch( e.values[0], '%s is not None' % TS ) is not None:
            m_ = pmatch( e.values[1], '%s > _adv' % TS )
        return m_
    tests = [ nd for nd in cfg.nodes if nd.kind == 'test' and isinstance( nd.stmt, ast.If ) and late_( nd.expr ) is not None ]
    if not tests:
        res.bad( src, op, 'due test', 'a record is due iff not ts > advance() + lookahead' )
        return res
    ADV = dotted( late_( tests[0].expr )['_adv'] )
    # ( decided by value: every store of the horizon is evaluated for a clock of 100 s and look-aheads None / 0 / 2.5 / 10 - any way of writing
    # "the clock plus the look-ahead, none meaning 0" passes )
    from .fold import fold, NoFold
    def horizon_ok_( e ):
        try:
            return all( fold( e, { CUR: 100.0, 'lookahead': la, 'self.factor': 7.0 } ) == 100.0 + ( la or 0.0 ) for la in ( None, 0, 0.0, 2.5, 10 ))
        except NoFold:
            return False
    horizon = [ ( a_, None ) for a_ in ast.walk( op ) if isinstance( a_, ast.Assign ) and any( dotted( t_ ) == ADV for t_ in a_.targets ) and horizon_ok_( a_.value ) ]
    clock = pfind( op, '%s = self.advance()' % CUR )
    if horizon and clock:
        res.ok( src, horizon[0][0], 'horizon = self.advance() + ( lookahead or 0.0 )' )
    else:
        res.bad( src, tests[0].stmt, 'horizon %s' % ADV, 'the horizon must be the advancing historical time plus the look-ahead' )
    # all stores to ADV use that form and every store of CUR is self.advance()
    for s in ast.walk( op ):
        if isinstance( s, ast.Assign ) and any( dotted( t ) == ADV for t in s.targets ):
            if not horizon_ok_( s.value ):
                res.bad( src, s, s, 'the horizon must be the advancing historical time plus the look-ahead' )
        if isinstance( s, ast.Assign ) and any( dotted( t ) == CUR for t in s.targets ) and not pmatch( s.value, 'self.advance()' ):
            res.bad( src, s, s, 'the current historical time reported with each record must come from self.advance()' )
    # each store of ADV immediately follows a store to CUR (a stale clock with a fresh horizon misreports `cur`)
    # ---- record yields: on every path from the loop head to a record yield, the last evaluation of `ts > adv` was False
    loop = [ a for a in src.ancestors( recs[0][0].stmt ) if isinstance( a, ast.While ) ]
    if not loop:
        raise AnalysisError( 'reader.open: pacing loop not found' )
    lw = loop[0]
    lhead = [ nd for nd in cfg.nodes if nd.kind == 'test' and nd.stmt is lw ][0]
    tset = set( tests )
    def transfer( n, label, st ):
        if label == 'exc':
            return None
        if n in tset:
            return 'late' if label == 'true' else 'due'
        if n.kind == 'stmt' and isinstance( n.stmt, ast.Assign ) and any( dotted( t ) in ( ADV, TS ) for tt in n.stmt.targets for t in ast.walk( tt )):
            return 'unknown' if st != 'init' else st
        if n is lhead and label == 'true':
            return 'unknown'
        return st
    def join( a, b ):
        return a if a == b else 'mixed'
    st = cfg.forward( 'init', transfer, join, start=lhead )
    for y, m in recs:
        if st.get( y ) == 'due':
            res.ok( src, y.stmt, 'record yielded only where `%s > %s` was just found False (ts <= historical time + look-ahead)' % ( TS, ADV ))
        else:
            res.bad( src, y.stmt, y.stmt, 'a record may be yielded only after establishing that its timestamp is not beyond the advancing historical time plus look-ahead (state here: %s)' % st.get( y ))
    for y, m in wait:
        if st.get( y ) == 'late' and dotted( m['_ts'] ) == TS:
            res.ok( src, y.stmt, '( ts, None ) announced only where `%s > %s` holds after re-reading the clock' % ( TS, ADV ))
        else:
            res.bad( src, y.stmt, y.stmt, '( ts, None ) must announce exactly a record that is still in the future (state here: %s)' % st.get( y ))
        # the clock is re-read before announcing
        if not cfg.must_pass( lhead, y, [ nd for nd in cfg.nodes if nd.kind == 'stmt' and pmatch( nd.stmt, '%s = self.advance()' % CUR ) and any( a is lw for a in src.ancestors( nd.stmt )) ], correlated=False ):
            res.bad( src, y.stmt, y.stmt, 'before announcing "not yet" the advancing clock must be re-read (else a due record is withheld forever)' )
    # ---- exactly one parse_record between a yielded record and the next yield; none between an announcement and the next yield
    parses = [ nd for nd in cfg.nodes if nd.kind == 'stmt' and any( is_call_to( c, 'parse_record' ) for c in ast.walk( nd.stmt )) and any( a is lw for a in src.ancestors( nd.stmt )) ]
    if not parses:
        res.bad( src, lw, 'next record', 'the next record must be parsed after each yielded record' )
        return res
    allys = [ y for y, _ in recs + wait ]
    def next_yield_counts( y ):
        out = {}
        # walk forward from y (cutting at other yields) counting parse nodes; loop edges allowed once
        best = {}
        stack = [ ( y, 0 ) ]
        while stack:
            n, c = stack.pop()
            for mnode, label in cfg.succ[n]:
                if label == 'exc':
                    continue
                c2 = c + ( 1 if mnode in parses else 0 )
                if mnode in allys:
                    out.setdefault( mnode, set()).add( c2 )
                    continue
                if c2 in best.setdefault( mnode, set()) or c2 > 3:
                    continue
                best[mnode].add( c2 )
                stack.append(( mnode, c2 ))
        return out
    for y, m in recs:
        counts = set().union( *next_yield_counts( y ).values()) if next_yield_counts( y ) else set()
        if counts == { 1 }:
            res.ok( src, y.stmt, 'exactly one parse_record between a yielded record and the next yield: no record repeated or skipped' )
        else:
            res.bad( src, y.stmt, 'parse_record count after a yielded record: %s' % sorted( counts ), 'after yielding a record exactly one new record must be parsed before the next yield (0 = the record is delivered twice, 2 = one is lost)' )
    for y, m in wait:
        counts = set().union( *next_yield_counts( y ).values()) if next_yield_counts( y ) else set()
        if counts == { 0 }:
            res.ok( src, y.stmt, 'no parse_record between a "not yet" announcement and the next yield: the pending record is offered again' )
        else:
            res.bad( src, y.stmt, 'parse_record count after ( ts, None ): %s' % sorted( counts ), 'a record announced as not yet due must be offered again, not replaced by the next one' )
    # the parse continues from the same file / line and StopIteration ends the file
    P = Matcher()
    ps = parses[0].stmt
    if P.m( ps, '( _n, ( %s, _sn, %s )) = parse_record( _fd, n=_n, encoding=encoding )' % ( TS, JS )):
        res.ok( src, ps, 'next record parsed from the same file, continuing the line count, into the yielded ( ts, js )' )
    else:
        res.bad( src, ps, ps, 'the next record must be parsed from the same open file with the running line number, into the variables that are yielded' )
    tr = [ a for a in src.ancestors( ps ) if isinstance( a, ast.Try ) ]
    if tr and any( dotted( h.type ) == 'StopIteration' and any( isinstance( b, ( ast.Break, ast.Return )) for b in h.body ) for h in tr[0].handlers ):
        res.ok( src, tr[0], 'StopIteration ends this file (the loader switches to the next one)' )
    else:
        res.bad( src, tr[0] if tr else ps, 'end of file handling', 'end of file (StopIteration) must end the generator so that the loader switches to the next file' )
    # a later record whose timestamp / serial cannot be parsed is reported as ( None, None ) and the file goes on (the loader skips such a
    # record): the parse of a non-first record needs a handler for everything but StopIteration that does not end the generator
    # ( the handler is for what PARSING a consumed line raises - ValueError: decoding, splitting, timestamp, serial.  A failure of the stream
    # itself - a truncated or damaged compressed file: EOFError, OSError, zlib.error - repeats on every further read; handled like a bad
    # line it is reported as ( None, None ) without end and load() never returns.  A catch-all is accepted where it ends the file. )
    def types_( h ):
        return { None } if h.type is None else { dotted( e ) for e in ( h.type.elts if isinstance( h.type, ast.Tuple ) else [ h.type ] ) }
    BROAD = { None, 'Exception', 'BaseException', 'EOFError', 'EnvironmentError', 'OSError', 'IOError', 'zlib.error' }
    hs_ = [ h for h in ( tr[0].handlers if tr else [] ) if types_( h ) != { 'StopIteration' } ]
    leaves_ = lambda h: any( isinstance( b, ( ast.Raise, ast.Break, ast.Return )) for b in ast.walk( h ))
    soft = [ h for h in hs_ if not leaves_( h ) ]
    for h in soft:
        if types_( h ) & BROAD:
            res.bad( src, h, 'a failure of the stream is treated like an unparsable line ( except %s )' % ( norm_text( h.type ) if h.type is not None else '' ),
                     'a truncated or damaged compressed file raises from every further read: reported as ( None, None ) and skipped, the loader asks again without end - load() never returns' )
        else:
            res.ok( src, h, 'only what parsing a consumed line raises ( %s ) is reported and skipped' % norm_text( h.type ))
    if soft:
        res.ok( src, soft[0], 'an unparsable later record is reported and skipped' )
        # ... and what is reported for it is "no record": the handler clears ( ts, js ) - left alone they still hold the record yielded
        # before, which would be delivered a second time
        cleared = set()
        for a_ in ast.walk( soft[0] ):
            if isinstance( a_, ast.Assign ):
                for tg_ in a_.targets:
                    if isinstance( tg_, ast.Tuple ) and isinstance( a_.value, ast.Tuple ) and len( tg_.elts ) == len( a_.value.elts ):
                        cleared |= { dotted( t_ ) for t_, v_ in zip( tg_.elts, a_.value.elts ) if isinstance( v_, ast.Constant ) and v_.value is None }
                    elif isinstance( a_.value, ast.Constant ) and a_.value.value is None:
                        cleared.add( dotted( tg_ ))
        leaves = any( isinstance( b_, ( ast.Continue, ast.Break, ast.Return )) for b_ in ast.walk( soft[0] ))
        if { TS, JS } <= cleared and not leaves:
            res.ok( src, soft[0], 'the handler clears ( %s, %s ): the skipped line is reported as ( None, None )' % ( TS, JS ))
        else:
            res.bad( src, soft[0], 'the handler of an unparsable line leaves ( %s, %s ) as they were' % ( TS, JS ),
                     'the variables still hold the record yielded before the corrupt line: it is yielded - and delivered - a second time ( or, leaving the loop, the rest of the file is lost )' )
    else:
        res.bad( src, tr[0] if tr else ps, 'reader.open: a later record with an unparsable timestamp / serial ends the replay',
                 'parse_record raises ( ValueError ... ), nothing in the pacing loop catches it, the generator dies and the loader goes FAILED: every record after the corrupt one - in this and all later files - is lost, although the corrupt record alone should be skipped' )
    # the look-ahead that enters the horizon is the caller's, in HISTORICAL seconds, as given: loader.__init__ stores its parameter unchanged
    # ( everything downstream adds it to the historical clock; scaled by the speed factor, records arrive up to ( factor - 1 ) x lookahead early )
    li = src.get( 'loader.__init__' )
    las = [ a_ for a_ in walk_no_nested( li ) if isinstance( a_, ast.Assign ) and any( dotted( t_ ) == 'self.lookahead' for t_ in a_.targets ) ]
    params_ = { a_.arg for a_ in li.args.args + li.args.kwonlyargs }
    if not las:
        raise AnalysisError( 'loader.__init__: store of self.lookahead not found' )
    for a_ in las:
        if isinstance( a_.value, ast.Name ) and a_.value.id in params_:
            res.ok( src, a_, 'the look-ahead is stored as the caller gave it ( %s )' % norm_text( a_ ))
        else:
            res.bad( src, a_, 'loader.__init__ stores a transformed look-ahead ( %s )' % norm_text( a_ ), 'the pacing horizon is historical time + look-ahead: a look-ahead scaled ( by the speed factor ) delivers records before clock + look-ahead reaches them ( factor > 1 ) or withholds records that are due ( factor < 1 )', func='loader.__init__' )
    return res


# ---------------------------------------------------------------------------------------- H-LOAD

@rule( 'H-LOAD', props=( 'C18', ), floor=10 )
def h_load( ctx ):
    """loader.load: open() arguments; strict set after each open and released only after a record of the file has been seen with an increased
    timestamp; monotone acceptance; event and future queued together; future drained up to the historical clock only"""
    res = Result( 'H-LOAD' )
    src = ctx.src( HFILES )
    ld = src.get( 'loader.load' )
    cfg = CFG( ld )
    # ---- open call
    opens = [ c for c in ast.walk( ld ) if is_call_to( c, 'self.open' ) ]
    if len( opens ) != 1:
        raise AnalysisError( 'loader.load: self.open call not found' )
    oc = opens[0]
    kw = { k.arg: k.value for k in oc.keywords }
    ost = [ a for a in src.ancestors( oc ) if isinstance( a, ast.stmt ) ][0]
    blk = [ a for a in src.ancestors( oc ) if isinstance( a, ast.If ) ]
    if 'target' in kw and pmatch( kw['target'], 'self._ts' ):
        res.ok( src, oc, 'open( target = last accepted timestamp )' )
    else:
        res.bad( src, oc, 'open target', 'the next file must be searched relative to the last accepted timestamp (self._ts)' )
    aft = kw.get( 'after' )
    aft_ok = False
    STATES = ( 'INITIAL', 'SWITCHING', 'STREAMING', 'AWAITING', 'EXHAUSTED', 'COMPLETE', 'FAILED' )
    def by_state( e ):
        """the truth of a test of self.state, for each loader state ( None where the test looks at more than the state )"""
        out = []
        for st_ in STATES:
            env = { 'self.state': st_ }
            env.update(( 'self.' + n_, n_ ) for n_ in STATES )
            env.update(( 'loader.' + n_, n_ ) for n_ in STATES )
            v_ = try_fold( e, env, default='?' )
            out.append( None if v_ == '?' else bool( v_ ))
        return out
    if aft is not None:
        if isinstance( aft, ast.Name ):
            ds_ = [ a_.value for a_ in ast.walk( ld ) if isinstance( a_, ast.Assign ) and any( isinstance( t_, ast.Name ) and t_.id == aft.id for t_ in a_.targets ) ]
            aft = ds_[0] if len( ds_ ) == 1 else aft
        aft_ok = by_state( aft ) == [ n_ != 'INITIAL' for n_ in STATES ]
    if aft_ok:
        res.ok( src, oc, 'open( after = state is not INITIAL ): the first file is the one at/before the start point, later ones follow the last timestamp' )
    else:
        res.bad( src, oc, 'open after', 'the initial open searches before the start point, every later one after the last timestamp' )
    if 'strict' in kw and pmatch( kw['strict'], 'self._strict' ):
        res.ok( src, oc, 'open( strict = self._strict )' )
    else:
        res.bad( src, oc, 'open strict', 'the strict flag must be handed to open (a file holding only equal timestamps would be re-opened)' )
    if 'lookahead' in kw and pmatch( kw['lookahead'], 'self.lookahead' ):
        res.ok( src, oc, 'open( lookahead = self.lookahead )' )
    else:
        res.bad( src, oc, 'open lookahead', 'the configured look-ahead must be handed to open' )
    if blk and by_state( blk[0].test ) == [ n_ in ( 'INITIAL', 'SWITCHING' ) for n_ in STATES ]:
        res.ok( src, blk[0], 'a file is opened exactly in states INITIAL and SWITCHING' )
    else:
        res.bad( src, blk[0] if blk else ost, 'open condition', 'a new file must be opened exactly when INITIAL or SWITCHING (STREAMING/AWAITING continue the open generator)' )
    # strict := True right after the open
    sib = blk[0].body if blk else []
    i = sib.index( ost ) if ost in sib else -1
    if i >= 0 and any( pmatch( s, 'self._strict = True' ) for s in sib[i+1:] ):
        res.ok( src, ost, 'self._strict = True after every open' )
    else:
        res.bad( src, ost, 'strict after open', 'after opening a file strict must be set until increasing timestamps have been seen in it' )
    # ---- the record loop
    loops = [ s for s in ast.walk( ld ) if isinstance( s, ast.For ) and pmatch( s.iter, 'self._i' ) ]
    if len( loops ) != 1:
        raise AnalysisError( 'loader.load: record loop over self._i not found' )
    lp = loops[0]
    m = pmatch( lp.target, '( ( self._f, self._n, _cur ), ( _ts, _js ) )' )
    if m is None:
        raise AnalysisError( 'loader.load: record loop target not recognised' )
    CUR, TS, JS = ( dotted( m[k] ) for k in ( '_cur', '_ts', '_js' ))
    head = [ nd for nd in cfg.nodes if nd.kind == 'for' and nd.stmt is lp ][0]
    # release of strict
    rel = [ nd for nd in cfg.nodes if nd.kind == 'stmt' and pmatch( nd.stmt, 'self._strict = False' ) and any( a is lp for a in src.ancestors( nd.stmt )) ]
    if not rel:
        res.bad( src, lp, 'strict release', 'strict must be released once a file shows increasing timestamps (else files holding equal first timestamps are skipped)' )
    for r in rel:
        guards = [ a for a in src.ancestors( r.stmt ) if isinstance( a, ast.If ) and any( a is x for x in ast.walk( lp )) ]
        conj = []
        for g in guards:
            conj += g.test.values if isinstance( g.test, ast.BoolOp ) and isinstance( g.test.op, ast.And ) else [ g.test ]
        has_ts = any( ts_relation( c, TS ) == '>' for c in conj )
        if has_ts:
            res.ok( src, r.stmt, 'strict released only when ts > last accepted timestamp (strictly); "a record of this file was seen before" is decided by H-STRICT' )
        else:
            res.bad( src, r.stmt, 'guards of strict release: %s' % norm_text( ' and '.join( txt( c ) for c in conj )),
                     'strict may be released only when the timestamp increased strictly (ts > last accepted); otherwise a file holding one timestamp only is opened again and its records replayed twice' )
    # ---- strict is released only by a record that also advances self._ts: a record that is skipped afterwards (corrupt payload, a note)
    #      would leave _ts behind while the next, now non-strict, open( after, target=_ts ) selects this same file again - its records
    #      would be delivered again and again
    for r in rel:
        adv = [ nd for nd in cfg.nodes if nd.kind == 'stmt' and pmatch( nd.stmt, 'self._ts = %s' % TS ) is not None ]
        nxt = [ p_ for p_, l_ in cfg.pred[head] if l_ in ( 'back', 'continue' ) ]
        esc = [ b_ for b_ in nxt if b_ in cfg.reachable( r, avoid=set( adv ), edge_ok=lambda x_, y_, l_: l_ != 'exc' and y_ is not head ) ]
        if adv and not esc:
            res.ok( src, r.stmt, 'the record that releases strict also advances self._ts before the next record is read' )
        else:
            res.bad( src, r.stmt, 'strict released by a record that may be skipped without advancing self._ts',
                     'a record with a later timestamp but an unusable payload (corrupt JSON, a note) releases strict although _ts stays at the file\'s first record: the next open is non-strict with that target, selects the same file, and its first record is delivered again - endlessly' )
    # ---- a line no record could be parsed from arrives as ( None, None ): it is skipped before its timestamp is compared, stored or queued
    skip = [ nd for nd in cfg.nodes if nd.kind == 'test' and isinstance( nd.stmt, ast.If ) and pmatch( nd.expr, '%s is None' % TS ) is not None
             and any( a_ is lp for a_ in src.ancestors( nd.stmt )) and nd.stmt.body and isinstance( nd.stmt.body[-1], ast.Continue ) ]
    uses = [ nd for nd in cfg.nodes if nd.kind in ( 'stmt', 'test' ) and nd.stmt is not None and any( a_ is lp for a_ in src.ancestors( nd.stmt ))
             and not any( nd is k_ for k_ in skip ) and not ( skip and any( nd.stmt is x_ for b_ in skip[0].stmt.body for x_ in ast.walk( b_ )))
             and any(( isinstance( c_, ast.Compare ) and TS in [ dotted( c_.left ) ] + [ dotted( r_ ) for r_ in c_.comparators ] and not pmatch( c_, '%s is None' % TS ) and not pmatch( c_, '%s is not None' % TS ))
                     or ( isinstance( c_, ast.Attribute ) and dotted( c_.value ) == TS )
                     or ( isinstance( c_, ast.Assign ) and dotted( c_.value ) == TS )
                     for c_ in ( ast.walk( nd.expr ) if nd.kind == 'test' and getattr( nd, 'expr', None ) is not None else ast.walk( nd.stmt ) if nd.kind == 'stmt' else () )) ]
    if not skip:
        res.bad( src, lp, 'no `if %s is None: ... continue` in the record loop' % TS, 'a line without a parsable record is reported as ( None, None ): compared or stored like a timestamp it fails the whole replay ( TypeError ) or corrupts the position' )
    else:
        late_ = [ u_ for u_ in uses if not cfg.must_pass( head, u_, skip, correlated=False ) ]
        if late_:
            res.bad( src, late_[0].stmt, 'the timestamp of the loop is used before the ( None, None ) report is skipped', 'a line without a parsable record reaches a comparison / store of its ( absent ) timestamp' )
        else:
            res.ok( src, skip[0].stmt, 'a ( None, None ) report is skipped before the %d uses of the record timestamp' % len( uses ))
    # ---- position: EVERY record read ( timestamp and payload text present ) passes the in-order test that advances self._ts before the
    # iteration ends - also the records that are then skipped ( a note, corrupt JSON, invalid register data ).  A file that holds only such
    # records otherwise never moves the position, and the strict open selects it again: load() does not return
    lh0 = cfg.node_of( lp )
    ts_stores = [ nd for nd in cfg.nodes if nd.kind == 'stmt' and pmatch( nd.stmt, 'self._ts = %s' % TS ) is not None ]
    adv_tests = [ nd for nd in cfg.nodes if nd.kind == 'test' and isinstance( nd.stmt, ast.If ) and any( st_.stmt is x_ for st_ in ts_stores for b_ in nd.stmt.body for x_ in ast.walk( b_ )) ]
    streaming = [ nd for nd in cfg.nodes if nd.kind == 'stmt' and pmatch( nd.stmt, 'self.state = self.STREAMING' ) is not None and any( a_ is lp for a_ in src.ancestors( nd.stmt )) ]
    if not ts_stores or not adv_tests or not streaming:
        raise AnalysisError( 'loader.load: position store ( self._ts = ts ) / its guard / the STREAMING transition not found' )
    # the guard that holds the store DIRECTLY in its body, and is nothing but the in-order test ( itself, or a local computed from it )
    outer = []
    for t_ in adv_tests:
        if not any( st_.stmt in t_.stmt.body for st_ in ts_stores ):
            continue
        e_ = t_.stmt.test
        if isinstance( e_, ast.Name ):
            ds_ = [ a_.value for a_ in ast.walk( lp ) if isinstance( a_, ast.Assign ) and any( isinstance( x_, ast.Name ) and x_.id == e_.id for x_ in a_.targets ) ]
            e_ = ds_[0] if len( ds_ ) == 1 else e_
        if ts_relation( e_, TS ) == '>=':
            outer.append( t_ )
    normal_ = ( 'next', 'true', 'false', 'back', 'break', 'continue', 'loop-exit' )		# a raising record ends the replay (FAILED): not a skipped record
    if outer and all( lh0 not in cfg.reachable( s0, avoid=outer, labels=normal_ ) for s0 in streaming ):
        res.ok( src, outer[0].stmt, 'every record read passes the in-order test whose body advances the position, whatever becomes of its payload' )
    else:
        res.bad( src, ts_stores[0].stmt, 'loader.load advances its position ( self._ts ) only for accepted records',
                 'a note or a record with corrupt data is skipped ( continue ) without moving the position: a later file that holds only such records is selected by every following open - load() spins and never returns ( or, with the strict flag released there, re-delivers records )' )
    # ---- acceptance: monotone timestamps; event + future appended together; _ts updated
    rets = [ s_ for s_ in ld.body if isinstance( s_, ast.Return ) and isinstance( s_.value, ast.Tuple ) and len( s_.value.elts ) == 2 ]
    if not rets or not isinstance( rets[-1].value.elts[1], ast.Name ):
        raise AnalysisError( 'loader.load: final `return <time>, <events>` not found' )
    EVENTS = rets[-1].value.elts[1].id
    ev = [ nd for nd in cfg.nodes if nd.kind == 'stmt' and pmatch( nd.stmt, '%s.append( _e )' % EVENTS ) ]
    fu = [ nd for nd in cfg.nodes if nd.kind == 'stmt' and pmatch( nd.stmt, 'self.future.append( _e )' ) ]
    if len( ev ) != 1 or len( fu ) != 1:
        res.bad( src, lp, 'queueing', 'each accepted record is appended exactly once to the returned events and once to the future queue' )
    else:
        pe = src.parent.get( ev[0].stmt ); pf = src.parent.get( fu[0].stmt )
        eb = [ a for a in src.ancestors( ev[0].stmt ) if isinstance( a, ast.If ) ][0]
        fb = [ a for a in src.ancestors( fu[0].stmt ) if isinstance( a, ast.If ) ][0]
        if eb is fb and ev[0].stmt in eb.body and fu[0].stmt in eb.body:
            res.ok( src, eb, 'the event and the future entry are queued together (one each per accepted record)' )
        else:
            res.bad( src, fu[0].stmt, 'queueing', 'an accepted record must produce exactly one event and one future entry, under the same condition' )
        # the acceptance test - directly, or through a local boolean computed from it earlier in the same iteration ( before self._ts is
        # advanced to the record's own timestamp, else the comparison would be trivially true )
        test = eb.test
        via = None
        if isinstance( test, ast.Name ):
            defs_ = [ nd for nd in cfg.nodes if nd.kind == 'stmt' and isinstance( nd.stmt, ast.Assign ) and any( isinstance( t_, ast.Name ) and t_.id == test.id for t_ in nd.stmt.targets ) ]
            if len( defs_ ) == 1:
                via = defs_[0]; test = defs_[0].stmt.value
        stores_ts = [ nd for nd in cfg.nodes if nd.kind == 'stmt' and pmatch( nd.stmt, 'self._ts = %s' % TS ) is not None ]
        early = via is not None and any( via in cfg.reachable( st_, edge_ok=lambda a_, b_, l_: l_ not in ( 'back', )) and st_ is not via for st_ in stores_ts if cfg.dominates( st_, via ))
        if ts_relation( test, TS ) == '>=' and not early:
            res.ok( src, eb, 'accepted iff ts >= last position (equal timestamps are all delivered; earlier ones are dropped)' )
        else:
            res.bad( src, eb, eb.test, 'a record is accepted iff its timestamp is not before the last accepted one (>=: records with equal timestamps must all be delivered)' )
        # every accepted record has moved the position: self._ts = ts either in the accepting block, or on every path from the top of the
        # iteration to the acceptance
        lh_ = cfg.node_of( lp )
        firsts_ = [ m_ for m_, l_ in cfg.succ[lh_] if l_ == 'true' ]
        if any( pmatch( s, 'self._ts = %s' % TS ) for s in eb.body ) or ( stores_ts and firsts_ and all( cfg.must_pass( firsts_[0], e_, stores_ts, correlated=True ) for e_ in ev )):
            res.ok( src, eb, 'the position self._ts has been advanced to the timestamp of every accepted record' )
        else:
            res.bad( src, eb, 'self._ts update', 'the last accepted timestamp must follow each accepted record (file switching and ordering depend on it)' )
        fm = pmatch( fu[0].stmt, 'self.future.append( ( %s, _regs ) )' % TS )
        em = pmatch( ev[0].stmt, "%s.append( { 'timestamp': %s, 'command': 'register', 'values': _d } )" % ( EVENTS, TS ))
        if fm is not None and em is not None:
            res.ok( src, ev[0].stmt, 'event carries the record timestamp and the decoded values; the future entry carries ( ts, regs )' )
        else:
            res.bad( src, ev[0].stmt, 'event / future content', 'the event must carry the logged timestamp and values, the future entry ( ts, regs )' )
    # ---- drain: only entries whose time has come (<= cur), oldest first, values updated, until = ts; upcoming respected
    dr = [ w for w in ast.walk( lp ) if isinstance( w, ast.While ) and 'future' in attrs_in( w.test ) ]
    if not dr:
        res.bad( src, lp, 'drain loop', 'queued records must be applied to the register map when their time has come' )
    else:
        w = dr[0]
        # by value: nothing queued -> stop; the oldest entry's time before / at the advancing time -> apply; after it -> stop
        def drains( fut, cur ):
            v_ = try_fold( w.test, { 'self.future': fut, CUR: cur }, default='?' )
            return None if v_ == '?' else bool( v_ )
        if [ drains( [], 5 ), drains( [ ( 4, 'r' ) ], 5 ), drains( [ ( 5, 'r' ) ], 5 ), drains( [ ( 6, 'r' ) ], 5 ), drains( [ ( 4, 'r' ), ( 9, 'r' ) ], 5 ) ] \
           == [ False, True, True, False, True ]:
            res.ok( src, w, 'a queued record is applied only when its timestamp <= the advancing historical time (never early; look-ahead only queues)' )
        else:
            res.bad( src, w, w.test, 'queued records may be applied to the register map only once the advancing historical time has reached them (<= cur, without look-ahead)' )
        D = Matcher()
        pop = D.find( w, '( _t, _r ) = self.future.popleft()' )
        if pop is not None and pfind( w, 'self.values.update( %s )' % D.name( '_r' )) and pfind( w, 'self.until = %s' % D.name( '_t' )):
            res.ok( src, w, 'oldest entry popped (popleft), applied to self.values, self.until = its timestamp' )
        else:
            res.bad( src, w, 'drain body', 'the oldest queued record must be popped (popleft), applied to self.values and recorded in self.until' )
        up = [ s for s in w.body if isinstance( s, ast.If ) and 'upcoming' in names_in( s.test ) ]
        def held( upc, ts ):
            v_ = try_fold( up[0].test, { 'upcoming': upc, 'self.future': [ ( ts, 'r' ), ( 99, 'r' ) ] }, default='?' )
            return None if v_ == '?' else bool( v_ )
        if up and [ held( None, 5 ), held( 6, 5 ), held( 5, 5 ), held( 4, 5 ) ] == [ False, False, True, True ] and any( isinstance( b, ast.Return ) for b in up[0].body ) \
           and w.body.index( up[0] ) < min( [ w.body.index( s ) for s in w.body if any( isinstance( c, ast.Call ) and isinstance( c.func, ast.Attribute ) and c.func.attr in ( 'popleft', 'pop' ) for c in ast.walk( s )) ] or [ len( w.body ) ] ):
            res.ok( src, up[0], 'no record at or beyond `upcoming` is applied' )
        else:
            res.bad( src, w, 'upcoming', 'records at or beyond the `upcoming` timestamp must stay queued' )
    # ---- a record pulled from the generator by the `for` is never dropped: every return from inside the record loop has first passed the
    #      point where the record is classified (the `js is None` test) - a return taken before that loses the record the loop header
    #      has already consumed
    jsn = [ nd for nd in cfg.nodes if nd.kind == 'test' and pmatch( nd.expr, '%s is None' % JS ) is not None and nd.stmt in lp.body ]
    rets_in = [ nd for nd in cfg.nodes if nd.kind == 'stmt' and isinstance( nd.stmt, ast.Return ) and any( a is lp for a in src.ancestors( nd.stmt )) ]
    if jsn:
        first = [ m_ for m_, l_ in cfg.succ[head] if l_ == 'true' ]
        lost = [ r for r in rets_in if first and not cfg.must_pass( first[0], r, jsn, correlated=False ) ]
        if lost:
            res.bad( src, lost[0].stmt, 'return inside the record loop before the pulled record is examined: %s' % norm_text( lost[0].stmt ),
                     'the `for` header has already taken the next record from the file generator; returning here discards it - with load( limit=N ) one record is lost at every limit-triggered return' )
        elif rets_in:
            res.ok( src, rets_in[0].stmt, 'every return inside the record loop comes after the pulled record was classified and queued (%d returns)' % len( rets_in ))
    # ---- a record whose payload cannot be used is skipped, whatever the failure: both conversions of the payload ( json.loads of the text,
    #      int() of register numbers / values ) sit in a try whose handler catches Exception and turns the record into a note - a narrower
    #      handler lets e.g. the TypeError of int( None ) reach the outer catch-all, which FAILS the whole replay
    convs = [ c for c in ast.walk( lp ) if ( is_call_to( c, 'json.loads' ) or ( is_call_to( c, 'dict' ) and any( is_call_to( x, 'int' ) for x in ast.walk( c )))) ]
    for c in convs:
        tr_ = [ a for a in src.ancestors( c ) if isinstance( a, ast.Try ) and any( c is x for b in a.body for x in ast.walk( b )) and any( a is y for y in ast.walk( lp )) ]
        what = 'json.loads of the record text' if is_call_to( c, 'json.loads' ) else 'conversion of the register map'
        if tr_ and any(( h.type is None or dotted( h.type ) in ( 'Exception', 'BaseException' )) and not any( isinstance( r_, ast.Raise ) and r_.exc is None for r_ in ast.walk( h )) for h in tr_[0].handlers ):
            res.ok( src, tr_[0], '%s: any failure turns the record into a note (catch-all handler)' % what )
        else:
            hs_ = [ txt( h.type ) if h.type is not None else 'bare' for h in tr_[0].handlers ] if tr_ else []
            res.bad( src, tr_[0] if tr_ else c, '%s is protected only against %s' % ( what, hs_ or 'nothing' ),
                     'a corrupt record must be skipped without losing the records around it: an exception type outside this handler (e.g. TypeError from int( None ) for {"40001": null}) reaches the outer catch-all and the loader goes FAILED - every later record is lost' )
    # ---- a not-yet-due announcement switches to AWAITING and leaves the loop without consuming anything
    aw = [ s for s in lp.body if isinstance( s, ast.If ) and pmatch( s.test, '%s is None' % JS ) ]
    if aw and any( isinstance( b, ast.Break ) for b in aw[0].body ) and any( isinstance( b, ast.Assign ) and 'AWAITING' in attrs_in( b.value ) for b in aw[0].body ):
        res.ok( src, aw[0], '( ts, None ) => AWAITING, leave the record loop' )
    else:
        res.bad( src, lp, '( ts, None ) handling', 'a "not yet due" announcement must switch to AWAITING and stop reading' )
    # ---- end of file => SWITCHING
    sw = [ s for s in ast.walk( ld ) if isinstance( s, ast.If ) and ( pmatch( s.test, 'self.state in ( self.STREAMING, )' ) or pmatch( s.test, 'self.state == self.STREAMING' ))
           and any( isinstance( b, ast.Assign ) and 'SWITCHING' in attrs_in( b.value ) for b in s.body ) ]
    if sw and sw[0].lineno > lp.end_lineno:
        res.ok( src, sw[0], 'generator exhausted while STREAMING => SWITCHING (open the next file)' )
    else:
        res.bad( src, ld, 'end of file', 'when the current file ends while STREAMING the loader must switch to the next file' )
    # ---- HistoryExhausted => EXHAUSTED with a generator of advancing 'null' records
    hx = [ h for t in ast.walk( ld ) if isinstance( t, ast.Try ) for h in t.handlers if dotted( h.type ) == 'HistoryExhausted' ]
    if hx and any( isinstance( b, ast.Assign ) and 'EXHAUSTED' in attrs_in( b.value ) for b in hx[0].body ) and any( pmatch( b, 'self._i = _g' ) for b in hx[0].body ):
        res.ok( src, hx[0], 'no more files => EXHAUSTED; the look-ahead queue keeps draining against the advancing clock' )
    else:
        res.bad( src, ld, 'HistoryExhausted', 'running out of files must switch to EXHAUSTED and keep draining the queue with the advancing clock' )
    # ... and that is the ONLY way to COMPLETE: every store of COMPLETE into self.state sits under a test that the queue is empty - records
    # at or beyond `upcoming` wait in self.future also WITHOUT a look-ahead, and a loader declared complete never applies them
    for a_ in [ a for a in ast.walk( ld ) if isinstance( a, ast.Assign ) and any( dotted( t ) == 'self.state' for t in a.targets ) and 'COMPLETE' in attrs_in( a.value ) ]:
        tests = [ g.test for g in src.ancestors( a_ ) if isinstance( g, ast.If ) and any( g is x for x in ast.walk( ld )) and any( a_ is y for b_ in g.body for y in ast.walk( b_ )) ]
        empty = False
        for t_ in tests:
            v_ = [ try_fold( t_, { 'self.future': f_, 'len': len }, default='?' ) for f_ in ( [], [ ( 1, 'r' ) ] ) ]
            if v_[0] not in ( '?', False, 0, None ) and v_[1] in ( False, 0, None ):
                empty = True
        if empty:
            res.ok( src, a_, 'COMPLETE is stored only where the queue is known to be empty' )
        else:
            res.bad( src, a_, 'loader.load declares the replay COMPLETE without looking at the queue ( %s )' % ( ' and '.join( norm_text( t_ ) for t_ in tests ) or 'unguarded' ),
                     'records queued for later ( at or beyond `upcoming`, or within the look-ahead ) are still in self.future: the loader evaluates False, later load() calls return at once, the records are never applied - the register map ends wrong' )
    cm = [ s for s in ast.walk( lp ) if isinstance( s, ast.If ) and pmatch( s.test, 'self.state == self.EXHAUSTED' ) ]
    if cm and any( isinstance( i, ast.If ) and pmatch( i.test, 'not self.future' ) and any( 'COMPLETE' in attrs_in( b ) for b in i.body ) for i in cm[0].body ) \
       and any( isinstance( b, ast.Break ) for b in cm[0].body ):
        res.ok( src, cm[0], 'COMPLETE only when EXHAUSTED and the queue is empty' )
    else:
        res.bad( src, lp, 'completion', 'replay completes only when the files are exhausted AND every queued record has been applied' )
    return res


# ---------------------------------------------------------------------------------------- H-STRICT (typestate over loader.load)

class _U:
    def __repr__( self ):
        return '?'
U = _U()		# unknown


def _k3( e, env ):
    """Kleene evaluation: -> python value or U.  env: dotted name -> value"""
    if isinstance( e, ast.Constant ):
        return e.value
    d = dotted( e )
    if d is not None:
        return env.get( d, U )
    if isinstance( e, ( ast.Tuple, ast.List )):
        vs = [ _k3( x, env ) for x in e.elts ]
        return U if any( v is U for v in vs ) else tuple( vs )
    if isinstance( e, ast.UnaryOp ) and isinstance( e.op, ast.Not ):
        v = _k3( e.operand, env )
        return U if v is U else ( not v )
    if isinstance( e, ast.BoolOp ):
        vs = [ _k3( x, env ) for x in e.values ]
        if isinstance( e.op, ast.And ):
            if any( v is not U and not v for v in vs ):
                return False
            return U if any( v is U for v in vs ) else vs[-1]
        if any( v is not U and v for v in vs ):
            return True
        return U if any( v is U for v in vs ) else vs[-1]
    if isinstance( e, ast.Compare ) and len( e.ops ) == 1:
        a, b = _k3( e.left, env ), _k3( e.comparators[0], env )
        op = e.ops[0]
        if isinstance( op, ( ast.In, ast.NotIn )) and a is not U and isinstance( e.comparators[0], ( ast.Tuple, ast.List )):
            vs = [ _k3( x, env ) for x in e.comparators[0].elts ]
            if a in [ v for v in vs if v is not U ]:
                return isinstance( op, ast.In )
            if any( v is U for v in vs ):
                return U
            return isinstance( op, ast.NotIn )
        if a is U or b is U:
            return U
        try:
            return { ast.Eq: lambda: a == b, ast.NotEq: lambda: a != b, ast.Lt: lambda: a < b, ast.LtE: lambda: a <= b, ast.Gt: lambda: a > b,
                     ast.GtE: lambda: a >= b, ast.Is: lambda: a is b, ast.IsNot: lambda: a is not b, ast.In: lambda: a in b, ast.NotIn: lambda: a not in b }[type( op )]()
        except Exception:
            return U
    return U


@rule( 'H-STRICT', props=( 'C18', ), floor=3 )
def h_strict( ctx ):
    """typestate over loader.load (re-entered across calls): the strict flag set by each open() may be released only after a record of the
    newly opened file has been processed in an EARLIER iteration.  Abstract state = ( loader state, constant-valued loader flags, ghost
    'a record of the open file was already processed' ); sets of such tuples are propagated over the CFG, branches pruned by three-valued
    evaluation of their tests, and the exit states are fed back to the entry until nothing changes."""
    res = Result( 'H-STRICT' )
    src = ctx.src( HFILES )
    cd = src.get( 'loader' )
    ld = src.get( 'loader.load' )
    consts = {}
    for s in cd.body:
        if isinstance( s, ast.Assign ) and isinstance( s.targets[0], ast.Name ) and isinstance( try_fold( s.value ), int ):
            consts['self.' + s.targets[0].id] = try_fold( s.value )
    names = { v: k[5:] for k, v in consts.items() if k[5:] in ( 'INITIAL', 'SWITCHING', 'STREAMING', 'EXHAUSTED', 'AWAITING', 'COMPLETE', 'FAILED' ) }
    if len( names ) != 7:
        raise AnalysisError( 'loader state constants not found' )
    # flags: self._x attributes of loader that are only ever assigned constants
    stores = {}
    for fn in cd.body:
        if isinstance( fn, ast.FunctionDef ):
            for s in ast.walk( fn ):
                if isinstance( s, ast.Assign ):
                    for t in s.targets:
                        for tt in ( t.elts if isinstance( t, ast.Tuple ) else [ t ] ):
                            d = dotted( tt )
                            if d and d.startswith( 'self.' ) and d.count( '.' ) == 1:
                                stores.setdefault( d, [] ).append(( fn.name, s.value if not isinstance( t, ast.Tuple ) else None ))
                elif isinstance( s, ( ast.AugAssign, ast.For, ast.With )):
                    tgt = s.target if not isinstance( s, ast.With ) else None
                    for tt in ast.walk( tgt ) if tgt is not None else ():
                        d = dotted( tt )
                        if d and d.startswith( 'self.' ) and d.count( '.' ) == 1:
                            stores.setdefault( d, [] ).append(( fn.name, None ))
    flags = sorted( d for d, vs in stores.items() if d not in ( 'self.state', 'self._state' )
                    and all( isinstance( v, ast.Constant ) and isinstance( v.value, ( bool, int, type( None ))) for _, v in vs )
                    and any( f == 'load' for f, _ in vs ))
    init = { d: [ v.value for f, v in stores[d] if f == '__init__' ] for d in flags }
    flags = [ d for d in flags if len( init[d] ) == 1 ]
    if 'self._strict' not in flags:
        raise AnalysisError( 'loader: the strict flag (constant-valued, initialised in __init__, stored in load) not found' )
    st0 = [ v for f, v in stores.get( 'self._state', [] ) if f == '__init__' ]
    if len( st0 ) != 1 or dotted( st0[0] ) != 'self.INITIAL':
        raise AnalysisError( 'loader.__init__: initial state not recognised' )
    nz = src.get( 'loader.__nonzero__' )
    nzr = [ s for s in nz.body if isinstance( s, ast.Return ) ][0].value
    # assumption (stated in DESIGN): the statements of load's own exception handlers (state store, logging, creation of the clock
    # generator) do not raise; only their explicit `raise` leaves load exceptionally
    from .cfg import default_may_raise
    in_handler = { id( x ) for t in ast.walk( ld ) if isinstance( t, ast.Try ) for h in t.handlers for b in h.body for x in ast.walk( b ) }
    def may_raise( node ):
        if node is not None and id( node ) in in_handler:
            return isinstance( node, ast.Raise )
        return default_may_raise( node )
    cfg = CFG( ld, may_raise=may_raise )
    loops = [ s for s in ast.walk( ld ) if isinstance( s, ast.For ) and pmatch( s.iter, 'self._i' ) ]
    if len( loops ) != 1:
        raise AnalysisError( 'loader.load: record loop over self._i not found' )
    lp = loops[0]
    m = pmatch( lp.target, '( ( self._f, self._n, _cur ), ( _ts, _js ) )' )
    if m is None:
        raise AnalysisError( 'loader.load: record loop target not recognised' )
    JS = dotted( m['_js'] )
    # local names of load that only ever hold constants (loop-control booleans) are tracked like the flags
    lstores = {}
    for s_ in walk_no_nested( ld ):
        if isinstance( s_, ast.Assign ):
            for t in s_.targets:
                for tt in ast.walk( t ):
                    if isinstance( tt, ast.Name ):
                        lstores.setdefault( tt.id, [] ).append( s_.value if tt is t else None )
        elif isinstance( s_, ( ast.For, ast.AugAssign )):
            for tt in ast.walk( s_.target ):
                if isinstance( tt, ast.Name ):
                    lstores.setdefault( tt.id, [] ).append( None )
    params = { a.arg for a in ld.args.args }
    locs = sorted( n for n, vs in lstores.items() if n not in params and all( isinstance( v, ast.Constant ) and isinstance( v.value, bool ) for v in vs ))
    for n in locs:
        flags.append( n ); init[n] = [ U ]
    head = [ nd for nd in cfg.nodes if nd.kind == 'for' and nd.stmt is lp ][0]
    jsnone = [ nd for nd in cfg.nodes if nd.kind == 'test' and pmatch( nd.expr, '%s is None' % JS ) and nd.stmt in lp.body ]
    if len( jsnone ) != 1:
        raise AnalysisError( 'loader.load: the `js is None` (not yet due) test not found' )
    jsnone = jsnone[0]
    # fact = ( state, flags..., ghost, cur_real )
    NF = len( flags )
    def env_of( f ):
        e = dict( consts )
        e['self.state'] = f[0]; e['self._state'] = f[0]
        for i, d in enumerate( flags ):
            e[d] = f[1+i]
        return e
    def with_( f, **kw ):
        l = list( f )
        for k, v in kw.items():
            if k == 'state': l[0] = v
            elif k == 'ghost': l[1+NF] = v
            elif k == 'real': l[2+NF] = v
            else: l[1 + flags.index( k )] = v
        return tuple( l )

    def eff( n, f ):
        """effect of executing node n (normal completion) on fact f -> fact"""
        s = n.stmt
        if n.kind == 'stmt' and isinstance( s, ast.Assign ):
            for t in s.targets:
                d = dotted( t )
                if d in ( 'self.state', 'self._state' ):
                    v = s.value.elts[0] if isinstance( s.value, ast.Tuple ) else s.value
                    val = consts.get( dotted( v ) or '', U )
                    if val is U:
                        raise AnalysisError( 'loader.load: non-constant store to the state: %s' % txt( s ))
                    f = with_( f, state=val )
                elif d in flags:
                    f = with_( f, **{ d: s.value.value } )
                elif d == 'self._i':
                    if is_call_to( s.value, 'self.open' ):
                        f = with_( f, ghost=0, real=0 )
                    else:
                        f = with_( f, ghost=1, real=0 )		# not a file (the EXHAUSTED clock generator)
        return f

    def transfer( n, label, facts ):
        out = set()
        for f in facts:
            if label == 'exc':
                out.add( f ); continue			# the node's own effect did not complete
            if n.kind == 'test':
                e = n.expr
                env = env_of( f )
                if isinstance( e, ast.Name ) and e.id == 'self':
                    v = _k3( nzr, env )
                elif isinstance( e, ast.UnaryOp ) and isinstance( e.op, ast.Not ) and isinstance( e.operand, ast.Name ) and e.operand.id == 'self':
                    v = _k3( nzr, env ); v = U if v is U else ( not v )
                else:
                    v = _k3( e, env )
                if v is not U and bool( v ) != ( label == 'true' ) and label in ( 'true', 'false' ):
                    continue
                g = f
                if n is jsnone and label == 'false':
                    g = with_( g, real=1 )
                out.add( g ); continue
            if n is head:
                # a new iteration (or leaving the loop): the record handled by the previous iteration now counts as seen
                g = with_( f, ghost=1 if ( f[1+NF] or f[2+NF] ) else 0, real=0 )
                out.add( g ); continue
            out.add( eff( n, f ))
        return frozenset( out ) if out else None

    def join( a, b ):
        return a | b
    entry = frozenset( [ tuple( [ consts['self.INITIAL'] ] + [ init[d][0] for d in flags ] + [ 0, 0 ] ) ] )
    rounds = 0
    while True:
        rounds += 1
        state = cfg.forward( entry, transfer, join )
        outs = set()
        for ex in ( cfg.exit, cfg.raise_exit ):
            for f in state.get( ex, () ):
                outs.add( with_( f, ghost=1 if ( f[1+NF] or f[2+NF] ) else 0, real=0 ))
        new = entry | frozenset( outs )
        if new == entry or rounds > 20:
            break
        entry = new
    total = sum( len( v ) for v in state.values())
    # ---- obligation: no release with ghost == 0
    rel = [ nd for nd in cfg.nodes if nd.kind == 'stmt' and pmatch( nd.stmt, 'self._strict = False' ) ]
    if not rel:
        res.bad( src, ld, 'strict release', 'strict is never released: files whose first timestamp equals the last one replayed are skipped' )
    for r in rel:
        bad = sorted( { names.get( f[0], f[0] ) for f in state.get( r, () ) if not f[1+NF] } )
        if bad:
            res.bad( src, r.stmt, 'strict released on the first record of a newly opened file (loader state %s)' % '/'.join( bad ),
                     'no record of this file had been processed before: if the file holds a single record (or one timestamp only) the next open() no longer excludes it, the same file is opened again and its records are delivered twice' )
        else:
            res.ok( src, r.stmt, 'strict is released only when an earlier record of the open file was processed (%d abstract states reach this store, %d in total, %d re-entry rounds)' % (
                len( state.get( r, () )), total, rounds ))
    # ---- every open() is followed by strict := True before any record is read
    opens = [ nd for nd in cfg.nodes if nd.kind == 'stmt' and isinstance( nd.stmt, ast.Assign ) and is_call_to( nd.stmt.value, 'self.open' ) ]
    for o in opens:
        i = 1 + flags.index( 'self._strict' )
        loose = [ f for f in state.get( head, () ) if not f[1+NF] and not f[2+NF] and f[i] is not True ]
        if loose:
            res.bad( src, o.stmt, 'record loop entered after open() with strict unset', 'after every open() strict must be set before the first record is read' )
        else:
            res.ok( src, o.stmt, 'strict is set whenever the record loop starts on a newly opened file' )
    # ---- open() is reachable only in INITIAL / SWITCHING
    for o in opens:
        sts = sorted( { names.get( f[0], f[0] ) for f in state.get( o, () ) } )
        if set( sts ) <= { 'INITIAL', 'SWITCHING' } and sts:
            res.ok( src, o.stmt, 'open() reached only in states %s' % '/'.join( sts ))
        else:
            res.bad( src, o.stmt, 'open() reachable in states %s' % '/'.join( map( str, sts )), 'a new file may be opened only when INITIAL or SWITCHING; otherwise the open generator (and its pending record) is dropped' )
    return res


# ---------------------------------------------------------------------------------------- W-STRIPSET

_TOKENLIKE = __import__( 're' ).compile( r'^\W?[A-Za-z][A-Za-z0-9_]+$' )


def _possible_consts( src, fn, e ):
    """the constant values an expression may take: a constant, or a name that is the target of a for loop over a display of constants /
    assigned a constant"""
    v = try_fold( e )
    if v is not None:
        return [ v ]
    out = []
    if isinstance( e, ast.Name ) and fn is not None:
        for n in ast.walk( fn ):
            if isinstance( n, ( ast.For, ast.comprehension )) and isinstance( n.target, ast.Name ) and n.target.id == e.id:
                seq = try_fold( n.iter )
                if isinstance( seq, ( list, tuple, set )):
                    out.extend( seq )
            if isinstance( n, ast.Assign ) and any( isinstance( t, ast.Name ) and t.id == e.id for t in n.targets ):
                c = try_fold( n.value )
                if c is not None:
                    out.append( c )
    return out


@rule( 'W-STRIPSET', props=( 'C18', 'C17', 'C12' ), floor=3 )
def w_stripset( ctx ):
    """where the name of a file, a zone, a type or a path component decides what is selected, a suffix or prefix is removed as a suffix or
    prefix: no str.strip / lstrip / rstrip is called with a token ( '.gz', '.bz2', 'DINT' ... - directly or as a loop variable over such
    constants ): strip() removes a SET of characters, so `'blah.2.bz2'.rstrip( '.bz2' )` is `'blah'`, and a rotated file numbered 2, 12, 22
    is taken for a copy of another one.  Whitespace / single-character / digit sets are what strip() is for and are accepted."""
    res = Result( 'W-STRIPSET' )
    for rel in ( 'history/files.py', 'history/times.py', 'misc.py', 'server/enip/client.py', 'server/enip/device.py' ):
        src = ctx.src( rel )
        for c in ast.walk( src.tree ):
            if not ( isinstance( c, ast.Call ) and isinstance( c.func, ast.Attribute ) and c.func.attr in ( 'strip', 'lstrip', 'rstrip' )):
                continue
            if not c.args:
                res.ok( src, c, '%s() without a character set' % c.func.attr, nontrivial=False )
                continue
            fn = src.enclosing( c, ( ast.FunctionDef, ast.AsyncFunctionDef ))
            vals = _possible_consts( src, fn, c.args[0] )
            tokens = [ v for v in vals if isinstance( v, ( str, bytes )) and len( v ) > 1 and _TOKENLIKE.match( v if isinstance( v, str ) else v.decode( 'latin-1' )) ]
            if tokens:
                res.bad( src, c, '%s( %s ) with the token %r' % ( c.func.attr, norm_text( ast.unparse( c.args[0] ))[:30], tokens[0] ),
                         "strip() removes any run of the CHARACTERS of its argument, not the suffix / prefix: names that end in one of those characters lose more than the token ( 'x.2.bz2' -> 'x', 'x.12.bz2' -> 'x.1' ) and are taken for another name" )
            else:
                res.ok( src, c, '%s( %s ): a character set' % ( c.func.attr, norm_text( ast.unparse( c.args[0] ))[:30] ))
    return res
