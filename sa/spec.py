"""Hand-written specification tables: the independent oracle.  Written from the CIP / EtherNet-IP
tables (CIP Vol 1 Appendix C data types, Vol 2 encapsulation, Logix 1756-PM020), not derived from
cpppo code."""
import struct

# CIP elementary data types: name -> ( type code, little-endian struct format )
CIP_TYPES = {
    'BOOL':	( 0x00C1, 'B' ),	# 1 octet; cpppo deliberately uses 'B' (unsigned octet) and post-processes
    'SINT':	( 0x00C2, 'b' ),
    'INT':	( 0x00C3, '<h' ),
    'DINT':	( 0x00C4, '<i' ),
    'LINT':	( 0x00C5, '<q' ),
    'USINT':	( 0x00C6, 'B' ),
    'UINT':	( 0x00C7, '<H' ),
    'UDINT':	( 0x00C8, '<I' ),
    'ULINT':	( 0x00C9, '<Q' ),
    'REAL':	( 0x00CA, '<f' ),
    'LREAL':	( 0x00CB, '<d' ),
    'WORD':	( 0x00D2, '<H' ),
    'DWORD':	( 0x00D3, '<I' ),
}
CIP_COMPOSITE = {
    'STRING':	0x00D0,
    'SSTRING':	0x00DA,
    'STRUCT':	0x02A0,
}
NETWORK_TYPES = {
    'UINT_network': '>H', 'INT_network': '>h', 'UDINT_network': '>I', 'DINT_network': '>i', 'REAL_network': '>f',
}
# the 14 codes typed_data must support (+ STRUCT)
TYPED_DATA_SUPPORTED = ( 'BOOL', 'SINT', 'USINT', 'INT', 'UINT', 'DINT', 'UDINT', 'LINT', 'ULINT', 'REAL', 'LREAL',
                         'SSTRING', 'STRING', 'STRUCT' )


def fmt_canon( fmt ):
    """( byte order, code ) with single-byte formats normalised (order irrelevant for 1 byte)"""
    order = '<'
    code = fmt
    if fmt and fmt[0] in '<>=!@':
        order, code = fmt[0], fmt[1:]
    if order in '=@':
        order = '<'			# native on the platforms cpppo supports; flagged separately
    if order == '!':
        order = '>'
    if struct.calcsize( '<' + code ) == 1:
        order = '<'
    return order, code


def fmt_range( fmt ):
    """( lo, hi, kind ) of values struct.pack( fmt, v ) accepts; kind in 'int','float'"""
    order, code = fmt_canon( fmt )
    if code in 'fd':
        if code == 'f':
            m = ( 2 - 2 ** -23 ) * 2.0 ** 127
            return ( -m, m, 'float' )
        return ( float( '-inf' ), float( 'inf' ), 'float' )
    n = struct.calcsize( '<' + code ) * 8
    if code.isupper():
        return ( 0, 2 ** n - 1, 'int' )
    return ( -2 ** ( n - 1 ), 2 ** ( n - 1 ) - 1, 'int' )


def contains( outer, inner ):
    """value range of struct format `inner` is contained in that of `outer` (ints into floats: allowed, the
    store coerces with float(); floats into ints: not range-preserving)"""
    lo_o, hi_o, k_o = fmt_range( outer )
    lo_i, hi_i, k_i = fmt_range( inner )
    if k_o == 'int' and k_i == 'float':
        return False
    if k_o == 'float' and k_i == 'float':
        return lo_o <= lo_i and hi_i <= hi_o
    return lo_o <= lo_i and hi_i <= hi_o


# EtherNet/IP encapsulation header (Vol 2, 2-3.1): 24 bytes
ENCAP_HEADER = (
    ( 'command',		'<H' ),
    ( 'length',			'<H' ),
    ( 'session_handle',		'<I' ),
    ( 'status',			'<I' ),
    ( 'sender_context',		8 ),		# 8 opaque octets
    ( 'options',		'<I' ),
)
ENCAP_COMMANDS = {
    'legacy':		0x0001,
    'list_services':	0x0004,
    'list_identity':	0x0063,
    'list_interfaces':	0x0064,
    'register':		0x0065,
    'unregister':	0x0066,
    'send_data':	0x006F,		# SendRRData
    'send_unit':	0x0070,		# SendUnitData
}
CPF_ITEMS = {
    'null_address':		0x0000,
    'communications_service':	0x0100,
    'identity_object':		0x000C,
    'connection_ID':		0x00A1,
    'connection_data':		0x00B1,
    'unconnected_send':		0x00B2,
    'legacy_CPF_0x0001':	0x0001,
}

# Logical segment encodings (Vol 1 Appendix C-1.4): base opcode for the 8-bit form; +1 = 16-bit (pad byte, UINT);
# +2 = 32-bit (pad byte, UDINT).  32-bit form is defined for instance/element(member)/connection point in practice.
LOGICAL_SEGMENTS = {
    'class':		0x20,
    'instance':		0x24,
    'element':		0x28,
    'connection':	0x2C,
    'attribute':	0x30,
}
SYMBOLIC_SEGMENT = 0x91			# ANSI extended symbolic: 0x91, len, chars, pad if odd
# Port segment: bits 0-3 port (0x0F => extended 16-bit port follows), bit 4 => link address size byte follows

# CIP services (Logix 1756-PM020 and CIP common services)
SERVICES = {
    'Get Attributes All':		0x01,
    'Set Attributes All':		0x02,
    'Get Attribute List':		0x03,
    'Set Attribute List':		0x04,
    'Multiple Service Packet':		0x0A,
    'Get Attribute Single':		0x0E,
    'Set Attribute Single':		0x10,
    'Read Tag':				0x4C,
    'Write Tag':			0x4D,
    'Forward Close':			0x4E,
    'Read Tag Fragmented':		0x52,
    'Write Tag Fragmented':		0x53,
    'Unconnected Send':			0x52,		# on the Connection Manager
    'Forward Open':			0x54,
    'Large Forward Open':		0x5B,
    'Read Modify Write Tag':		0x4E,
}
REPLY_BIT = 0x80

# Network Connection Parameters bit fields (Vol 1 3-5.5.1.1).  small = 16 bit, large = 32 bit.
NCP_FIELDS_SMALL = {		# name: ( shift, mask )
    'size':		( 0, 0x01FF ),
    'variable':		( 9, 0x1 ),
    'priority':		( 10, 0x3 ),
    'type':		( 13, 0x3 ),
    'redundant':	( 15, 0x1 ),
}
NCP_FIELDS_LARGE = {
    'size':		( 0, 0xFFFF ),
    'variable':		( 25, 0x1 ),
    'priority':		( 26, 0x3 ),
    'type':		( 29, 0x3 ),
    'redundant':	( 31, 0x1 ),
}


# ---------------------------------------------------------------------------------------- message layouts (for L-SPEC)
# Written from the CIP specification (Vol 1 ch. 3 Connection Manager services, Appendix C; Vol 2 encapsulation) and the Logix 5000 Data
# Access manual (1756-PM020) -- NOT derived from cpppo.  Notation:
#   ( fmt, name )      fixed field, little-endian struct format unless prefixed '>' ; name = the field's meaning (compared with the
#                      last path components of where the parser stores it / the producer takes it from)
#   ( 'pad', n )       n reserved / pad octets
#   ( 'text_fixed', name, n )   text in a fixed field of n octets, NUL padded ( producer side only )
#   ( kind, name )     variable part: 'EPATH', 'EPATH_padded', 'route_path', 'status', 'data' (typed or raw payload), 'CPF', 'SSTRING'
#   ( 'repeat', [ ... ] )   counted repetition of the inner layout
#   ( 'opt', [ ... ] ) optional tail
def _svc(): return ( 'B', 'service' )
def _hdr_reply(): return [ _svc(), ( 'pad', 1 ), ( 'status', 'status' ) ]

_FO_COMMON_HEAD = [ _svc(), ( 'EPATH', 'path' ), ( 'B', 'priority_time_tick' ), ( 'B', 'timeout_ticks' ),
                    ( '<I', 'O_T.connection_ID' ), ( '<I', 'T_O.connection_ID' ), ( '<H', 'connection_serial' ), ( '<H', 'O_vendor' ),
                    ( '<I', 'O_serial' ), ( 'B', 'connection_timeout_multiplier' ), ( 'pad', 3 ) ]

MESSAGE_LAYOUTS = {
    # key: ( 'service', class, number ) or ( 'class', name )
    ( 'class', 'register' ):		[ [ ( '<H', 'protocol_version' ), ( '<H', 'options' ) ] ],
    ( 'class', 'send_data' ):		[ [ ( '<I', 'interface' ), ( '<H', 'timeout' ), ( 'CPF', 'CPF' ) ] ],
    ( 'class', 'connection_ID' ):	[ [ ( '<I', 'connection' ) ] ],
    ( 'class', 'connection_data' ):	[ [ ( '<H', 'sequence' ), ( 'data', 'request' ) ] ],
    ( 'class', 'unconnected_send' ):	[ [ _svc(), ( 'EPATH', 'path' ), ( 'B', 'priority' ), ( 'B', 'timeout_ticks' ), ( '<H', 'length' ), ( 'data', 'request' ),
                                            ( 'route_path', 'route_path' ) ],
                                          [ _svc(), ( 'EPATH', 'path' ), ( 'B', 'priority' ), ( 'B', 'timeout_ticks' ), ( '<H', 'length' ), ( 'data', 'request' ),
                                            ( 'pad', 1 ), ( 'route_path', 'route_path' ) ],
                                          # the Unconnected Send error reply ( service | 0x80, reserved, status ) and the "simple" form in which the
                                          # encapsulated request / reply is carried without the Unconnected Send wrapper
                                          [ _svc(), ( 'pad', 1 ), ( 'status', 'status' ) ],
                                          [ ( 'data', 'request' ) ] ],
    ( 'class', 'identity_object' ):	[ [ ( '<H', 'version' ), ( '>h', 'sin_family' ), ( '>H', 'sin_port' ), ( '>I', 'sin_addr' ), ( 'pad', 8 ),
                                            ( '<H', 'vendor_id' ), ( '<H', 'device_type' ), ( '<H', 'product_code' ), ( '<H', 'product_revision' ),
                                            ( '<H', 'status_word' ), ( '<I', 'serial_number' ), ( 'SSTRING', 'product_name' ), ( 'B', 'state' ) ] ],
    # Vol 2, 2-4.6.3 ListServices reply item ( type 0x100 ): protocol version, capability flags, name of service = ARRAY[16] of USINT
    # ( "Communications" NUL-padded to the fixed 16 octets; item length 0x14 )
    ( 'class', 'communications_service' ):	[ [ ( '<H', 'version' ), ( '<H', 'capability' ), ( 'text_fixed', 'service_name', 16 ) ] ],
    ( 'class', 'status' ):		[ [ ( 'B', '' ), ( 'B', 'ext.size' ) ],
                                          [ ( 'B', '' ), ( 'B', 'ext.size' ), ( 'repeat', [ ( '<H', 'ext' ) ] ) ] ],
    ( 'service', 'Logix', 0x4C ):	[ [ _svc(), ( 'EPATH', 'path' ), ( '<H', 'elements' ) ] ],
    ( 'service', 'Logix', 0xCC ):	[ _hdr_reply(), _hdr_reply() + [ ( '<H', 'type' ), ( 'data', 'read_tag' ) ],
                                          _hdr_reply() + [ ( '<H', 'type' ), ( '<H', 'structure_tag' ), ( 'data', 'data' ) ] ],
    ( 'service', 'Logix', 0x52 ):	[ [ _svc(), ( 'EPATH', 'path' ), ( '<H', 'elements' ), ( '<I', 'offset' ) ] ],
    ( 'service', 'Logix', 0xD2 ):	[ _hdr_reply(), _hdr_reply() + [ ( '<H', 'type' ), ( 'data', 'read_frag' ) ],
                                          _hdr_reply() + [ ( '<H', 'type' ), ( '<H', 'structure_tag' ), ( 'data', 'data' ) ] ],
    ( 'service', 'Logix', 0x4D ):	[ [ _svc(), ( 'EPATH', 'path' ), ( '<H', 'type' ), ( '<H', 'elements' ), ( 'data', 'write_tag' ) ],
                                          [ _svc(), ( 'EPATH', 'path' ), ( '<H', 'type' ), ( '<H', 'structure_tag' ), ( '<H', 'elements' ), ( 'data', 'data' ) ] ],
    ( 'service', 'Logix', 0xCD ):	[ _hdr_reply() ],
    ( 'service', 'Logix', 0x53 ):	[ [ _svc(), ( 'EPATH', 'path' ), ( '<H', 'type' ), ( '<H', 'elements' ), ( '<I', 'offset' ), ( 'data', 'write_frag' ) ],
                                          [ _svc(), ( 'EPATH', 'path' ), ( '<H', 'type' ), ( '<H', 'structure_tag' ), ( '<H', 'elements' ), ( '<I', 'offset' ), ( 'data', 'data' ) ] ],
    ( 'service', 'Logix', 0xD3 ):	[ _hdr_reply() ],
    ( 'service', 'Message_Router', 0x0A ):	[ [ _svc(), ( 'EPATH', 'path' ), ( '<H', 'number' ), ( 'repeat', [ ( '<H', 'offset' ) ] ), ( 'data', 'request_data' ) ] ],
    ( 'service', 'Message_Router', 0x8A ):	[ _hdr_reply(), _hdr_reply() + [ ( '<H', 'number' ), ( 'repeat', [ ( '<H', 'offset' ) ] ), ( 'data', 'request_data' ) ] ],
    ( 'service', 'Connection_Manager', 0x54 ):	[ _FO_COMMON_HEAD + [ ( '<I', 'O_T.RPI' ), ( '<H', 'O_T.NCP' ), ( '<I', 'T_O.RPI' ), ( '<H', 'T_O.NCP' ),
                                                    ( 'B', 'transport_class_triggers' ), ( 'EPATH', 'connection_path' ) ] ],
    ( 'service', 'Connection_Manager', 0x5B ):	[ _FO_COMMON_HEAD + [ ( '<I', 'O_T.RPI' ), ( '<I', 'O_T.NCP' ), ( '<I', 'T_O.RPI' ), ( '<I', 'T_O.NCP' ),
                                                    ( 'B', 'transport_class_triggers' ), ( 'EPATH', 'connection_path' ) ] ],
    ( 'service', 'Connection_Manager', 0xD4 ):	[ _hdr_reply() + [ ( '<I', 'O_T.connection_ID' ), ( '<I', 'T_O.connection_ID' ), ( '<H', 'connection_serial' ), ( '<H', 'O_vendor' ),
                                                    ( '<I', 'O_serial' ), ( '<I', 'O_T.API' ), ( '<I', 'T_O.API' ), ( 'B', 'application.size' ), ( 'pad', 1 ), ( 'data', 'application' ) ],
                                                  _hdr_reply() + [ ( '<H', 'connection_serial' ), ( '<H', 'O_vendor' ), ( '<I', 'O_serial' ) ],
                                                  _hdr_reply() + [ ( '<H', 'connection_serial' ), ( '<H', 'O_vendor' ), ( '<I', 'O_serial' ), ( 'B', 'remaining_path_size' ), ( 'pad', 1 ) ] ],
    ( 'service', 'Connection_Manager', 0x4E ):	[ [ _svc(), ( 'EPATH', 'path' ), ( 'B', 'priority_time_tick' ), ( 'B', 'timeout_ticks' ), ( '<H', 'connection_serial' ),
                                                    ( '<H', 'O_vendor' ), ( '<I', 'O_serial' ), ( 'EPATH_padded', 'connection_path' ) ] ],
    ( 'service', 'Connection_Manager', 0xCE ):	[ _hdr_reply(),		# status-only reply (as observed from ControlLogix controllers)
                                                  _hdr_reply() + [ ( '<H', 'connection_serial' ), ( '<H', 'O_vendor' ), ( '<I', 'O_serial' ), ( 'B', 'application.size' ), ( 'pad', 1 ), ( 'data', 'application' ) ] ],
    ( 'service', 'Object', 0x0E ):		[ [ _svc(), ( 'EPATH', 'path' ) ] ],
    ( 'service', 'Object', 0x8E ):		[ _hdr_reply(), _hdr_reply() + [ ( 'data', 'get_attribute_single' ) ] ],
    ( 'service', 'Object', 0x10 ):		[ [ _svc(), ( 'EPATH', 'path' ), ( 'data', 'set_attribute_single' ) ] ],
    ( 'service', 'Object', 0x90 ):		[ _hdr_reply() ],
    ( 'service', 'Object', 0x01 ):		[ [ _svc(), ( 'EPATH', 'path' ) ] ],
    ( 'service', 'Object', 0x81 ):		[ _hdr_reply(), _hdr_reply() + [ ( 'data', 'get_attributes_all' ) ] ],
    ( 'service', 'Object', 0x03 ):		[ [ _svc(), ( 'EPATH', 'path' ), ( '<H', 'number' ), ( 'repeat', [ ( '<H', 'attribute' ) ] ) ] ],
    ( 'service', 'Object', 0x83 ):		[ _hdr_reply(), _hdr_reply() + [ ( 'data', 'get_attribute_list' ) ] ],
}
# the messages whose *producer* must emit exactly a spec layout (what the simulator sends to an independent client)
REPLY_PRODUCERS = ( ( 'Logix', 0xCC ), ( 'Logix', 0xD2 ), ( 'Logix', 0xCD ), ( 'Logix', 0xD3 ), ( 'Message_Router', 0x8A ),
                    ( 'Connection_Manager', 0xD4 ), ( 'Connection_Manager', 0xDB ), ( 'Connection_Manager', 0xCE ),
                    ( 'Object', 0x8E ), ( 'Object', 0x90 ), ( 'Object', 0x81 ), ( 'Object', 0x83 ) )
MESSAGE_LAYOUTS[( 'service', 'Connection_Manager', 0xDB )] = MESSAGE_LAYOUTS[( 'service', 'Connection_Manager', 0xD4 )]


# ---------------------------------------------------------------------------------------- statuses under which a reply carries its data
# 1756-PM020 ( Logix 5000 Data Access ): Read Tag and Read Tag Fragmented replies carry tag type and data under general status 0x00 and
# under 0x06 ( "the data requested would not fit in the response packet ... partial data transferred": the client continues at the offset it
# has received ); CIP Vol 1, Appendix A, Multiple Service Packet: the offsets and member replies follow under 0x00 and under 0x1E
# ( "embedded service error" ).  Key: the function that builds the reply grammar, the producer and its reply-service constant.
STATUS_WITH_DATA = {
    ( 'server/enip/logix.py', '__read_tag_reply', 'Logix.produce', 'RD_TAG_RPY' ):          ( 0x00, 0x06 ),
    ( 'server/enip/logix.py', '__read_frag_reply', 'Logix.produce', 'RD_FRG_RPY' ):         ( 0x00, 0x06 ),
    ( 'server/enip/device.py', '__multiple_reply', 'Message_Router.produce', 'MULTIPLE_RPY' ): ( 0x00, 0x1E ),
}
