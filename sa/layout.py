"""Layout IR shared by the parser side (extracted grammar graphs) and the producer side (AST of the produce functions).

Atoms
  ( 'F', fmt, path )            fixed scalar: canonical struct format ( order, code ) and the data path it is stored at / taken from
                                path may be a str, ( 'LEN', path ), ( 'CONST', value ), ( 'ELEM', path ) or ( 'EXPR', text )
  ( 'K', n )                    n constant / reserved / pad octets
  ( 'V', kind, path, params )   variable part delegated to another codec that is checked on its own (EPATH, status, typed_data, raw, ...)
  ( 'R', count, subseqs )       repetition; count = the data path of the count field / iterated list; subseqs = tuple of atom tuples
  ( 'G', kind, value )          guard marker kept in the sequence when both sides can express it (status sets)

A Seq is ( atoms tuple, literals dict, trace list ).  literals record recognised guards so that contradictory combinations are pruned.
"""
import ast, struct, itertools

from .core import dotted, call_name, is_call_to, norm_text, txt, pmatch, walk_no_nested, AnalysisError
from .fold import try_fold, fold, NoFold
from .grammar import ( Node, Decide, Closure, ClassRef, compose, reduce_path, default_context )
from . import spec

CODECS = { 'EPATH', 'EPATH_padded', 'EPATH_single', 'route_path', 'status', 'typed_data', 'CPF', 'SSTRING', 'STRING', 'IFACEADDRS', 'IPADDR',
           'IPADDR_network', 'unconnected_send', 'communications_service', 'identity_object', 'legacy_CPF_0x0001', 'connection_ID',
           'connection_data', 'send_data', 'register', 'list_services', 'list_identity', 'list_interfaces', 'legacy', 'CIP', 'enip_header' }

MAX_SEQS = 512


class Seq:
    __slots__ = ( 'atoms', 'lits', 'trace' )
    def __init__( self, atoms=(), lits=None, trace=() ):
        self.atoms = tuple( atoms ); self.lits = dict( lits or {} ); self.trace = tuple( trace )
    def extend( self, atoms=(), lits=None, trace=() ):
        """new Seq or None when the literals contradict"""
        nl = dict( self.lits )
        for k, v in ( lits or {} ).items():
            if k in nl and nl[k] != v:
                return None
            nl[k] = v
        return Seq( self.atoms + tuple( atoms ), nl, self.trace + tuple( trace ))
    def __repr__( self ):
        return 'Seq(%s | %s)' % ( ' '.join( show_atom( a ) for a in self.atoms ), self.lits )


def merged( a, b ):
    d = dict( a )
    for k, v in b.items():
        if k in d and d[k] != v:
            return None
        d[k] = v
    return d


def show_atom( a ):
    if a[0] == 'F':
        p = a[2]
        if isinstance( p, tuple ):
            p = '%s(%s)' % ( p[0], p[1] )
        return '%s%s:%s' % ( a[1][0] if a[1][0] != '<' or a[1][1] in 'bB' else '', a[1][1] if a[1][0] != '>' else '>' + a[1][1], p )
    if a[0] == 'K':
        return 'pad*%d' % a[1]
    if a[0] == 'V':
        return '%s(%s%s)' % ( a[1], a[2], ( ' ' + ','.join( '%s=%s' % kv for kv in a[3] )) if a[3] else '' )
    if a[0] == 'R':
        return 'repeat[%s]{ %s }' % ( a[1], ' | '.join( ' '.join( show_atom( x ) for x in s ) for s in a[2] ))
    if a[0] == 'G':
        return 'if-%s%s' % ( a[1], sorted( a[2] ) if isinstance( a[2], ( set, frozenset )) else a[2] )
    return repr( a )


def fmt_atom( fmt ):
    return spec.fmt_canon( fmt )


# ---------------------------------------------------------------------------------------- parser side

def classify_predicate( dec ):
    """-> ( kind, value ) for a decide's predicate: ('status_in', frozenset), ('struct', bool taken-means-struct), ('odd', None), ('other', name)"""
    pred = dec.predicate
    if not isinstance( pred, Closure ):
        if dec.cls == 'move_if' and pred is None:
            return ( 'always', None )
        return ( 'other', dec.name )
    body = pred.node.body if isinstance( pred.node, ast.Lambda ) else pred.node
    t = txt( body ) if isinstance( body, ast.AST ) else ''
    if isinstance( body, ast.AST ):
        for n in ast.walk( body ):
            if isinstance( n, ast.Compare ) and len( n.ops ) == 1:
                l, r = n.left, n.comparators[0]
                if isinstance( n.ops[0], ast.In ) and 'status' in txt( l ):
                    v = try_fold( r )
                    if isinstance( v, ( tuple, list )):
                        return ( 'status_in', frozenset( v ))
                if isinstance( n.ops[0], ( ast.Eq, ast.NotEq )) and 'STRUCT.tag_type' in ( txt( l ), txt( r )):
                    return ( 'struct', isinstance( n.ops[0], ast.Eq ))
                if isinstance( n.ops[0], ast.Eq ) and 'status' in txt( l ) + txt( r ):
                    v = try_fold( r ) if 'status' in txt( l ) else try_fold( l )
                    if isinstance( v, int ):
                        return ( 'status_in', frozenset( [ v ] ))
        if '%2' in t:
            zero = any( isinstance( n, ast.Compare ) and try_fold( n.left if not isinstance( n.left, ast.BinOp ) else n.comparators[0] ) == 0 for n in ast.walk( body ))
            return ( 'odd', not zero )
    return ( 'other', dec.name )


class ParserLayout:
    def __init__( self, g ):
        self.g = g
        self.truncated = False

    def node_variants( self, n, path ):
        """-> list of ( atoms, lits ) for what entering node n consumes (own process + sub-machine); and the node's own context path"""
        g = self.g
        ext = n.kw.get( 'extension' ) if isinstance( n.kw.get( 'extension' ), str ) else None
        ours = compose( path, default_context( n ), ext )
        rp = reduce_path( ours )
        site = [ ( n.site, n.name ) ]
        if n.cls.startswith( 'substate' ) or not ( n.is_dfa or n.isa( 'state_input' )):
            return [ ( (), {} ) ], ours
        if n.isa( 'TYPE' ) or ( n.isa( 'octets_struct' )):
            fmt = n.kw.get( 'format' ) or g.class_const( n.cls, 'struct_format' )
            if not isinstance( fmt, str ):
                raise AnalysisError( 'struct format of %r unknown' % n )
            return [ ( ( ( 'F', fmt_atom( fmt ), rp ), ), {} ) ], ours
        if n.isa( 'octets_noop' ):
            return [ ( (), {} ) ], ours
        if n.isa( 'octets_drop' ):
            r = n.kw.get( 'repeat', 1 )
            if isinstance( r, int ):
                return [ ( ( ( 'K', r ), ) if r else (), {} ) ], ours
            return [ ( ( ( 'V', 'skip', reduce_path( compose( path, default_context( n ), r )), () ), ), {} ) ], ours
        if n.isa( 'octets' ) or n.isa( 'words' ):
            r = n.kw.get( 'repeat' )
            selfloop = any( t is n for s, t, d in g.edges_of( n ) if s is True )
            oext = n.kw.get( 'octets_extension' )
            dpath = reduce_path( ours + ( oext if isinstance( oext, str ) else '.input' ))
            if selfloop:
                return [ ( ( ( 'V', 'raw', dpath, (( 'len', 'to-end' ), )), ), {} ) ], ours
            if isinstance( r, int ) or r is None:
                k = ( r if r is not None else 1 ) * ( 2 if n.isa( 'words' ) else 1 )
                return [ ( ( ( 'V', 'raw', dpath, (( 'len', k ), )), ), {} ) ], ours
            return [ ( ( ( 'V', 'raw', dpath, (( 'len', reduce_path( compose( path, default_context( n ), r ))), )), ), {} ) ], ours
        if 'regex' in n.mro:
            lim = n.kw.get( 'limit' )
            lref = reduce_path( compose( path, default_context( n ), lim )) if isinstance( lim, str ) else lim if isinstance( lim, int ) else None
            return [ ( ( ( 'V', 'string', rp, (( 'limit', lref ), )), ), {} ) ], ours
        if n.cls == 'typed_data':
            tt = n.params.get( 'tag_type' ) if hasattr( n, 'params' ) else n.kw.get( 'tag_type' )
            st = n.params.get( 'structure_tag' ) if hasattr( n, 'params' ) else None
            ttp = ( 'const', tt ) if isinstance( tt, int ) else ( 'path', reduce_path( ours + tt )) if isinstance( tt, str ) else ( 'unknown', None )
            return self.typed_data_variants( rp, ttp, 'inline' if st is None else 'external' ), ours
        if n.cls == 'STRUCT' and isinstance( n.kw.get( 'limit' ), int ):
            # inline the STRUCT sub-machine up to its constant limit
            sub = n.sub_initial()
            out = []
            for s in self.seqs( sub, ours ):
                atoms, used = [], 0
                for a in s.atoms:
                    w = atom_width( a )
                    if w is None or used + w > n.kw['limit']:
                        break
                    atoms.append( a ); used += w
                if ( tuple( atoms ), ) not in [ ( o[0], ) for o in out ]:
                    out.append(( tuple( atoms ), {} ))
            return out, ours
        if n.cls in CODECS or ( n.cls in g.classes and g.find_init( n.cls ) is not None and n.cls not in ( 'dfa', 'dfa_post' )):
            lim = n.kw.get( 'limit' )
            params = ()
            if isinstance( lim, str ):
                params = (( 'limit', reduce_path( compose( path, default_context( n ), lim ))), )
            elif isinstance( lim, int ):
                params = (( 'limit', lim ), )
            elif lim is not None:
                params = (( 'limit', 'callable' ), )
            return [ ( ( ( 'V', n.cls, rp, params ), ), {} ) ], ours
        # generic dfa: inline (no repeat) or repetition
        sub = n.sub_initial()
        if sub is None:
            return [ ( (), {} ) ], ours
        subs = self.seqs( sub, ours )
        r = n.kw.get( 'repeat' )
        if r is None:
            return [ ( s.atoms, s.lits ) for s in subs ], ours
        cref = reduce_path( compose( path, default_context( n ), r )) if isinstance( r, str ) else r
        variants = tuple( sorted( { s.atoms for s in subs } ))
        return [ ( ( ( 'R', cref, variants ), ), {} ) ], ours

    def typed_data_variants( self, rp, ttp, st ):
        if ttp[0] == 'const':
            return [ ( ( ( 'V', 'typed_data', rp, (( 'type', ttp ), )), ), {} ) ]
        lit = ( 'struct', ttp[1] )
        non = ( ( 'V', 'typed_data', rp, (( 'type', ttp ), )), )
        if st == 'inline':
            stru = ( ( 'F', fmt_atom( '<H' ), rp + '.structure_tag' if rp else 'structure_tag' ), ( 'V', 'raw', ( rp + '.' if rp else '' ) + 'data.input', (( 'len', 'to-end' ), )))
        else:
            stru = ( ( 'V', 'raw', ( rp + '.' if rp else '' ) + 'data.input', (( 'len', 'to-end' ), )), )
        return [ ( non, { lit: False } ), ( stru, { lit: True } ) ]

    def seqs( self, start, path ):
        """all atom sequences from `start` to a state where the machine may stop"""
        out = []
        g = self.g
        def walk( n, seq, seen ):
            if len( out ) > MAX_SEQS:
                self.truncated = True
                return
            variants, ours = self.node_variants( n, path )
            for atoms, lits in variants:
                s2 = seq.extend( atoms, lits, [ ( n.site, n.name ) ] )
                if s2 is None:
                    continue
                self.follow( n, s2, seen, walk, out, path )
        walk( start, Seq(), frozenset() )
        return out

    def follow( self, n, seq, seen, walk, out, path ):
        g = self.g
        if n.terminal_flag:
            out.append( seq )
        # group edges by symbol, preserving order within a symbol
        by = {}
        order = []
        for k, t in n.edges:
            if t is n and k is True:
                continue				# raw-to-end self loop, summarised in the node atom
            if k not in by:
                by[k] = []; order.append( k )
            by[k].append( t )
        for k in order:
            # a decide list: first taken decide wins, else the final state
            neg = {}
            atoms_before = ()
            for t in by[k]:
                if isinstance( t, Decide ):
                    kind, val = classify_predicate( t )
                    tgt = t.state if isinstance( t.state, Node ) else None
                    if t.cls == 'move_if' and tgt is None:
                        continue			# a pure move: no transition (target None means "continue down the list")
                    lits, gatoms = {}, ()
                    if kind == 'status_in':
                        gatoms = (( 'G', 'status', val ), )
                        lits = { ( 'status_in', val ): True }
                    elif kind == 'struct':
                        # typed path of the literal is not known here; use a generic key resolved against typed_data literals by suffix
                        lits = { ( 'struct?', ): val }
                    elif kind == 'odd':
                        lits = { ( 'odd', ): val }
                    elif kind == 'always':
                        lits = {}
                    else:
                        lits = { ( 'other', t.name ): True }
                    l2 = dict( neg ); l2.update( lits )
                    s2 = seq.extend( gatoms, l2, [ ( t.site, 'decide ' + str( t.name )) ] )
                    if s2 is not None and tgt is not None and tgt.id not in seen:
                        walk( tgt, s2, seen | { n.id } )
                    # for the following alternatives this decide was not taken
                    if kind == 'status_in':
                        neg[( 'status_in', val )] = False
                    elif kind == 'struct':
                        neg[( 'struct?', )] = not val
                    elif kind == 'odd':
                        neg[( 'odd', )] = not val
                    elif kind == 'always':
                        break
                    else:
                        neg[( 'other', t.name )] = False
                elif isinstance( t, Node ):
                    s2 = seq.extend( (), neg, () )
                    if s2 is not None and t.id not in seen:
                        walk( t, s2, seen | { n.id } )


def atom_width( a ):
    if a[0] == 'F':
        return struct.calcsize( '<' + a[1][1] )
    if a[0] == 'K':
        return a[1]
    if a[0] == 'V' and a[1] == 'raw':
        ln = dict( a[3] ).get( 'len' )
        return ln if isinstance( ln, int ) else None
    return None


def resolve_struct_lits( seqs ):
    """unify the generic ('struct?',) literal of decides with the ('struct', typepath) literal of typed_data variants; drop contradictions"""
    out = []
    for s in seqs:
        gen = s.lits.get(( 'struct?', ))
        spec_ = [ v for k, v in s.lits.items() if k[0] == 'struct' ]
        if gen is not None and spec_ and any( v != gen for v in spec_ ):
            continue
        out.append( s )
    return out


# ---------------------------------------------------------------------------------------- producer side

class ProducerLayout:
    """layout sequences of one branch of a produce function"""
    def __init__( self, g, fn, cname, art ):
        self.g = g; self.fn = fn; self.cname = cname; self.art = art
        self.unknown = []
        # the accumulator is whatever name the function returns (renaming it is behaviour preserving)
        rets = [ r.value.id for r in ast.walk( fn ) if isinstance( r, ast.Return ) and isinstance( r.value, ast.Name ) ]
        self.res_name = max( set( rets ), key=rets.count ) if rets else 'result'

    def datapath( self, e, alias ):
        """data path text of an expression rooted at the artifact or an alias; None when not a data path"""
        if isinstance( e, ast.IfExp ):
            return self.datapath( e.body, alias )
        if isinstance( e, ast.Call ) and call_name( e ) in ( 'bytes', 'bytearray', 'octets_encode' ) and len( e.args ) == 1:
            return self.datapath( e.args[0], alias )
        d = dotted( e )
        if d is None:
            # x.setdefault( 'k', default ) / x.get( 'k', d ) -> x.k
            if isinstance( e, ast.Call ) and isinstance( e.func, ast.Attribute ) and e.func.attr in ( 'setdefault', 'get' ) and e.args:
                base = self.datapath( e.func.value, alias )
                k = try_fold( e.args[0] )
                if base is not None and isinstance( k, str ):
                    return ( base + '.' if base else '' ) + k
            if isinstance( e, ast.Subscript ):
                base = self.datapath( e.value, alias )
                k = try_fold( e.slice )
                if base is not None and isinstance( k, str ):
                    return ( base + '.' if base else '' ) + k
            return None
        head, _, rest = d.partition( '.' )
        if head == self.art:
            return rest
        if head in alias:
            return ( alias[head] + ( '.' + rest if rest else '' )).lstrip( '.' )
        return None

    def value_path( self, e, alias, loopvars ):
        if isinstance( e, ast.Name ) and e.id in loopvars:
            return ( 'ELEM', loopvars[e.id] )
        p = self.datapath( e, alias )
        if p is not None:
            return p
        if is_call_to( e, 'len' ) and e.args:
            q = self.datapath( e.args[0], alias )
            return ( 'LEN', q )				# None: length of a local (not a data path)
        if isinstance( e, ast.IfExp ):
            a = self.value_path( e.body, alias, loopvars )
            return a
        v = try_fold( e, default=NoFold )
        if v is not NoFold:
            return ( 'CONST', v )
        return ( 'EXPR', txt( e ))

    def expr_variants( self, e, alias, loopvars ):
        """-> list of ( atoms, lits ) for an expression appended to the result"""
        g = self.g
        if isinstance( e, ast.Constant ) and isinstance( e.value, bytes ):
            return [ ( (( 'K', len( e.value )), ) if e.value else (), {} ) ]
        if isinstance( e, ast.BinOp ) and isinstance( e.op, ast.Mult ):
            a, b = try_fold( e.left ), try_fold( e.right )
            if isinstance( a, bytes ) and isinstance( b, int ):
                return [ ( (( 'K', len( a ) * b ), ), {} ) ]
        if isinstance( e, ast.BinOp ) and isinstance( e.op, ast.Add ):
            outs = []
            for la, ll in self.expr_variants( e.left, alias, loopvars ):
                for ra, rl in self.expr_variants( e.right, alias, loopvars ):
                    if merged( ll, rl ) is not None:
                        outs.append(( la + ra, merged( ll, rl )))
            return outs
        if isinstance( e, ast.IfExp ):
            gk = self.classify_test( e.test, alias )
            pos, neg = True, False
            if gk[0] == 'nonstruct':
                gk, pos, neg = ( 'struct', gk[1] ), False, True
            outs = []
            for atoms, lits in self.expr_variants( e.body, alias, loopvars ):
                if merged( lits, { gk: pos } ) is not None:
                    outs.append(( atoms, merged( lits, { gk: pos } )))
            for atoms, lits in self.expr_variants( e.orelse, alias, loopvars ):
                if merged( lits, { gk: neg } ) is not None:
                    outs.append(( atoms, merged( lits, { gk: neg } )))
            return [ o for o in outs if o is not None ]
        if isinstance( e, ast.Call ):
            cn = call_name( e )
            # <TYPE>.produce( value )
            if cn.endswith( '.produce' ):
                owner = cn[:-len( '.produce' )].split( '.' )[-1]
                if owner in g.classes and 'TYPE' in g.mro( owner ) and e.args:
                    fmt = g.class_const( owner, 'struct_format' )
                    return [ ( (( 'F', fmt_atom( fmt ), self.value_path( e.args[0], alias, loopvars )), ), {} ) ]
                if owner == 'STRUCT' and e.args and not any( k.arg == 'structure_tag' for k in e.keywords ):
                    p = self.datapath( e.args[0], alias )
                    return [ ( (( 'V', 'raw', ( p + '.' if p else '' ) + 'data.input' if p is not None else None, (( 'len', 'to-end' ), )), ), {} ) ]
                if owner == 'typed_data' and e.args:
                    p = self.datapath( e.args[0], alias )
                    kw = { k.arg: k.value for k in e.keywords }
                    if 'tag_type' in kw:
                        tv = try_fold( kw['tag_type'], default=NoFold )
                        if tv is NoFold:
                            d = dotted( kw['tag_type'] ) or ''
                            c, _, a = d.rpartition( '.' )
                            tv = g.class_const( c.split( '.' )[-1], a ) if c.split( '.' )[-1] in g.classes else None
                        ttp = ( 'const', tv )
                    else:
                        ttp = ( 'path', ( p + '.' if p else '' ) + 'type' )
                    rp = p if p is not None else txt( e.args[0] )
                    return ParserLayout( g ).typed_data_variants( rp, ttp, 'inline' )
                if owner in CODECS or owner in ( 'cls', 'super' ) or ( owner in g.classes ):
                    p = self.datapath( e.args[0], alias ) if e.args else ''
                    if p is None and e.args and isinstance( e.args[0], ast.Call ):
                        p = self.datapath( e.args[0], alias )
                    kind = owner if owner not in ( 'cls', ) else 'member'
                    return [ ( (( 'V', kind, p if p is not None else txt( e.args[0] ) if e.args else '', () ), ), {} ) ]
            if cn in ( 'octets_encode', 'bytes', 'bytearray' ) and e.args:
                p = self.datapath( e.args[0], alias )
                return [ ( (( 'V', 'raw', p if p is not None else txt( e.args[0] ), (( 'len', 'to-end' ), )), ), {} ) ]
            if isinstance( e.func, ast.Attribute ) and e.func.attr == 'join' and e.args and isinstance( e.args[0], ( ast.GeneratorExp, ast.ListComp )):
                ge = e.args[0]
                c = ge.generators[0]
                lp = self.datapath( c.iter, alias )
                lv = dict( loopvars )
                if isinstance( c.target, ast.Name ):
                    lv[c.target.id] = lp
                subs = self.expr_variants( ge.elt, alias, lv )
                return [ ( (( 'R', lp, tuple( sorted( { a for a, l in subs } ))), ), {} ) ]
            if isinstance( e.func, ast.Attribute ) and e.func.attr == 'join' and e.args and isinstance( e.args[0], ( ast.List, ast.Tuple )):
                outs = [ ( (), {} ) ]
                for el in e.args[0].elts:
                    nxt = []
                    for a0, l0 in outs:
                        for a1, l1 in self.expr_variants( el, alias, loopvars ):
                            if merged( l0, l1 ) is not None:
                                nxt.append(( a0 + a1, merged( l0, l1 )))
                    outs = nxt
                return outs
            if isinstance( e.func, ast.Attribute ) and e.func.attr == 'join' and e.args and is_call_to( e.args[0], 'map' ) and len( e.args[0].args ) == 2:
                # b''.join( map( producer, data.get( 'data' ))): a list of elements
                lp = self.datapath( e.args[0].args[1], alias ) or txt( e.args[0].args[1] )
                return [ ( (( 'V', 'elements', lp, () ), ), {} ) ]
        if isinstance( e, ast.Subscript ) and isinstance( e.value, ast.Name ) and isinstance( e.slice, ast.Slice ):
            return [ ( (( 'V', 'raw', None, (( 'len', 'slice' ), )), ), {} ) ]		# a slice of locally assembled bytes
        if isinstance( e, ast.BinOp ) and isinstance( e.op, ast.Mult ) and isinstance( try_fold( e.left ), bytes ):
            return [ ( (( 'V', 'fill', None, () ), ), {} ) ]				# a computed run of fill octets (part of the preceding field)
        # text in a field of constant width: <text>.encode( .. ).ljust( N, b'\0' ) / struct.pack( 'Ns', <text>.encode( .. ))
        def enc_path_( x ):
            return self.datapath( x.func.value, alias ) if isinstance( x, ast.Call ) and isinstance( x.func, ast.Attribute ) and x.func.attr == 'encode' else None
        if isinstance( e, ast.Call ) and isinstance( e.func, ast.Attribute ) and e.func.attr == 'ljust' and len( e.args ) == 2 \
           and isinstance( try_fold( e.args[0] ), int ) and try_fold( e.args[1] ) == b'\0' and enc_path_( e.func.value ) is not None:
            return [ ( (( 'V', 'raw', enc_path_( e.func.value ), (( 'len', try_fold( e.args[0] )), )), ), {} ) ]
        if isinstance( e, ast.Call ) and call_name( e ) == 'struct.pack' and len( e.args ) == 2 and isinstance( try_fold( e.args[0] ), str ) \
           and try_fold( e.args[0] ).lstrip( '<>=!@' ).endswith( 's' ) and try_fold( e.args[0] ).lstrip( '<>=!@' )[:-1].isdigit() and enc_path_( e.args[1] ) is not None:
            return [ ( (( 'V', 'raw', enc_path_( e.args[1] ), (( 'len', int( try_fold( e.args[0] ).lstrip( '<>=!@' )[:-1] )), )), ), {} ) ]
        if isinstance( e, ast.Call ) and isinstance( e.func, ast.Attribute ) and e.func.attr == 'encode' and self.datapath( e.func.value, alias ) is not None:
            return [ ( (( 'V', 'raw', self.datapath( e.func.value, alias ), (( 'len', 'to-end' ), )), ), {} ) ]
        if isinstance( e, ast.Name ) or isinstance( e, ast.Attribute ):
            p = self.datapath( e, alias )			# None: a local (bytes assembled earlier)
            return [ ( (( 'V', 'raw', p, (( 'len', 'to-end' ), )), ), {} ) ]
        self.unknown.append( txt( e )[:80] )
        return [ ( (( 'X', txt( e )[:60] ), ), {} ) ]

    def classify_test( self, t, alias ):
        """literal key for an `if` test of the producer"""
        m = pmatch( t, '_s in _c' )
        if m is not None:
            p = self.datapath( m['_s'], alias )
            v = try_fold( m['_c'] )
            if p is not None and p.split( '.' )[-1] == 'status' and isinstance( v, ( tuple, list )):
                return ( 'status_in', frozenset( v ))
            k = try_fold( m['_s'] )
            if isinstance( k, str ):
                return ( 'present', k )
        for pat, val in (( '_s == STRUCT.tag_type', True ), ( '_s != STRUCT.tag_type', False ), ( 'STRUCT.tag_type == _s', True ), ( 'STRUCT.tag_type != _s', False )):
            m = pmatch( t, pat )
            if m is not None:
                p = self.datapath( m['_s'], alias )
                if p is not None:
                    return ( 'struct', p ) if val else ( 'nonstruct', p )
        m = pmatch( t, '_s == _c' )
        if m is not None:
            p = self.datapath( m['_s'], alias )
            v = try_fold( m['_c'] )
            if p is not None and p.split( '.' )[-1] == 'status' and isinstance( v, int ):
                return ( 'status_in', frozenset( [ v ] ))
        if pmatch( t, 'len( _x ) % 2' ):
            return ( 'odd', )
        m = pmatch( t, '_k not in _d' )
        if m is not None and isinstance( try_fold( m['_k'] ), str ):
            return ( 'absent', try_fold( m['_k'] ))
        d = dotted( t )
        if d is not None and d.endswith( '.large' ):
            return ( 'large', )
        return ( 'other', txt( t )[:60] )

    def block( self, stmts, seqs, alias, loopvars ):
        for s in stmts:
            seqs = self.stmt( s, seqs, alias, loopvars )
            if len( seqs ) > MAX_SEQS:
                raise AnalysisError( 'producer %s: too many layout variants' % self.fn.name )
        return seqs

    def stmt( self, s, seqs, alias, loopvars ):
        res_name = self.res_name
        if isinstance( s, ast.AugAssign ) and dotted( s.target ) == res_name and isinstance( s.op, ast.Add ):
            out = []
            vs = self.expr_variants( s.value, alias, loopvars )
            for q in seqs:
                for atoms, lits in vs:
                    n = q.extend( atoms, lits, [ ( s.lineno, norm_text( s )[:50] ) ] )
                    if n is not None:
                        out.append( n )
            return out
        if isinstance( s, ast.Assign ) and len( s.targets ) == 1 and isinstance( s.targets[0], ast.Name ):
            name = s.targets[0].id
            if name == res_name:
                v = s.value
                if isinstance( v, ast.Constant ) and v.value == b'':
                    return seqs
                vs = self.expr_variants( v, alias, loopvars )
                out = []
                for q in seqs:
                    for atoms, lits in vs:
                        n = Seq( (), q.lits, q.trace ).extend( atoms, lits, [ ( s.lineno, norm_text( s )[:50] ) ] )
                        if n is not None:
                            out.append( n )
                return out
            p = self.datapath( s.value, alias )
            if p is not None:
                alias[name] = p
            return seqs
        if isinstance( s, ast.If ):
            gk = self.classify_test( s.test, alias )
            pos, neg = True, False
            if gk[0] == 'nonstruct':
                gk, pos, neg = ( 'struct', gk[1] ), False, True
            a1, a2 = dict( alias ), dict( alias )
            tseq, fseq = [], []
            for q in seqs:
                gat = (( 'G', 'status', gk[1] ), ) if gk[0] == 'status_in' else ()
                t = q.extend( gat, { gk: pos } )
                if t is not None:
                    tseq.append( t )
                f = q.extend( (), { gk: neg } )
                if f is not None:
                    fseq.append( f )
            tseq = self.block( s.body, tseq, a1, loopvars )
            fseq = self.block( s.orelse, fseq, a2, loopvars ) if s.orelse else fseq
            alias.update( { k: v for k, v in a1.items() if a2.get( k ) == v } )
            return tseq + fseq
        if isinstance( s, ast.For ):
            lp = self.datapath( s.iter, alias )
            if lp is None:
                if is_call_to( s.iter, 'reversed' ) and s.iter.args:
                    lp = self.datapath( s.iter.args[0], alias )
            lv = dict( loopvars )
            a_in = dict( alias )
            if isinstance( s.target, ast.Name ):
                lv[s.target.id] = lp
                if lp is not None:
                    a_in[s.target.id] = lp		# <loop var>.field is a field of an element of the iterated list
            body = self.block( s.body, [ Seq() ], a_in, lv )
            subs = tuple( sorted( { b.atoms for b in body } ))
            if subs == ( (), ):
                return seqs			# the loop appends nothing to the result
            out = []
            for q in seqs:
                out.append( q.extend( (( 'R', lp, subs ), ), {}, [ ( s.lineno, 'for ' + norm_text( s.iter )[:40] ) ] ))
            return out
        if isinstance( s, ( ast.Expr, ast.Assert, ast.Pass )):
            return seqs
        if isinstance( s, ( ast.Assign, ast.AugAssign )):
            return seqs				# stores into the artifact (defaults), tuple assigns: no bytes
        if isinstance( s, ast.Return ):
            return seqs
        self.unknown.append( 'stmt ' + type( s ).__name__ )
        return seqs


def producer_branches( ctx, g, src, fn, cname, art='data' ):
    """split a produce function's top-level if/elif dispatch: -> [ ( test expr or None, body stmts ) ] plus the statements before/after"""
    chain = [ s for s in fn.body if isinstance( s, ast.If ) ]
    if not chain:
        return []
    out = []
    node = chain[0]
    while isinstance( node, ast.If ):
        out.append(( node.test, node.body ))
        if len( node.orelse ) == 1 and isinstance( node.orelse[0], ast.If ):
            node = node.orelse[0]
        else:
            if node.orelse:
                out.append(( None, node.orelse ))
            node = None
    return out


def branch_selected( test, v, env_consts, art='data', short=None ):
    """does the dispatch test select service value v?  `'<ctx>' in data` holds exactly for the service's own context key `short`"""
    def ev( e ):
        if isinstance( e, ast.BoolOp ):
            vals = [ ev( x ) for x in e.values ]
            return any( vals ) if isinstance( e.op, ast.Or ) else all( vals )
        if isinstance( e, ast.UnaryOp ) and isinstance( e.op, ast.Not ):
            return not ev( e.operand )
        if isinstance( e, ast.Compare ) and len( e.ops ) == 1:
            l, r = val( e.left ), val( e.comparators[0] )
            op = e.ops[0]
            if isinstance( op, ast.In ) and dotted( e.comparators[0] ) == art:
                return short is None or l is NoFold or l == short	# '<ctx>' in data
            if l is NoFold or r is NoFold:
                return True				# unknown conjunct: assume satisfiable
            if isinstance( op, ast.Eq ): return l == r
            if isinstance( op, ast.NotEq ): return l != r
            if isinstance( op, ast.In ): return l in r
            if isinstance( op, ast.NotIn ): return l not in r
        return True
    def val( e ):
        if isinstance( e, ast.Call ) and isinstance( e.func, ast.Attribute ) and e.func.attr in ( 'get', 'setdefault' ) and dotted( e.func.value ) == art \
           and e.args and try_fold( e.args[0] ) == 'service':
            return v
        if dotted( e ) == art + '.service' or dotted( e ) == 'service':
            return v
        if isinstance( e, ast.Tuple ):
            xs = [ val( x ) for x in e.elts ]
            return NoFold if any( x is NoFold for x in xs ) else tuple( xs )
        try:
            return fold( e, env_consts )
        except NoFold:
            return NoFold
    return bool( ev( test ))


# ---------------------------------------------------------------------------------------- matching

def path_compat( p, q ):
    """producer path p vs parser path q"""
    if p is None or q is None:
        return True					# a local of the producer: no data path to compare
    if isinstance( p, tuple ):
        if p[0] == 'LEN' and isinstance( q, str ) and q.replace( '_', '.' ).split( '.' )[-1] in ( 'length', 'size', 'count', 'number' ):
            return True					# a length/count field (what it bounds is checked by G-REF / G-BOUND)
        if p[0] in ( 'LEN', 'ELEM' ):
            if p[1] is None:
                return True
            base = p[1] or ''
            return isinstance( q, str ) and ( q == base or q.startswith( base + '.' ) or base.startswith( q + '.' ) or base.split( '.' )[0] == q.split( '.' )[0] )
        if p[0] in ( 'CONST', 'EXPR' ):
            return True
        return False
    if isinstance( q, tuple ):
        return path_compat( q, p )
    import re as _re
    p, q = _re.sub( r'\.+', '.', p.replace( '_', '.' )), _re.sub( r'\.+', '.', q.replace( '_', '.' ))	# application_size -> application.size, item__ -> item
    if p == q:
        return True
    return q.startswith( p + '.' ) or p.startswith( q + '.' ) or ( p == '' or q == '' )


def atom_eq( a, b ):
    """a = producer atom, b = parser atom"""
    if a[0] != b[0]:
        return False
    if a[0] == 'F':
        return a[1] == b[1] and path_compat( a[2], b[2] )
    if a[0] == 'K':
        return a[1] == b[1]
    if a[0] == 'G':
        return a[1] == b[1] and a[2] == b[2]
    if a[0] == 'V':
        ka, kb = a[1], b[1]
        same_kind = ka == kb or { ka, kb } <= { 'raw', 'elements', 'member', 'string', 'typed_data' }
        if not same_kind:
            return False
        pa, pb = dict( a[3] ), dict( b[3] )
        if ka == 'typed_data' and pa.get( 'type' ) != pb.get( 'type' ):
            ta, tb = pa.get( 'type' ), pb.get( 'type' )
            if not ( ta and tb and ta[0] == 'path' and tb[0] == 'path' and path_compat( ta[1], tb[1] )):
                return False
        return path_compat( a[2], b[2] )
    if a[0] == 'R':
        # same count source and pairwise matching element layouts
        # (the producer iterates a list, the parser repeats by a count field: G-REF checks that the count field exists and is an integer)
        for sa in a[2]:
            if not any( len( sa ) == len( sb ) and all( atom_eq( x, y ) for x, y in zip( sa, sb )) for sb in b[2] ):
                return False
        return True
    return a == b


SKIPPABLE = ( 'typed_data', 'raw', 'elements', 'string' )


def seq_match( P, Q ):
    """-> ( True, None ) or ( False, index of first difference in P ).  Guard markers are compared only when both sides carry one
    (a parser may express "data follows" as an optional continuation while the producer tests the status, or vice versa); a
    possibly-empty variable part (typed data / raw payload) may be absent on the other side."""
    if not ( any( a[0] == 'G' for a in P ) and any( a[0] == 'G' for a in Q )):
        P = tuple( a for a in P if a[0] != 'G' ); Q = tuple( a for a in Q if a[0] != 'G' )
    memo = {}
    far = [ 0 ]
    def m( i, j ):
        if ( i, j ) in memo:
            return memo[( i, j )]
        far[0] = max( far[0], i )
        if i == len( P ) and j == len( Q ):
            r = True
        else:
            r = False
            if i < len( P ) and j < len( Q ) and atom_eq( P[i], Q[j] ):
                r = m( i + 1, j + 1 )
            if not r and i < len( P ) and P[i][0] == 'V' and P[i][1] == 'fill':
                r = m( i + 1, j )			# fill octets belong to the preceding variable field
            both_var = i < len( P ) and j < len( Q ) and P[i][0] == 'V' and Q[j][0] == 'V' and P[i][1] in SKIPPABLE and Q[j][1] in SKIPPABLE
            if not r and not both_var and j < len( Q ) and Q[j][0] == 'V' and Q[j][1] in SKIPPABLE:
                r = m( i, j + 1 )
        memo[( i, j )] = r
        return r
    ok = m( 0, 0 )
    return ( True, None ) if ok else ( False, far[0] )


def best_match( s, others ):
    best = ( -1, None )
    for o in others:
        ok, i = seq_match( s.atoms, o.atoms )
        if ok:
            return True, o, None
        if i > best[0]:
            best = ( i, o )
    return False, best[1], best[0]
