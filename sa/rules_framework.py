"""Framework shape rules on automata.py: R-SENT (net symbol accounting), R-LIMIT (limit/ending chain), R-REPEAT (repeat loop),
R-PROGRESS (no-progress guards)."""
import ast

from .core import ( rule, Result, AnalysisError, dotted, call_name, is_call_to, names_in, attrs_in, walk_no_nested,
                    norm_text, dotted_in, stmt_of, pmatch, pfind, txt )
from .core import Matcher
from .fold import try_fold, run_block, NoFold, Record
from .cfg import CFG, INF

AUTOMATA = 'automata.py'


def _calls_only( node ):
    if node is None:
        return False
    return any( isinstance( n, ( ast.Call, ast.Raise )) for n in ast.walk( node ))


def _sent_effects( cfg, sign ):
    out = []
    for n in cfg.nodes:
        if n.kind == 'stmt' and isinstance( n.stmt, ast.AugAssign ) and dotted( n.stmt.target ) == 'self._sent' and try_fold( n.stmt.value ) == 1:
            if ( sign > 0 and isinstance( n.stmt.op, ast.Add )) or ( sign < 0 and isinstance( n.stmt.op, ast.Sub )):
                out.append( n )
    return out


@rule( 'R-SENT', props=( 'C10', 'C02' ), floor=6 )
def r_sent( ctx ):
    """peeking/chaining: every path of __next__ that returns an item increments _sent exactly once, raising paths never; push appends and decrements once; peek is net zero"""
    res = Result( 'R-SENT' )
    src = ctx.src( AUTOMATA )
    for qn in ( 'peeking.__next__', 'chaining.__next__' ):
        fn = src.get( qn )
        cfg = CFG( fn, may_raise=_calls_only )
        incs = _sent_effects( cfg, +1 )
        decs = _sent_effects( cfg, -1 )
        other = [ n for n in cfg.nodes if n.kind == 'stmt' and isinstance( n.stmt, ( ast.Assign, ast.AugAssign ))
                  and any( dotted( t ) == 'self._sent' for t in ( n.stmt.targets if isinstance( n.stmt, ast.Assign ) else [ n.stmt.target ] ))
                  and n not in incs ]
        for o in other:
            res.bad( src, o.stmt, o.stmt, '%s may only increment _sent by one' % qn )
        rets = [ n for n in cfg.nodes if n.kind == 'stmt' and isinstance( n.stmt, ast.Return ) and n.stmt.value is not None ]
        if not rets:
            raise AnalysisError( '%s: no return of an item' % qn )
        cnt = cfg.effect_counts( cfg.entry, incs, rets + [ cfg.raise_exit ], cut_back=True )
        for r in rets:
            if r not in cnt:
                continue
            if cnt[r] == ( 1, 1 ):
                res.ok( src, r.stmt, '%s: `%s` is reached with _sent incremented exactly once' % ( qn, norm_text( r.stmt )))
            else:
                res.bad( src, r.stmt, '%s: _sent incremented %s..%s times before `%s`' % ( qn, cnt[r][0], cnt[r][1], norm_text( r.stmt )),
                         'every symbol delivered must be counted exactly once: all limits are computed from source.sent' )
        if cfg.raise_exit in cnt:
            if cnt[cfg.raise_exit][1] == 0:
                res.ok( src, fn, '%s: no exception path counts a symbol' % qn )
            else:
                res.bad( src, fn, '%s: an exception path increments _sent' % qn, 'a symbol that was not delivered must not be counted' )
        # the item comes from the push-back stack first, then the iterator
        # decided by value: the fragment that fetches the symbol ( the body of the try ), on an empty and on a non-empty push-back stack, with
        # marking stand-ins for the stack's pop and for next(): whatever the spelling, it delivers pop() / pop( -1 ) when something was pushed
        # back and next( self._iter ) otherwise
        tries = [ t for t in fn.body if isinstance( t, ast.Try ) ]
        frag = tries[0].body if tries else fn.body
        got = {}
        for back in ( [], [ 'pushed' ] ):
            env = { 'self._back': list( back ), 'self._iter': 'ITER', 'self._back.pop': lambda *a: ( 'pop', ) + a, 'next': lambda *a: ( 'next', ) + a }
            before = set( env )
            try:
                out = run_block( frag, env )
            except NoFold as exc:
                raise AnalysisError( '%s: the fragment fetching the symbol is not a decision fragment: %s' % ( qn, exc ))
            new = [ k for k in env if k not in before ]
            got[bool( back )] = out.value if out.kind == 'return' else env[new[0]] if len( new ) == 1 else None
        if got[True] in (( 'pop', ), ( 'pop', -1 )) and got[False] == ( 'next', 'ITER' ):
            res.ok( src, fn, '%s: pushed-back symbols are delivered before new ones' % qn )
        else:
            res.bad( src, fn, qn, 'pushed-back symbols must be re-delivered (LIFO) before reading the iterator' )
    # chaining: the chained queue is FIFO: insert( 0, x ) and consume from the end
    ch = src.get( 'chaining.chain' ); nx = src.get( 'chaining.__next__' )
    if pfind( ch, 'self._chain.insert( 0, _i )' ) and pfind( nx, 'iter( self._chain[-1] )' ) and pfind( nx, 'self._chain.pop()' ):
        res.ok( src, ch, 'chained blocks are consumed in arrival order (insert at 0, take from the end)' )
    elif pfind( ch, 'self._chain.append( _i )' ) and pfind( nx, 'iter( self._chain[0] )' ) and pfind( nx, 'self._chain.pop( 0 )' ):
        res.ok( src, ch, 'chained blocks are consumed in arrival order (append, take from the front)' )
    else:
        res.bad( src, ch, 'chaining.chain / __next__', 'received blocks must be consumed in the order they were chained' )
    # push
    pu = src.get( 'peeking.push' )
    cfg = CFG( pu, may_raise=_calls_only )
    decs = _sent_effects( cfg, -1 ); apps = [ n for n in cfg.nodes if n.kind == 'stmt' and pmatch( n.stmt, 'self._back.append( _i )' ) ]
    cnt_d = cfg.effect_counts( cfg.entry, decs, [ cfg.exit ], cut_back=True ).get( cfg.exit )
    cnt_a = cfg.effect_counts( cfg.entry, apps, [ cfg.exit ], cut_back=True ).get( cfg.exit )
    if cnt_d == ( 1, 1 ) and cnt_a == ( 1, 1 ) and not _sent_effects( cfg, +1 ):
        res.ok( src, pu, 'push: one append to the push-back stack and one decrement of _sent' )
    else:
        res.bad( src, pu, 'peeking.push: append %s, decrement %s' % ( cnt_a, cnt_d ), 'a pushed-back symbol must be stacked once and un-counted once' )
    # peek: net zero = only touches _sent through push( next( self ))
    pk = src.get( 'peeking.peek' )
    direct = [ n for n in ast.walk( pk ) if isinstance( n, ( ast.AugAssign, ast.Assign )) and '_sent' in attrs_in( n ) ]
    via = pfind( pk, 'self.push( next( self ))' )
    nexts = [ c for c in ast.walk( pk ) if is_call_to( c, 'next' ) ]
    if not direct and via and len( nexts ) == len( via ) and pfind( pk, 'self._back[-1]' ):
        res.ok( src, pk, 'peek: reads ahead only through push( next( self )) (net zero) and returns the top of the stack' )
    else:
        res.bad( src, pk, 'peeking.peek', 'peek must not change the net count: every look-ahead next() must be pushed back' )
    # the property sent
    se = src.get( 'peeking.sent' )
    if pfind( se, 'return self._sent' ):
        res.ok( src, se, 'sent = _sent', nontrivial=False )
    else:
        res.bad( src, se, 'peeking.sent', 'sent must report the net count _sent' )
    # remembering.push is consistent with memory and delegates
    rp = src.get( 'remembering.push', required=False )
    if rp is not None:
        if any( is_call_to( c, 'push' ) and isinstance( c.func, ast.Attribute ) and is_call_to( c.func.value, 'super' ) for c in ast.walk( rp )):
            res.ok( src, rp, 'remembering.push delegates to the counting push' )
        else:
            res.bad( src, rp, 'remembering.push', 'must delegate to peeking.push so the symbol is un-counted' )
    return res


@rule( 'R-LIMIT', props=( 'C10', 'C08' ), floor=7 )
def r_limit( ctx ):
    """state.run/transition/delegate: the absolute `ending` may only shrink, is forwarded to delegate and transition, and a limited state follows None transitions only"""
    res = Result( 'R-LIMIT' )
    src = ctx.src( AUTOMATA )
    run = src.get( 'state.run' )
    # every store to `ending` in run is only-shrinks
    stores = [ s for s in walk_no_nested( run ) if isinstance( s, ( ast.Assign, ast.AugAssign ))
               and any( dotted( t ) == 'ending' for t in ( s.targets if isinstance( s, ast.Assign ) else [ s.target ] )) ]
    if not stores:
        res.bad( src, run, 'state.run', 'a state limit is never turned into an ending' )
    for s in stores:
        par = src.parent.get( s )
        v = s.value
        shrink = False
        if is_call_to( v, 'min' ) and any( dotted( a ) == 'ending' for a in v.args ):
            shrink = True; how = 'min( ending, ... )'
        elif isinstance( par, ast.If ) and s in par.body:
            t = par.test
            vt = txt( v )
            for pat in ( 'ending is None or %s < ending', 'ending is None or %s <= ending', 'ending is None or ending > %s', 'ending is None or ending >= %s' ):
                if pmatch( t, pat % ast.unparse( v )):
                    shrink = True; how = norm_text( t )
        if shrink:
            res.ok( src, s, 'ending only shrinks: %s' % how )
        else:
            res.bad( src, s, ( 'if %s: ' % norm_text( par.test ) if isinstance( par, ast.If ) else '' ) + norm_text( s ),
                     'a nested limit may only reduce the ending inherited from the enclosing parser, never extend it' )
        # the value is sent + limit (the local that holds the resolved self.limit)
        LIM = [ t.id for s_ in walk_no_nested( run ) if isinstance( s_, ast.Assign ) and pmatch( s_.value, 'self.limit' ) for t in s_.targets[:1] if isinstance( t, ast.Name ) ]
        LIM = LIM[0] if LIM else 'limit'
        if pmatch( v, 'source.sent + %s' % LIM ) or pmatch( v, '%s + source.sent' % LIM ) or ( is_call_to( v, 'min' ) and ( 'source.sent+%s' % LIM ) in txt( v )):
            res.ok( src, s, 'ending = source.sent + limit (absolute position)' )
        else:
            res.bad( src, s, s, 'the ending must be the absolute position source.sent + limit' )
    # a state that HAS a limit always gets its ending considered: between the read of self.limit and the first use of `ending` (delegate /
    # transition) the shrink test can be by-passed only through "the limit is None" - not through the truthiness of the limit (0 is a
    # limit), the presence of a data artifact, the logging level or any other condition
    if stores:
        cfgl = CFG( run, may_raise=lambda n: False )
        tnodes = []
        for s in stores:
            par = src.parent.get( s )
            if isinstance( par, ast.If ):
                tnodes += [ n for n in cfgl.nodes if n.kind == 'test' and n.stmt is par ]
            else:
                tnodes += [ n for n in cfgl.nodes if n.kind == 'stmt' and n.stmt is s ]
        LIMN = [ t.id for s_ in walk_no_nested( run ) if isinstance( s_, ast.Assign ) and pmatch( s_.value, 'self.limit' ) for t in s_.targets[:1] if isinstance( t, ast.Name ) ]
        LIMN = LIMN[0] if LIMN else 'limit'
        uses = [ n for n in cfgl.nodes if n.own() is not None and n not in tnodes and any( is_call_to( c, 'self.delegate', 'self.transition' ) for c in ast.walk( n.own() )) ]
        def edge_ok( a, b, label ):
            if a.kind == 'test' and a.expr is not None:
                if pmatch( a.expr, '%s is not None' % LIMN ) is not None and label == 'false':
                    return False
                if pmatch( a.expr, '%s is None' % LIMN ) is not None and label == 'true':
                    return False
            return True
        reach = cfgl.reachable( cfgl.entry, avoid=set( tnodes ), edge_ok=edge_ok )
        by = [ u for u in uses if u in reach ]
        if by:
            # name the test(s) whose outcome lets the path around the shrink test
            culprits = [ n for n in reach if n.kind == 'test' and n.expr is not None and n not in tnodes and any( m in tnodes or any( t in cfgl.reachable( m, stop=tnodes ) for t in tnodes ) for m, l in cfgl.succ[n] )
                         and any( m not in tnodes and by[0] in cfgl.reachable( m, avoid=set( tnodes ), edge_ok=edge_ok ) for m, l in cfgl.succ[n] ) ]
            culprits.sort( key=lambda n: n.lineno )
            c0 = culprits[-1] if culprits else by[0]
            res.bad( src, c0.stmt, 'the ending of a limited state is established only if %s' % ( norm_text( c0.expr ) if c0.expr is not None else '?' ),
                     'a state with a limit (0 included) must always bound its sub-machine: this condition lets state.run reach delegate/transition with the limit ignored, so the nested parser consumes bytes beyond its limit' )
        else:
            res.ok( src, tnodes[0].stmt if tnodes else run, 'with a limit present the shrink test is unavoidable (only `limit is None` by-passes it)' )
    # limit resolution: string -> data.get( context( path, limit ), 0 ); callable -> call; int assert
    LM = Matcher()
    if LM.find( run, '_src = self.context( path, _src )' ) is not None and LM.find( run, '_lim = data.get( _src, 0 )' ) is not None:
        res.ok( src, run, 'string limit resolved relative to the state context, default 0' )
    else:
        res.bad( src, run, 'state.run limit resolution', 'a data-path limit must be resolved through self.context( path, limit )' )
    ints = [ a for a in ast.walk( run ) if isinstance( a, ast.Assert ) and pmatch( a.test, 'isinstance( _l, int )' ) ]
    if ints:
        res.ok( src, ints[0], 'assert isinstance( limit, int )' )
    else:
        res.bad( src, run, 'state.run', 'a resolved limit must be checked to be an int' )
    # forwarded to delegate and transition
    for callee in ( 'self.delegate', 'self.transition' ):
        calls = [ c for c in ast.walk( run ) if is_call_to( c, callee ) ]
        if calls and all( any( k.arg == 'ending' and dotted( k.value ) == 'ending' for k in c.keywords ) for c in calls ):
            res.ok( src, calls[0], '%s( ..., ending=ending )' % callee )
        else:
            res.bad( src, calls[0] if calls else run, '%s call' % callee, 'the ending must be passed to %s' % callee )
    # post-run assertion
    post = [ a for a in ast.walk( run ) if isinstance( a, ast.Assert ) and ( pmatch( a.test, 'source.sent <= ending' ) or pmatch( a.test, 'ending >= source.sent' )) ]
    if post:
        res.ok( src, post[0], 'post-run assert source.sent <= ending' )
        # ... and every normal completion of run() passes it (no early return / fast path around it)
        cfg = CFG( run, may_raise=lambda n: False )
        guard = src.parent.get( post[0] )
        gnode = cfg.node_of( guard ) if isinstance( guard, ast.If ) else cfg.node_of( post[0] )
        if gnode is not None and isinstance( guard, ast.If ) and ( pmatch( guard.test, 'ending is not None' )) and cfg.must_pass( cfg.entry, cfg.exit, [ gnode ], correlated=False ):
            res.ok( src, guard, 'every normal completion of state.run reaches the post-run limit assertion' )
        elif gnode is not None and not isinstance( guard, ast.If ) and cfg.must_pass( cfg.entry, cfg.exit, [ gnode ], correlated=False ):
            res.ok( src, post[0], 'every normal completion of state.run reaches the post-run limit assertion' )
        else:
            early = [ n for n in cfg.nodes if n.kind == 'stmt' and isinstance( n.stmt, ast.Return ) ]
            res.bad( src, early[0].stmt if early else run, early[0].stmt if early else 'state.run', 'state.run can complete normally without reaching the post-run assertion sent <= ending (a state entered at the limit may consume past it unnoticed)' )
    else:
        res.bad( src, run, 'state.run', 'the post-run assertion sent <= ending is missing (overrun would go unnoticed)' )
    # transition: limited => lookup key None
    tr = src.get( 'state.transition' )
    lim = [ s for s in walk_no_nested( tr ) if isinstance( s, ast.Assign ) and isinstance( s.targets[0], ast.Name )
            and 'ending' in names_in( s.value ) and 'sent' in attrs_in( s.value ) ]
    LIMITED = lim[0].targets[0].id if lim else 'limited'
    good = False
    for s in lim:
        # by value: at sent = 5, an ending of None / 7 leaves the state free, an ending of 3 / 5 limits it
        cells = [ try_fold( s.value, { 'ending': e_, 'source.sent': 5, 'source': Record( sent=5 ) }, default='?' ) for e_ in ( None, 7, 3, 5 ) ]
        if [ ( c != '?' and bool( c )) for c in cells ] == [ False, False, True, True ] and '?' not in cells:
            good = True
            res.ok( src, s, 'limited = ending is not None and source.sent >= ending' )
        else:
            c = [ x for x in ast.walk( s.value ) if isinstance( x, ast.Compare ) and 'ending' in names_in( x ) and 'sent' in attrs_in( x ) ]
            res.bad( src, s, s, 'a state is limited as soon as source.sent >= ending (`>` lets one symbol past the limit)' )
    if not lim:
        res.bad( src, tr, 'state.transition', 'no `limited` computation from ending' )
    # ... the symbol the transition table is indexed with: by value, None once limited, the peeked symbol otherwise
    inp = []
    for a_ in walk_no_nested( tr ):
        if isinstance( a_, ast.Assign ) and len( a_.targets ) == 1 and isinstance( a_.targets[0], ast.Name ) and LIMITED in names_in( a_.value ):
            v_ = [ try_fold( a_.value, { LIMITED: l_, 'source.peek': lambda: 'PEEKED' }, default='?' ) for l_ in ( True, False ) ]
            nm = a_.targets[0].id
            if v_ == [ None, 'PEEKED' ] and ( pfind( tr, 'self.__getitem__( %s )' % nm ) or pfind( tr, 'self[%s]' % nm )):
                inp.append(( a_, { '_i': a_.targets[0] } ))
    if inp:
        res.ok( src, inp[0][0], 'a limited state looks up the None transition only' )
    else:
        res.bad( src, tr, 'state.transition input selection', 'once limited, only no-input (None) transitions may be followed' )
    # the limited computation must precede the loop (computed from this state's post-processing position)
    dl = src.get( 'dfa_base.delegate' )
    runs = [ c for c in ast.walk( dl ) if is_call_to( c, 'self.current.run' ) ]
    if runs and all( any( k.arg == 'ending' and dotted( k.value ) == 'ending' for k in c.keywords ) for c in runs ):
        res.ok( src, runs[0], 'dfa_base.delegate forwards ending to the sub-state run' )
    else:
        res.bad( src, runs[0] if runs else dl, 'self.current.run( ... )', 'the sub-machine must inherit the ending of its dfa' )
    return res


@rule( 'R-REPEAT', props=( 'C10', ), floor=5 )
def r_repeat( ctx ):
    """dfa_base.delegate: cycle reset before the loop, incremented exactly once per cycle, loop while cycle < final, terminal only after the last cycle"""
    res = Result( 'R-REPEAT' )
    src = ctx.src( AUTOMATA )
    dl = src.get( 'dfa_base.delegate' )
    loops = [ w for w in dl.body if isinstance( w, ast.While ) ]
    if len( loops ) != 1:
        raise AnalysisError( 'dfa_base.delegate: outer cycle loop not found' )
    lp = loops[0]
    if pmatch( lp.test, 'self.loop() and not _st' ) or pmatch( lp.test, 'not _st and self.loop()' ):
        res.ok( src, lp, 'cycle loop runs while self.loop() and not stasis' )
    else:
        res.bad( src, lp, lp.test, 'the cycle loop must run while self.loop() (cycles remain) and no stasis' )
    before = [ s for s in dl.body[:dl.body.index( lp )] ]
    if any( pmatch( s, 'self.cycle = 0' ) for s in before ):
        res.ok( src, dl, 'self.cycle = 0 before the loop' )
    else:
        res.bad( src, dl, 'dfa_base.delegate', 'cycle must be reset to 0 at the start of each delegate' )
    cfg = CFG( dl, may_raise=_calls_only )
    incs = [ n for n in cfg.nodes if n.kind == 'stmt' and isinstance( n.stmt, ast.AugAssign ) and dotted( n.stmt.target ) == 'self.cycle' ]
    h = cfg.node_of( lp )
    first = [ m for m, l in cfg.succ[h] if l == 'true' ]
    backs = [ p for p, l in cfg.pred[h] if l in ( 'back', 'continue' ) ]
    bad_inc = [ n for n in incs if not ( isinstance( n.stmt.op, ast.Add ) and try_fold( n.stmt.value ) == 1 ) ]
    for b in bad_inc:
        res.bad( src, b.stmt, b.stmt, 'cycle must advance by exactly one' )
    cnt = cfg.effect_counts( first[0], incs, backs, cut_back=True, skip_labels=( 'exc', )) if first and backs else {}
    if cnt and all( v == ( 1, 1 ) for v in cnt.values() ):
        res.ok( src, lp, 'self.cycle += 1 exactly once per completed cycle' )
    else:
        res.bad( src, lp, 'self.cycle increments per cycle: %s' % sorted( set( cnt.values() )), 'a repeat count must make the sub-grammar run exactly that many times' )
    others = [ s for s in ast.walk( dl ) if isinstance( s, ast.Assign ) and any( dotted( t ) == 'self.cycle' for t in s.targets ) and s not in before ]
    for o in others:
        res.bad( src, o, o, 'cycle may only be reset before the loop' )
    # ... and the number of cycles required is decided once, ahead of the loop: no store to self.final from the cycle loop on ( a count
    # lowered to the cycles already done makes the dfa terminal after fewer runs of its sub-grammar than the repeat count demands )
    late = [ s for s in ast.walk( dl ) if isinstance( s, ( ast.Assign, ast.AugAssign, ast.AnnAssign, ast.Delete ))
             and any( dotted( t ) == 'self.final' for tg in ( s.targets if isinstance( s, ( ast.Assign, ast.Delete )) else [ s.target ] ) for t in ast.walk( tg ))
             and getattr( s, 'lineno', 0 ) >= lp.lineno ] \
         + [ c for c in ast.walk( dl ) if isinstance( c, ast.Call ) and dotted( c.func ) == 'setattr' and c.lineno >= lp.lineno ]
    for o in late:
        res.bad( src, o, 'store to the required cycle count once the cycles run ( %s )' % norm_text( o )[:60],
                 'the repeat count is resolved before the first cycle and must stand: changed while the cycles run, the dfa completes after fewer ( or more ) runs of its sub-grammar than the count says' )
    if not late:
        res.ok( src, lp, 'the required cycle count ( self.final ) is fixed ahead of the cycle loop' )
    # who-may-write: nothing else in the framework stores a dfa's cycle count or its cycle counter
    owners = ( 'dfa_base.__init__', 'dfa_base.delegate' )
    foreign = [ ( s, t ) for s in ast.walk( src.tree ) if isinstance( s, ( ast.Assign, ast.AugAssign ))
                for tg in ( s.targets if isinstance( s, ast.Assign ) else [ s.target ] ) for t in ast.walk( tg )
                if isinstance( t, ast.Attribute ) and t.attr in ( 'final', 'cycle' ) and src.qualname_of( s ) not in owners ]
    for s_, t_ in foreign:
        res.bad( src, s_, 'store to .%s outside dfa_base' % t_.attr, 'only dfa_base.delegate counts cycles and resolves the repeat count' )
    if not foreign:
        res.ok( src, dl, 'only dfa_base.__init__ / delegate store .cycle and .final' )
    lf = src.get( 'dfa_base.loop' )
    if pfind( lf, 'return self.cycle < self.final' ):
        res.ok( src, lf, 'loop() = cycle < final' )
    else:
        res.bad( src, lf, 'dfa_base.loop', 'cycles remain exactly while cycle < final' )
    tm = src.get( 'dfa_base.terminal' )
    r = [ s for s in tm.body if isinstance( s, ast.Return ) ]
    if r and isinstance( r[0].value, ast.BoolOp ) and isinstance( r[0].value.op, ast.And ) \
       and { txt( v ) for v in r[0].value.values } >= { 'self._terminal', 'self.current.terminal', 'notself.loop()' }:
        res.ok( src, tm, 'terminal = own flag and sub-machine terminal and no cycles remaining' )
    else:
        res.bad( src, tm, r[0].value if r else 'terminal', 'a dfa is terminal only when flagged, its sub-machine is terminal and all cycles are done' )
    # repeat resolution
    RM = Matcher()
    if RM.find( dl, '_src = self.context( path, _src )' ) is not None and RM.find( dl, 'self.final = data.get( _src, 0 )' ) is not None:
        res.ok( src, dl, 'string repeat resolved relative to the dfa context, default 0' )
    else:
        res.bad( src, dl, 'repeat resolution', 'a data-path repeat must be resolved through self.context( path, repeat )' )
    # the cycle loop ends only through its own condition: no break / return bound to it
    escapes = []
    for n in ast.walk( lp ):
        if isinstance( n, ( ast.Break, ast.Return )):
            enc = src.enclosing( n, ( ast.While, ast.For ))
            if isinstance( n, ast.Return ) or enc is lp:
                escapes.append( n )
    if escapes:
        par = src.parent.get( escapes[0] )
        res.bad( src, escapes[0], ( 'if %s: ' % norm_text( par.test ) if isinstance( par, ast.If ) else '' ) + norm_text( escapes[0] ),
                 'the repeat loop is left before all cycles ran: a repeat count must make the sub-grammar run exactly that many times (or fail)' )
    else:
        res.ok( src, lp, 'the cycle loop has no break/return of its own' )
    if any( pmatch( s, 'self.reset()' ) for s in lp.body ):
        res.ok( src, lp, 'sub-machine reset to initial at the start of every cycle' )
    else:
        res.bad( src, lp, 'cycle loop', 'each cycle must restart the sub-machine at its initial state' )
    return res


@rule( 'R-PROGRESS', props=( 'C08', 'C02' ), floor=4 )
def r_progress( ctx ):
    """the three no-progress guards (accept loop, transition loop, delegate stasis) compare (state, next symbol, sent) crumbs; non-terminal stop raises NonTerminal"""
    res = Result( 'R-PROGRESS' )
    src = ctx.src( AUTOMATA )
    run = src.get( 'state.run' ); dl = src.get( 'dfa_base.delegate' )
    def crumb_ok( v ):
        return isinstance( v, ast.Tuple ) and len( v.elts ) == 3 and txt( v.elts[1] ) == 'source.peek()' and txt( v.elts[2] ) == 'source.sent'
    # 1. accept loop
    acc = [ w for w in walk_no_nested( run ) if isinstance( w, ast.While ) and is_call_to( getattr( w.test, 'operand', None ), 'self.accepts' ) ]
    if len( acc ) != 1:
        raise AnalysisError( 'state.run: accept loop not found' )
    body = acc[0].body
    cr = [ s for s in body if isinstance( s, ast.Assign ) and crumb_ok( s.value ) ]
    A = Matcher()
    chk = [ s for s in body if isinstance( s, ast.Assert ) and cr and A.m( s.test, '%s not in _seen' % cr[0].targets[0].id ) ] if cr else []
    addd = [ s for s in body if cr and chk and pmatch( s, '%s.add( %s )' % ( A.name( '_seen' ), cr[0].targets[0].id )) ] if cr else []
    yl = [ s for s in body if isinstance( s, ast.Expr ) and isinstance( s.value, ast.Yield ) ]
    if cr and chk and addd and yl and body.index( chk[0] ) < body.index( addd[0] ) < body.index( yl[0] ):
        res.ok( src, acc[0], 'accept loop: crumb (None, peek, sent) asserted unseen, recorded, then yield' )
    else:
        res.bad( src, acc[0], 'state.run accept loop', 'waiting for an acceptable symbol must fail when (next symbol, sent) repeats: otherwise hostile input spins forever' )
    # 2. transition loop
    trl = [ f for f in walk_no_nested( run ) if isinstance( f, ast.For ) and is_call_to( f.iter, 'self.transition' ) ]
    if len( trl ) != 1:
        raise AnalysisError( 'state.run: transition loop not found' )
    body = trl[0].body
    cr = [ s for s in body if isinstance( s, ast.Assign ) and crumb_ok( s.value ) ]
    B = Matcher()
    brk = [ s for s in body if isinstance( s, ast.If ) and cr and B.m( s.test, '%s in _seen' % cr[0].targets[0].id ) and any( isinstance( b, ( ast.Break, ast.Raise, ast.Return )) for b in s.body ) ]
    addd = [ s for s in body if cr and brk and pmatch( s, '%s.add( %s )' % ( B.name( '_seen' ), cr[0].targets[0].id )) ]
    if cr and brk and addd:
        res.ok( src, trl[0], 'transition loop: leaves when crumb (state, peek, sent) repeats' )
    else:
        res.bad( src, trl[0], 'state.run transition loop', 'repeating (state, next symbol, sent) must end the transition loop' )
    # 3. delegate stasis
    cr = [ s for s in ast.walk( dl ) if isinstance( s, ast.Assign ) and crumb_ok( s.value ) ]
    C = Matcher()
    st = [ s for s in ast.walk( dl ) if isinstance( s, ast.Assign ) and isinstance( s.targets[0], ast.Name ) and cr and C.m( s.value, '%s in _seen' % cr[0].targets[0].id ) ]
    STASIS = st[0].targets[0].id if st else 'stasis'
    SEEN = C.name( '_seen' ) or 'seen'
    inner = [ w for w in ast.walk( dl ) if isinstance( w, ast.While ) and isinstance( w.test, ast.UnaryOp ) and isinstance( w.test.op, ast.Not ) and isinstance( w.test.operand, ast.Name ) ]
    DONE = inner[0].test.operand.id if inner else 'done'
    ifs = [ s for s in ast.walk( dl ) if isinstance( s, ast.If ) and pmatch( s.test, STASIS ) and any( isinstance( b, ast.Break ) for b in s.body )
            and any( pmatch( b, '%s = True' % DONE ) for b in s.body ) ]
    addd = [ s for s in ast.walk( dl ) if cr and pmatch( s, '%s.add( %s )' % ( SEEN, cr[0].targets[0].id )) ]
    # the outer cycle loop must stop on stasis
    outer = [ w for w in dl.body if isinstance( w, ast.While ) ]
    if not ( outer and ( pmatch( outer[0].test, 'self.loop() and not %s' % STASIS ) or pmatch( outer[0].test, 'not %s and self.loop()' % STASIS ))):
        ifs = []
    if cr and st and ifs and addd:
        res.ok( src, st[0], 'delegate: stasis = crumb in seen -> done, break; outer loop stops on stasis' )
    else:
        res.bad( src, dl, 'dfa_base.delegate stasis detection', 'the sub-machine loop must stop when (target, next symbol, sent) repeats' )
    seeds = pfind( dl, '%s = set( [ ( self.current, source.peek(), source.sent ) ] )' % SEEN )
    if seeds:
        res.ok( src, seeds[0][0], 'delegate: seen seeded with the entry crumb each cycle' )
    else:
        res.bad( src, dl, 'delegate seen initialisation', 'the crumb set must be re-seeded with the entry crumb at the start of every cycle' )
    # NonTerminal
    nt = [ s for s in ast.walk( dl ) if isinstance( s, ast.If ) and pmatch( s.test, 'not self.current.terminal' )
           and any( isinstance( b, ast.Raise ) and 'NonTerminal' in txt( b ) for b in s.body ) ]
    if nt:
        res.ok( src, nt[0], 'a cycle ending in a non-terminal state raises NonTerminal' )
    else:
        res.bad( src, dl, 'dfa_base.delegate', 'ending a cycle in a non-terminal state must raise NonTerminal (input rejected, not absorbed)' )
    # `if not transit: done = True`: each state is run once unless re-entered
    once = [ s for s in ast.walk( dl ) if isinstance( s, ast.If ) and pmatch( s.test, 'not _t' ) and any( pmatch( b, '%s = True' % DONE ) for b in s.body )
             and isinstance( s.test.operand, ast.Name ) and [ a for a in ast.walk( dl ) if pmatch( a, '%s = True' % s.test.operand.id ) ] ]
    if once:
        res.ok( src, once[0], 'a state that produced no transition ends the cycle (never re-processed)' )
    else:
        res.bad( src, dl, 'dfa_base.delegate', 'a sub-state that cannot transition must end the cycle, not be re-run (it would consume again)' )
    return res


@rule( 'W-ASSERT', props=( 'C03', 'C04', 'C05', 'C07', 'C08', 'C10', 'C12', 'C15', 'C16', 'C19' ), floor=200 )
def w_assert( ctx ):
    """validation in this code base is `assert <condition>, <message>` inside a status-converting try: every assert must be able to fail.
    An assert whose test is a non-empty tuple / list / dict display or a truthy constant - `assert ( condition, "message" )`, the
    parenthesised form - is always true: the refusal it stood for is gone ( a request beyond the end of a tag, a sub-element offset, a
    mismatching route path ... is served ).  Every assert of the analysed modules is examined."""
    res = Result( 'W-ASSERT' )
    n = 0
    for rel in ( 'automata.py', 'dotdict.py', 'misc.py', 'server/enip/parser.py', 'server/enip/device.py', 'server/enip/logix.py', 'server/enip/ucmm.py', 'server/enip/client.py',
                 'server/enip/main.py', 'server/enip/get_attribute.py', 'server/enip/defaults.py', 'server/network.py', 'server/tnet.py', 'server/tnetstrings.py',
                 'history/files.py', 'history/times.py', 'remote/plc_modbus.py' ):
        if not ctx.model.exists( rel ):
            raise AnalysisError( 'W-ASSERT: %s absent' % rel )
        src = ctx.src( rel )
        for a in ast.walk( src.tree ):
            if not isinstance( a, ast.Assert ):
                continue
            n += 1
            t = a.test
            always = ( isinstance( t, ( ast.Tuple, ast.List, ast.Set )) and t.elts ) or ( isinstance( t, ast.Dict ) and t.keys ) \
                or ( isinstance( t, ast.Constant ) and bool( t.value ) and t.value is not True ) or isinstance( t, ast.JoinedStr )
            if always:
                res.bad( src, a, 'assert on a %s: %s' % ( type( t ).__name__.lower(), norm_text( ast.unparse( t ))[:70] ),
                         'the test is a non-empty display / constant and always true ( parenthesised `assert ( condition, message )` ): the condition is never enforced, what it refused is now accepted' )
    res.cells = n
    if not res.findings:
        res.ok( src, src.tree, 'none of the %d asserts of the analysed modules is constantly true' % n )
        res.instances.extend( dict( rule='W-ASSERT', site='(count)', fact='assert #%d' % k, verdict='holds', nontrivial=False ) for k in range( n - 1 ))
    return res


@rule( 'W-CLASSSTATE', props=( 'C18', 'C09', 'C13', 'C19' ), floor=3 )
def w_classstate( ctx ):
    """the state an instance accumulates is its own: a mutable container ( dict / list / set display, or dict() / list() / set() /
    deque() ... ) bound at CLASS level and changed through `self.<name>` in a method ( update / append / [ ] = ... ) is one object shared by
    all instances of the class - a second loader starts with the register map of the first, two connections share a queue - unless
    __init__ binds a fresh one to the instance.  Classes of the replay, client, proxy and poller modules."""
    res = Result( 'W-CLASSSTATE' )
    MUT = ( 'update', 'append', 'extend', 'insert', 'add', 'pop', 'popitem', 'clear', 'setdefault', 'remove', 'appendleft', 'popleft', 'discard' )
    n = 0
    for rel in ( 'history/files.py', 'server/enip/client.py', 'server/enip/get_attribute.py', 'remote/plc_modbus.py', 'remote/plc.py', 'server/enip/poll.py' ):
        if not ctx.model.exists( rel ):
            continue
        src = ctx.src( rel )
        for cd in ast.walk( src.tree ):
            if not isinstance( cd, ast.ClassDef ):
                continue
            n += 1
            shared = {}
            for st in cd.body:
                if isinstance( st, ast.Assign ) and len( st.targets ) == 1 and isinstance( st.targets[0], ast.Name ):
                    v = st.value
                    if isinstance( v, ( ast.Dict, ast.List, ast.Set )) or ( isinstance( v, ast.Call ) and ( call_name( v ) or '' ).split( '.' )[-1] in ( 'dict', 'list', 'set', 'deque', 'OrderedDict', 'defaultdict', 'dotdict' )):
                        shared[st.targets[0].id] = st
            # ... or bound to the class from inside a method: self.__class__.<name> = {} / type( self ).<name> = {} / <Class>.<name> = {}
            for f in ast.walk( cd ):
                if isinstance( f, ast.Assign ) and len( f.targets ) == 1 and isinstance( f.targets[0], ast.Attribute ):
                    base_ = f.targets[0].value
                    if dotted( base_ ) in ( 'self.__class__', cd.name, 'cls' ) or pmatch( base_, 'type( self )' ) is not None:
                        v = f.value
                        if isinstance( v, ( ast.Dict, ast.List, ast.Set )) or ( isinstance( v, ast.Call ) and ( call_name( v ) or '' ).split( '.' )[-1] in ( 'dict', 'list', 'set', 'deque', 'OrderedDict', 'defaultdict', 'dotdict' )):
                            shared.setdefault( f.targets[0].attr, f )
            if not shared:
                res.ok( src, cd, 'class %s: no mutable container bound at class level' % cd.name, nontrivial=False )
                continue
            own = set()			# bound per instance somewhere ( __init__ or any method: self.<name> = ... )
            for f in ast.walk( cd ):
                if isinstance( f, ast.Assign ):
                    for t in f.targets:
                        for x in ast.walk( t ):
                            if isinstance( x, ast.Attribute ) and isinstance( x.ctx, ast.Store ) and dotted( x.value ) == 'self':
                                own.add( x.attr )
            for name, st in sorted( shared.items()):
                if name in own:
                    res.ok( src, st, 'class %s: %s is re-bound per instance' % ( cd.name, name ))
                    continue
                muts = [ c for c in ast.walk( cd ) if ( isinstance( c, ast.Call ) and isinstance( c.func, ast.Attribute ) and c.func.attr in MUT and dotted( c.func.value ) == 'self.' + name )
                         or ( isinstance( c, ast.Subscript ) and isinstance( c.ctx, ( ast.Store, ast.Del )) and dotted( c.value ) == 'self.' + name )
                         or ( isinstance( c, ast.AugAssign ) and dotted( c.target ) == 'self.' + name ) ]
                if muts:
                    res.bad( src, muts[0], 'class %s: %s is bound once at class level ( %s ) and changed through self.%s' % ( cd.name, name, norm_text( ast.unparse( st ))[:40], name ),
                             'every instance changes the SAME container: what one replay / connection / poller has accumulated is what the next one starts with ( e.g. a second replay begins with the end-of-history register map of the first )', func=cd.name )
                else:
                    res.ok( src, st, 'class %s: %s is a class-level table that instances only read' % ( cd.name, name ))
    if n < 3:
        raise AnalysisError( 'W-CLASSSTATE: classes not found' )
    # ... and what one RUN of a command-line entry point was told ( -S, --route-path ... ) stays with that run: main() never stores into an
    # attribute of a CLASS ( connector_cls.route_path_default = False with connector_cls = connector ): every later connection made in the
    # same process would inherit the option - a client asked to use the default route path silently drops it
    for rel in ( 'server/enip/client.py', 'server/enip/get_attribute.py', 'server/enip/poll.py' ):
        if not ctx.model.exists( rel ):
            continue
        src = ctx.src( rel )
        classes = { c.name for c in src.tree.body if isinstance( c, ast.ClassDef ) }
        for fn_ in [ f for f in src.tree.body if isinstance( f, ast.FunctionDef ) and f.name == 'main' ]:
            bound = { t.id for a in ast.walk( fn_ ) if isinstance( a, ast.Assign ) and isinstance( a.value, ( ast.Name, ast.Attribute )) and ( dotted( a.value ) or '' ).split( '.' )[-1] in classes
                      for t in a.targets if isinstance( t, ast.Name ) }
            stores = [ a for a in ast.walk( fn_ ) if isinstance( a, ( ast.Assign, ast.AugAssign )) for t in ( a.targets if isinstance( a, ast.Assign ) else [ a.target ] )
                       if isinstance( t, ast.Attribute ) and isinstance( t.value, ast.Name ) and ( t.value.id in classes or t.value.id in bound ) ]
            n += 1
            if stores:
                res.bad( src, stores[0], '%s main() stores an option of this run on a class ( %s )' % ( rel, norm_text( stores[0] )[:70] ),
                         'the class attribute outlives the run: every connector created later in the same process carries the option - a later client that wants the default route path 1/0 sends none, and a device configured with another route path serves it' )
            else:
                res.ok( src, fn_, '%s main(): the options of a run are handed to the instance and the operations, never stored on a class' % rel )
    return res


@rule( 'R-DECIDE', props=( 'C10', 'C02' ), floor=2 )
def r_decide( ctx ):
    """decide: the transition is taken iff the predicate's result is TRUTHY - the library's predicates return counts and sizes as well as
    booleans ( the gate in front of the extended-status dfa returns .size itself ): __call__ hands the predicate's result to execute, execute
    answers the target state for every truthy result and None for every falsy one - decided by value on 10 results."""
    res = Result( 'R-DECIDE' )
    src = ctx.src( AUTOMATA )
    ex = src.get( 'decide.execute' ); ca = src.get( 'decide.__call__' )
    TRUTH = ex.args.args[1].arg
    wrong = []
    for truth in ( True, False, 0, 1, 2, 7, None, 'x', '', ( 0, ) ):
        env = { TRUTH: truth, 'self.state': 'STATE', 'self.name': 'n' }
        try:
            out = run_block( ex.body, env, ignore_calls=( 'log', ))
        except NoFold as exc:
            raise AnalysisError( 'decide.execute: not a decision fragment: %s' % exc )
        res.cells += 1
        want = 'STATE' if truth else None
        if out.kind != 'return' or out.value != want:
            wrong.append(( truth, out ))
    if wrong:
        res.bad( src, ex, 'decide.execute( %r ) -> %s' % ( wrong[0][0], wrong[0][1] ),
                 'a predicate returning a count ( status_ext.size = 2 ) no longer takes its transition: the gated sub-grammar is skipped, the machine completes having consumed less than the counts it parsed announce, and the next symbols are handed to the enclosing grammar ( %d of %d results differ )' % ( len( wrong ), res.cells ))
    else:
        res.ok( src, ex, 'decide.execute answers the target for every truthy result, None for every falsy one ( %d results )' % res.cells )
    seen = []
    env = { 'self.predicate': lambda **kw: ( seen.append( sorted( kw )) or 'RESULT' ), 'self.execute': lambda t, **kw: ( 'EXEC', t ) }
    for a in ca.args.args[1:]:
        env[a.arg] = a.arg.upper()
    try:
        out = run_block( ca.body, env, ignore_calls=( 'log', ))
    except NoFold as exc:
        raise AnalysisError( 'decide.__call__: not a decision fragment: %s' % exc )
    if out.kind == 'return' and out.value == ( 'EXEC', 'RESULT' ) and seen and seen[0] == [ 'data', 'machine', 'path', 'source' ]:
        res.ok( src, ca, 'decide.__call__ evaluates the predicate on ( machine, source, path, data ) and hands its result to execute unchanged' )
    else:
        res.bad( src, ca, 'decide.__call__ -> %s' % ( out, ), 'the predicate\'s own result decides the transition' )
    return res


@rule( 'W-ITERDEL', props=( 'C14', 'C08', 'C06' ), floor=1 )
def w_iterdel( ctx ):
    """no loop deletes from the mapping whose LIVE view it iterates ( for k in d / d.keys() / d.items() / d.values(): ... del d[k] / d.pop( k ) /
    d.clear() ): the next step of the iteration raises RuntimeError - behind a Forward Close that removed its connection the reply is a
    failure status although the connection is gone.  A snapshot ( list( ... ), tuple( ... ), sorted( ... ), dict( ... ) ) is the accepted idiom."""
    res = Result( 'W-ITERDEL' )
    files = [ 'automata.py', 'dotdict.py', 'misc.py', 'server/network.py', 'server/enip/main.py', 'server/enip/device.py', 'server/enip/logix.py', 'server/enip/ucmm.py',
              'server/enip/client.py', 'server/enip/get_attribute.py', 'server/enip/parser.py', 'history/files.py', 'history/times.py', 'remote/plc_modbus.py', 'remote/pymodbus_fixes.py' ]
    loops = hits = 0
    for rel in files:
        if not ctx.model.exists( rel ):
            continue
        src = ctx.src( rel )
        for lp in ast.walk( src.tree ):
            if not isinstance( lp, ast.For ):
                continue
            loops += 1
            it = lp.iter
            if isinstance( it, ast.Call ) and isinstance( it.func, ast.Attribute ) and it.func.attr in ( 'items', 'keys', 'values', 'iteritems', 'iterkeys', 'itervalues' ) and not it.args:
                base = dotted( it.func.value )
            else:
                base = dotted( it ) if isinstance( it, ( ast.Name, ast.Attribute )) else None
            if not base:
                continue
            for n in ast.walk( lp ):
                shrink = ( isinstance( n, ast.Delete ) and any( isinstance( t, ast.Subscript ) and dotted( t.value ) == base for t in n.targets )) \
                    or ( isinstance( n, ast.Call ) and isinstance( n.func, ast.Attribute ) and n.func.attr in ( 'pop', 'popitem', 'clear' ) and dotted( n.func.value ) == base
                         and it is not n )
                if not shrink:
                    continue
                # a removal directly followed by leaving the loop ( break / return ) never reaches the next iteration step
                st = n if isinstance( n, ast.stmt ) else stmt_of( src, n )
                blk = src.parent.get( st )
                sibs = next(( getattr( blk, f_ ) for f_ in ( 'body', 'orelse', 'finalbody' ) if isinstance( getattr( blk, f_, None ), list ) and st in getattr( blk, f_ )), [] )
                after = sibs[sibs.index( st ) + 1:] if st in sibs else []
                if after and isinstance( after[-1], ( ast.Break, ast.Return, ast.Raise )):
                    continue
                hits += 1
                res.bad( src, n, 'the loop over the live view `%s` removes from `%s` ( %s )' % ( norm_text( it ), base, norm_text( st )[:60] ),
                         'the iteration step after the removal raises RuntimeError ( dictionary changed size during iteration ): the request that removed an entry - a Forward Close of an open connection - is answered with a failure status although it was carried out' )
    # ---- tables shared by all sessions and changed by their threads without a lock ( confirmed by reading; one line of reason each ) are never
    #      walked LIVE: a loop or comprehension over them goes through an atomic snapshot ( list( d ) / list( d.keys() ) / list( d.items() ) /
    #      tuple / sorted / dict ) - another session's Forward Open or end-of-connection purge during a live walk raises RuntimeError in THIS one
    SHARED = (( 'server/enip/device.py', 'self.forwards', 'Connection_Manager.forwards: class-level, one entry per open connection of every session' ),
              ( 'server/enip/device.py', 'self.__class__.forwards', 'the same table' ), ( 'server/enip/device.py', 'Connection_Manager.forwards', 'the same table' ),
              ( 'server/enip/ucmm.py', 'self.__class__.sessions', 'UCMM.sessions: class-level, one entry per registered peer' ), ( 'server/enip/ucmm.py', 'self.sessions', 'the same table' ),
              ( 'server/enip/main.py', 'connections', 'main.connections: module-level statistics, one entry per live connection' ),
              ( 'server/enip/device.py', 'symbol', 'device.symbol: the module-level tag table - redirect_tag adds to it whenever a tag is set up, from any session' ),
              ( 'server/enip/device.py', 'directory', 'device.directory: the module-level object directory - Objects are created on demand' ))
    SNAP = ( 'list', 'tuple', 'sorted', 'dict', 'set', 'frozenset', 'len' )
    walks = 0
    for rel, base, why in SHARED:
        if not ctx.model.exists( rel ):
            continue
        src = ctx.src( rel )
        for n in ast.walk( src.tree ):
            its = [ n.iter ] if isinstance( n, ast.For ) else [ g.iter for g in n.generators ] if isinstance( n, ( ast.ListComp, ast.SetComp, ast.DictComp, ast.GeneratorExp )) else []
            for it in its:
                view = it.func.value if isinstance( it, ast.Call ) and isinstance( it.func, ast.Attribute ) and it.func.attr in ( 'items', 'keys', 'values' ) and not it.args else it
                if dotted( view ) != base:
                    continue
                walks += 1
                locked = any( isinstance( a, ast.With ) and any( 'lock' in ( txt( i_.context_expr ) or '' ).lower() for i_ in a.items ) for a in src.ancestors( n ))
                if locked:
                    res.ok( src, n, 'walk over the shared table %s under a lock' % base )
                else:
                    hits += 1
                    res.bad( src, n, 'live walk over the shared table `%s` ( %s )' % ( norm_text( it ), why ),
                             'another session that opens or closes a connection while this loop or comprehension runs changes the table under it: RuntimeError ( dictionary changed size during iteration ) - a valid Forward Close of this session\'s own connection is answered 0x08' )
    # ---- the lookup tables every request reads without a lock are re-registered IN PLACE: the function that stores an entry removes nothing from
    #      the table on its way there ( `del t[k]` ... `t[k] = v` leaves a window in which a request of another session finds no such tag )
    stores_seen = 0
    for rel, base in (( 'server/enip/device.py', 'symbol' ), ( 'server/enip/device.py', 'directory' )):
        if not ctx.model.exists( rel ):
            continue
        src = ctx.src( rel )
        for fn in [ f for f in ast.walk( src.tree ) if isinstance( f, ast.FunctionDef ) ]:
            own = [ x for x in walk_no_nested( fn ) ]
            stores = [ x for x in own if isinstance( x, ( ast.Assign, ast.AugAssign )) and any( isinstance( t_, ast.Subscript ) and dotted( t_.value ) == base
                                                                                              for t_ in ( x.targets if isinstance( x, ast.Assign ) else [ x.target ] )) ]
            stores += [ stmt_of( src, x ) for x in own if isinstance( x, ast.Call ) and isinstance( x.func, ast.Attribute ) and x.func.attr in ( 'setdefault', 'update' ) and dotted( x.func.value ) == base ]
            if not stores:
                continue
            stores_seen += len( stores )
            removes = [ x for x in own if ( isinstance( x, ast.Delete ) and any( isinstance( t_, ast.Subscript ) and dotted( t_.value ) == base for t_ in x.targets ))
                        or ( isinstance( x, ast.Call ) and isinstance( x.func, ast.Attribute ) and x.func.attr in ( 'pop', 'popitem', 'clear' ) and dotted( x.func.value ) == base ) ]
            if not removes:
                res.ok( src, stores[0], '%s: stores into the lookup table `%s` and removes nothing from it' % ( src.qualname_of( fn ), base ))
                continue
            cfg_ = CFG( fn )
            for r_ in removes:
                rs = r_ if isinstance( r_, ast.stmt ) else stmt_of( src, r_ )
                rn = cfg_.node_of( rs )
                ahead = [ st for st in stores if rn is not None and cfg_.node_of( st ) in cfg_.reachable( rn ) ]
                if ahead or rn is None:
                    hits += 1
                    res.bad( src, rs, '%s removes from the lookup table `%s` ( %s ) on its way to storing into it' % ( src.qualname_of( fn ), base, norm_text( rs )[:50] ),
                             'between the removal and the store a request of another session finds no entry: a tag that exists all along is answered as unknown' )
                else:
                    res.ok( src, rs, '%s: the removal from `%s` lies behind its stores' % ( src.qualname_of( fn ), base ))
    if stores_seen < 2:
        raise AnalysisError( 'W-ITERDEL: stores into the lookup tables symbol / directory found %d times ( anchors lost? )' % stores_seen )
    # a snapshot `for k in list( self.forwards.keys() )` has the Call as its iter and is not a walk over the table; count them for the record
    snaps = sum( 1 for rel, base, why in SHARED if ctx.model.exists( rel ) for n in ast.walk( ctx.src( rel ).tree ) if isinstance( n, ast.Call ) and call_name( n ) in SNAP and n.args
                 and base in ( dotted( n.args[0] ), dotted( n.args[0].func.value ) if isinstance( n.args[0], ast.Call ) and isinstance( n.args[0].func, ast.Attribute ) else None ))
    res.note( 'shared tables: %d live walks, %d snapshots' % ( walks, snaps ))
    if snaps < 1:
        raise AnalysisError( 'W-ITERDEL: no snapshot of a shared table found ( anchors lost? )' )
    if loops < 100:
        raise AnalysisError( 'W-ITERDEL: only %d loops scanned' % loops )
    # positive fixture: the rule's own pattern must match a known-bad loop
    fx = ast.parse( 'for k,v in d.items():\n    if v:\n        del d[k]\n' ).body[0]
    if not any( isinstance( n, ast.Delete ) for n in ast.walk( fx )):
        raise AnalysisError( 'W-ITERDEL fixture did not parse' )
    if not hits:
        res.ok( ctx.src( 'server/enip/device.py' ), ctx.src( 'server/enip/device.py' ).tree, 'no loop removes from the mapping whose live view it iterates ( %d loops scanned )' % loops )
    return res


@rule( 'W-ATTRTABLE', props=( 'C09', 'C03' ), floor=1 )
def w_attrtable( ctx ):
    """an Object's attribute table only grows or has entries REPLACED ( one dict store, atomic for every other session's lookup ): nothing in the
    request-serving modules removes an entry ( pop / del / clear on <object>.attribute ).  A replacement done as "remove, log, store" opens a
    window in which a request of another session is answered 0x05 for a tag that exists before and after."""
    res = Result( 'W-ATTRTABLE' )
    scanned = hits = 0
    for rel in ( 'server/enip/logix.py', 'server/enip/device.py', 'server/enip/main.py', 'server/enip/ucmm.py', 'server/enip/hart.py' ):
        if not ctx.model.exists( rel ):
            continue
        src = ctx.src( rel )
        for n in ast.walk( src.tree ):
            if isinstance( n, ( ast.Call, ast.Delete )):
                scanned += 1
            bad = None
            if isinstance( n, ast.Call ) and isinstance( n.func, ast.Attribute ) and n.func.attr in ( 'pop', 'popitem', 'clear' ) and isinstance( n.func.value, ast.Attribute ) and n.func.value.attr == 'attribute':
                bad = n
            if isinstance( n, ast.Delete ) and any( isinstance( t, ast.Subscript ) and isinstance( t.value, ast.Attribute ) and t.value.attr == 'attribute' for t in n.targets ):
                bad = n
            if bad is not None:
                hits += 1
                res.bad( src, bad, '%s removes an entry of an Object\'s attribute table ( %s )' % ( src.qualname_of( bad ), norm_text( bad )[:60] ),
                         'between the removal and the store of the replacement the attribute does not exist: a concurrent request of another session is refused with 0x05 ( path destination unknown ) for a tag that is there before and after' )
    if scanned < 1500:
        raise AnalysisError( 'W-ATTRTABLE: only %d calls scanned' % scanned )
    fx = ast.parse( 'instance.attribute.pop( str( att ), None )' ).body[0].value
    if not ( isinstance( fx.func, ast.Attribute ) and fx.func.attr == 'pop' and fx.func.value.attr == 'attribute' ):
        raise AnalysisError( 'W-ATTRTABLE fixture did not match' )
    if not hits:
        res.ok( ctx.src( 'server/enip/logix.py' ), ctx.src( 'server/enip/logix.py' ).get( 'setup_tag' ), 'no entry of an attribute table is ever removed: replacements are single stores ( %d calls scanned )' % scanned )
    return res
