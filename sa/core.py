"""Core of the static analyser: source model (parsed ASTs with parent links and qualified names),
rule registry, findings, analysis errors.  Stdlib only; never imports a module of the repository
under analysis."""
import ast, os, re, sys, time, json, hashlib

REPO = os.environ.get( 'VERIF_REPO', '/repo' )
VERIF = os.path.dirname( os.path.dirname( os.path.abspath( __file__ )))


class AnalysisError( Exception ):
    """The analyser cannot decide (anchor vanished, construct outside the modelled subset)."""


class Finding:
    """One violation of one rule at one construct.  Keyed by rule + function + normalised text."""
    def __init__( self, rule, file, line, func, construct, why ):
        self.rule, self.file, self.line, self.func = rule, file, line, func
        self.construct = norm_text( construct )
        self.why = why

    @property
    def key( self ):
        return '%s|%s|%s' % ( self.rule, self.func, self.construct )

    def as_dict( self ):
        return dict( rule=self.rule, file=self.file, line=self.line, function=self.func,
                     construct=self.construct, why=self.why, key=self.key )

    def human( self ):
        return '  %s:%s %s: %s: %s: %s' % ( self.file, self.line, self.func, self.rule, self.construct, self.why )


def norm_text( s ):
    if isinstance( s, ast.AST ):
        s = ast.unparse( s )
    return re.sub( r'\s+', ' ', str( s )).strip()[:300]


class Result:
    """What a rule looked at and what it found."""
    def __init__( self, rule ):
        self.rule = rule
        self.instances = []		# dicts: site, fact, verdict
        self.findings = []
        self.notes = []
        self.cells = 0			# extra counter for table-style rules

    def ok( self, src, node, fact, nontrivial=True ):
        self.instances.append( dict( rule=self.rule, site=site_of( src, node ), fact=norm_text( fact ),
                                     verdict='holds', nontrivial=bool( nontrivial )))

    def bad( self, src, node, construct, why, func=None ):
        f = Finding( self.rule, src.rel if src else '?', getattr( node, 'lineno', 0 ),
                     func or ( src.qualname_of( node ) if src is not None and node is not None else '?' ),
                     construct, why )
        self.findings.append( f )
        self.instances.append( dict( rule=self.rule, site=site_of( src, node ), fact=f.construct,
                                     verdict='VIOLATES: ' + why, nontrivial=True ))
        return f

    def note( self, text ):
        self.notes.append( text )


def site_of( src, node ):
    if src is None:
        return '?'
    line = getattr( node, 'lineno', 0 ) if node is not None else 0
    qn = src.qualname_of( node ) if node is not None else ''
    return '%s:%s %s' % ( src.rel, line, qn )


class Src:
    """One parsed source file: AST with parents, qualified-name index."""
    def __init__( self, root, rel, text=None ):
        self.rel = rel
        self.path = os.path.join( root, rel )
        if text is not None:
            raw = text.encode( 'utf-8' )			# an in-memory variant of the file (checker self-test)
        else:
            try:
                with open( self.path, 'rb' ) as f:
                    raw = f.read()
            except OSError as exc:
                raise AnalysisError( 'anchor file missing: %s (%s)' % ( rel, exc ))
        self.digest = hashlib.sha256( raw ).hexdigest()
        self.text = raw.decode( 'utf-8', 'replace' )
        try:
            self.tree = ast.parse( self.text, filename=self.path )
        except SyntaxError as exc:
            raise AnalysisError( 'cannot parse %s: %s' % ( rel, exc ))
        self.parent = {}
        self.defs = {}			# qualified name -> FunctionDef/ClassDef (first definition wins? no: last)
        self._index( self.tree, '' )

    def _index( self, node, prefix ):
        for child in ast.iter_child_nodes( node ):
            self.parent[child] = node
            if isinstance( child, ( ast.FunctionDef, ast.AsyncFunctionDef, ast.ClassDef )):
                qn = prefix + child.name
                self.defs.setdefault( qn, [] ).append( child )
                self._index( child, qn + '.' )
            else:
                self._index( child, prefix )

    # ---- a variant of this file in which the calls, inside ONE function, of small local helpers are replaced by the helpers' bodies
    def inlined( self, qualname ):
        """-> a Src whose tree is a copy of this one with, inside function `qualname`, every call of a helper ( a def nested in that function, or a
        module-level def of the same file ) replaced by the helper's body: expression helpers ( body = one `return <expr>` ) where they are
        called, procedure helpers ( no value returned, nothing yielded ) where they are called as a statement.  Parameters are replaced by
        the argument expressions ( defaults for absent ones ); inlined nodes carry the position of the call.  Rules whose anchors are
        statement patterns of one function stay decidable when a refactoring moved a fragment into such a helper."""
        import copy
        new = object.__new__( Src )
        new.rel, new.path, new.digest, new.text = self.rel, self.path, self.digest, self.text
        new.tree = copy.deepcopy( self.tree )
        new.parent, new.defs = {}, {}
        new._index( new.tree, '' )
        fn = new.get( qualname )
        cands = [ d for d in new.tree.body if isinstance( d, ast.FunctionDef ) ] + [ d for d in ast.walk( fn ) if isinstance( d, ast.FunctionDef ) and d is not fn ]
        helpers = {}
        for d in cands:
            a = d.args
            if d.decorator_list or a.vararg or a.kwarg or a.kwonlyargs or getattr( a, 'posonlyargs', [] ):
                continue
            body = [ b for b in d.body if not ( isinstance( b, ast.Expr ) and isinstance( b.value, ast.Constant ) and isinstance( b.value.value, str )) ]
            names = [ x.arg for x in a.args ]
            dflt = dict( zip( names[len( names ) - len( a.defaults ):], a.defaults ))
            if len( body ) == 1 and isinstance( body[0], ast.Return ) and body[0].value is not None:
                helpers[d.name] = ( 'expr', names, dflt, body[0].value )
            elif body and not any( isinstance( x, ( ast.Yield, ast.YieldFrom )) or ( isinstance( x, ast.Return ) and x.value is not None ) for b in body for x in ast.walk( b )) \
                 and not any( isinstance( x, ast.Return ) for x in body[:-1] for x in ast.walk( x )):
                helpers[d.name] = ( 'proc', names, dflt, [ b for b in body if not isinstance( b, ast.Return ) ] )
        if not helpers:
            return new
        def bind( h, call ):
            kind, names, dflt, _ = h
            if len( call.args ) > len( names ) or any( k.arg is None or k.arg not in names for k in call.keywords ) or any( isinstance( x, ast.Starred ) for x in call.args ):
                return None
            m = dict( zip( names, call.args ))
            m.update( { k.arg: k.value for k in call.keywords } )
            for n in names:
                if n not in m:
                    if n not in dflt:
                        return None
                    m[n] = dflt[n]
            return m
        def subst( node, m, site ):
            class Sub( ast.NodeTransformer ):
                def visit_Name( self, n ):
                    return copy.deepcopy( m[n.id] ) if n.id in m and isinstance( n.ctx, ast.Load ) else n
                def visit_BoolOp( self, n ):
                    self.generic_visit( n )
                    if isinstance( n.op, ast.Or ):			# <falsy constant> or X  ->  X
                        vals = [ v for v in n.values[:-1] if not ( isinstance( v, ast.Constant ) and not v.value ) ] + n.values[-1:]
                        return vals[0] if len( vals ) == 1 else ast.BoolOp( op=n.op, values=vals )
                    return n
            out = Sub().visit( copy.deepcopy( node ))
            for x in ast.walk( out ):
                if hasattr( x, 'lineno' ) or isinstance( x, ( ast.expr, ast.stmt )):
                    ast.copy_location( x, site )
            return out
        class Inl( ast.NodeTransformer ):
            def visit_FunctionDef( self, n ):
                if n is not fn and n.name in helpers:
                    return n					# the helper itself stays as it is
                self.generic_visit( n ); return n
            def visit_Call( self, n ):
                self.generic_visit( n )
                h = helpers.get( n.func.id ) if isinstance( n.func, ast.Name ) else None
                if h and h[0] == 'expr':
                    m = bind( h, n )
                    if m is not None:
                        return subst( h[3], m, n )
                return n
            def visit_Expr( self, n ):
                c = n.value
                h = helpers.get( c.func.id ) if isinstance( c, ast.Call ) and isinstance( c.func, ast.Name ) else None
                if h and h[0] == 'proc' and all( isinstance( x, ( ast.Name, ast.Attribute, ast.Constant )) for x in c.args + [ k.value for k in c.keywords ] ):
                    m = bind( h, c )
                    if m is not None:
                        return [ subst( b, m, n ) for b in h[3] ]
                self.generic_visit( n ); return n
        for i, b in enumerate( list( fn.body )):
            pass
        fn.body = [ y for b in fn.body for y in ( lambda r: r if isinstance( r, list ) else [ r ] )( Inl().visit( b )) ]
        ast.fix_missing_locations( new.tree )
        new.parent, new.defs = {}, {}
        new._index( new.tree, '' )
        return new

    # ---- lookups
    def get( self, qualname, required=True, which=-1 ):
        d = self.defs.get( qualname )
        if not d:
            if required:
                raise AnalysisError( 'anchor vanished: %s in %s' % ( qualname, self.rel ))
            return None
        return d[which]

    def cls( self, name, required=True ):
        return self.get( name, required )

    def qualname_of( self, node ):
        names = []
        n = node
        while n is not None:
            if isinstance( n, ( ast.FunctionDef, ast.AsyncFunctionDef, ast.ClassDef )):
                names.append( n.name )
            n = self.parent.get( n )
        return '.'.join( reversed( names )) or '<module>'

    def enclosing( self, node, kinds ):
        n = self.parent.get( node )
        while n is not None and not isinstance( n, kinds ):
            n = self.parent.get( n )
        return n

    def ancestors( self, node ):
        n = self.parent.get( node )
        while n is not None:
            yield n
            n = self.parent.get( n )

    def module_assign( self, name, required=True ):
        """value expression of the last module-level `name = ...`"""
        found = None
        for s in self.tree.body:
            if isinstance( s, ast.Assign ):
                for t in s.targets:
                    if isinstance( t, ast.Name ) and t.id == name:
                        found = s
        if found is None and required:
            raise AnalysisError( 'anchor vanished: module constant %s in %s' % ( name, self.rel ))
        return found

    def class_assign( self, cls, name, required=True ):
        cd = self.get( cls, required )
        found = None
        if cd is not None:
            for s in cd.body:
                if isinstance( s, ast.Assign ):
                    for t in s.targets:
                        if isinstance( t, ast.Name ) and t.id == name:
                            found = s
        if found is None and required:
            raise AnalysisError( 'anchor vanished: class constant %s.%s in %s' % ( cls, name, self.rel ))
        return found


class Model:
    """Lazy table of parsed files of the repository under analysis."""
    def __init__( self, root=None, overrides=None ):
        self.root = root or REPO
        self._src = {}
        self.overrides = dict( overrides or {} )		# rel -> replacement text (self-test variants only)

    def src( self, rel ):
        if rel not in self._src:
            self._src[rel] = Src( self.root, rel, text=self.overrides.get( rel ))
        return self._src[rel]

    def exists( self, rel ):
        return os.path.exists( os.path.join( self.root, rel ))

    def all_python( self, include_tests=False ):
        out = []
        for dp, dn, fn in os.walk( self.root ):
            dn[:] = [ d for d in dn if d not in ( '.git', '__pycache__', 'build', 'dist', 'cpppo.egg-info',
                                                   'vagrant', 'packer', 'docker', '.pytest_cache' ) ]
            for f in fn:
                if f.endswith( '.py' ):
                    rel = os.path.relpath( os.path.join( dp, f ), self.root )
                    if not include_tests and ( f.endswith( '_test.py' ) or rel.startswith( 'tests' + os.sep )):
                        continue
                    out.append( rel )
        return sorted( out )

    def digests( self ):
        return { rel: s.digest[:16] for rel, s in sorted( self._src.items() ) }


# ---------------------------------------------------------------- rule registry

RULES = {}

def rule( rid, props, floor=0, tier='quick', doc='' ):
    """Register a rule.  floor = minimum number of instances it must examine (else ANALYSIS-ERROR)."""
    def deco( fn ):
        RULES[rid] = dict( id=rid, fn=fn, props=tuple( props ), floor=floor, tier=tier,
                           doc=( doc or ( fn.__doc__ or '' )).strip() )
        return fn
    return deco


class Ctx:
    def __init__( self, root=None, tier='quick', overrides=None ):
        self.model = Model( root, overrides )
        self.tier = tier
        self._cache = {}

    def src( self, rel ):
        return self.model.src( rel )

    def cached( self, key, fn ):
        if key not in self._cache:
            self._cache[key] = fn()
        return self._cache[key]


# ---------------------------------------------------------------- small AST helpers shared by rules

def walk_no_nested( node, include_self=False ):
    """ast.walk that does not descend into nested function/class definitions or lambdas."""
    todo = [ node ] if include_self else list( ast.iter_child_nodes( node ))
    while todo:
        n = todo.pop()
        yield n
        for c in ast.iter_child_nodes( n ):
            if isinstance( c, ( ast.FunctionDef, ast.AsyncFunctionDef, ast.ClassDef, ast.Lambda )):
                continue
            todo.append( c )


def dotted( e ):
    """'a.b.c' for Name/Attribute chains, else None."""
    parts = []
    while isinstance( e, ast.Attribute ):
        parts.append( e.attr )
        e = e.value
    if isinstance( e, ast.Name ):
        parts.append( e.id )
        return '.'.join( reversed( parts ))
    return None


def call_name( call ):
    """dotted name of the callee of an ast.Call, or '' """
    return dotted( call.func ) or ''


def is_call_to( node, *names ):
    """node is a Call whose callee's dotted name equals, or ends with '.'+name, one of names"""
    if not isinstance( node, ast.Call ):
        return False
    cn = call_name( node )
    if not cn and isinstance( node.func, ast.Attribute ):
        cn = '?.' + node.func.attr
    return any( cn == n or cn.endswith( '.' + n ) for n in names )


def const_value( e, default=None ):
    try:
        return ast.literal_eval( e )
    except Exception:
        return default


def names_in( node ):
    return { n.id for n in ast.walk( node ) if isinstance( n, ast.Name ) }


def attrs_in( node ):
    return { n.attr for n in ast.walk( node ) if isinstance( n, ast.Attribute ) }


def dotted_in( node ):
    out = set()
    for n in ast.walk( node ):
        if isinstance( n, ( ast.Attribute, ast.Name )):
            d = dotted( n )
            if d:
                out.add( d )
    return out


def stmt_of( src, node ):
    """the statement that contains node"""
    n = node
    while n is not None and not isinstance( n, ast.stmt ):
        n = src.parent.get( n )
    return n


# ---------------------------------------------------------------- AST pattern matching

_PAT_CACHE = {}

_MIRROR = { ast.Lt: ast.Gt, ast.Gt: ast.Lt, ast.LtE: ast.GtE, ast.GtE: ast.LtE, ast.Eq: ast.Eq, ast.NotEq: ast.NotEq, ast.Is: ast.Is, ast.IsNot: ast.IsNot }


class Binds( dict ):
    """bindings of a successful match: always truthy, even when empty"""
    def __bool__( self ):
        return True

def pmatch( node, pattern, binds=None ):
    """Match an expression/statement AST against a pattern written as Python source.  Names starting with
    '_' in the pattern are wildcards binding any sub-expression (same wildcard = structurally equal
    sub-expressions); '__' alone matches anything without binding.  Returns the bindings dict or None."""
    if pattern not in _PAT_CACHE:
        mod = ast.parse( pattern )
        body = mod.body[0]
        _PAT_CACHE[pattern] = body.value if isinstance( body, ast.Expr ) else body
    b = Binds( binds or {} )
    pat = _PAT_CACHE[pattern]
    if isinstance( node, ast.Expr ) and isinstance( pat, ast.expr ):
        node = node.value				# an expression statement matches an expression pattern
    return b if _pm( node, pat, b ) else None


def _pm( n, p, b ):
    if isinstance( p, ast.Name ) and p.id.startswith( '_' ):
        if p.id == '__':
            return True
        if p.id in b:
            return isinstance( n, ast.AST ) and ast.unparse( b[p.id] ) == ast.unparse( n )
        if not isinstance( n, ast.AST ):
            return False
        b[p.id] = n
        return True
    if type( n ) is not type( p ):
        return False
    if isinstance( p, ast.Compare ) and len( p.ops ) == 1 and len( n.ops ) == 1:
        # a single comparison also matches its mirror image ( a < b  ==  b > a, a == b  ==  b == a, a is None  ==  None is a ): the
        # orientation of a comparison carries no meaning
        b1 = Binds( b )
        if _pm( n.left, p.left, b1 ) and type( n.ops[0] ) is type( p.ops[0] ) and _pm( n.comparators[0], p.comparators[0], b1 ):
            b.update( b1 )
            return True
        if _MIRROR.get( type( n.ops[0] )) is type( p.ops[0] ):
            b2 = Binds( b )
            if _pm( n.comparators[0], p.left, b2 ) and _pm( n.left, p.comparators[0], b2 ):
                b.update( b2 )
                return True
        return False
    if isinstance( p, ast.AST ):
        for f in p._fields:
            if f in ( 'ctx', 'type_comment', 'kind' ):
                continue
            if not _pm( getattr( n, f, None ), getattr( p, f, None ), b ):
                return False
        return True
    if isinstance( p, list ):
        return len( n ) == len( p ) and all( _pm( x, y, b ) for x, y in zip( n, p ))
    return n == p


def pfind( root, pattern, nested=True ):
    """all ( node, bindings ) under root matching pattern"""
    out = []
    it = ast.walk( root ) if nested else walk_no_nested( root, include_self=True )
    for n in it:
        if isinstance( n, ast.Expr ):
            continue				# its value is visited as well; avoid reporting it twice
        m = pmatch( n, pattern )
        if m is not None:
            out.append(( n, m ))
    return out


def txt( node ):
    """whitespace-free normalised source of a node"""
    s = ast.unparse( node ) if isinstance( node, ast.AST ) else str( node )
    return re.sub( r'\s+', '', s ).replace( '"', "'" )


class Matcher:
    """pattern matching with bindings shared across several patterns: wildcards bound by one match constrain the following ones,
    so a rule can follow a *role* (the accumulator, the loop variable ...) instead of a fixed local name"""
    def __init__( self ):
        self.b = Binds()

    def m( self, node, pattern ):
        r = pmatch( node, pattern, self.b )
        if r is not None:
            self.b = r
            return True
        return False

    def find( self, root, pattern, nested=True ):
        """first node under root matching pattern (bindings are kept); None if none"""
        it = ast.walk( root ) if nested else walk_no_nested( root, include_self=True )
        for n in it:
            if isinstance( n, ast.Expr ):
                continue
            r = pmatch( n, pattern, self.b )
            if r is not None:
                self.b = r
                return n
        return None

    def all( self, root, pattern ):
        return [ n for n, m in pfind( root, pattern ) if pmatch( n, pattern, self.b ) is not None ]

    def name( self, w ):
        v = self.b.get( w )
        return v.id if isinstance( v, ast.Name ) else ( ast.unparse( v ) if v is not None else None )
