"""C04: fragmented transfers - the structural / algebraic clauses of Logix.reply_elements and of the read/write branches of Logix.request.

What is decided here is the *form* of the arithmetic, by algebra on a linear normal form (not by evaluating it on sample numbers):
quotient/remainder of the byte offset by the element size, the budget rounded UP to whole elements (floor( N / d ) with N linear equals
ceil( X / d ) for all X >= 0, d >= 1  iff  N = X + d - 1), at least one element, the reply clipped to the requested end, progress
(beg < end) asserted on every exit, and the completion status chosen by `end == endactual` alone for fixed-size elements."""
import ast

from .core import ( rule, Result, AnalysisError, Matcher, dotted, call_name, is_call_to, names_in, attrs_in, walk_no_nested,
                    pmatch, pfind, txt, norm_text )
from .fold import try_fold, NoFold
from .cfg import CFG
from .rules_paths import linear, _canon, LocalDefs

LOGIX = 'server/enip/logix.py'


def _roles( src ):
    """names by role: the 5-tuple returned by reply_elements and unpacked by Logix.request, position by position"""
    re_ = src.get( 'Logix.reply_elements' )
    rets = [ r for r in re_.body if isinstance( r, ast.Return ) and isinstance( r.value, ast.Tuple ) ]
    if not rets or len( rets[-1].value.elts ) != 5 or not all( isinstance( e, ast.Name ) for e in rets[-1].value.elts ):
        raise AnalysisError( 'Logix.reply_elements: `return ( beg, end, endactual, offremains, max_size )` not found' )
    return re_, rets[-1], [ e.id for e in rets[-1].value.elts ]


def _ceil_div( e, X, d ):
    """classify expression e as a division of the linear quantity X (a { atom: coeff } normal form) by the atom d, rounded:
    -> ( 'ceil' | 'floor' | 'other', detail ) or None when e is not a recognised rounding-division form"""
    # idioms: -( -X // d ), math.ceil( X / d ), ( X - 1 ) // d + 1, and the general  L // d  with L linear
    m = pmatch( e, '-( -_x // _d )' ) or pmatch( e, '-(( -_x ) // _d )' )
    if m is not None and txt( m['_d'] ) == d:
        lx = linear( m['_x'] )
        return ( 'ceil', 'negated floor of the negation' ) if lx is not None and _canon( lx ) == _canon( X ) else ( 'other', 'numerator %s' % norm_text( m['_x'] ))
    m = pmatch( e, 'math.ceil( _x / _d )' ) or pmatch( e, 'int( math.ceil( _x / _d ))' ) or pmatch( e, 'int( math.ceil( float( _x ) / _d ))' )
    if m is not None and txt( m['_d'] ) == d:
        lx = linear( m['_x'] )
        return ( 'ceil', 'math.ceil' ) if lx is not None and _canon( lx ) == _canon( X ) else ( 'other', 'numerator %s' % norm_text( m['_x'] ))
    # general: ( L // d ) + c0
    lin = None
    c0 = 0
    body = e
    if isinstance( e, ast.BinOp ) and isinstance( e.op, ( ast.Add, ast.Sub )) and isinstance( try_fold( e.right ), int ) and not isinstance( e.right, ast.BinOp ):
        c0 = try_fold( e.right ) * ( 1 if isinstance( e.op, ast.Add ) else -1 )
        body = e.left
    if isinstance( body, ast.BinOp ) and isinstance( body.op, ast.FloorDiv ) and txt( body.right ) == d:
        lin = linear( body.left )
    elif is_call_to( body, 'int' ) and body.args and isinstance( body.args[0], ast.BinOp ) and isinstance( body.args[0].op, ast.Div ) and txt( body.args[0].right ) == d:
        lin = linear( body.args[0].left )			# int( L / d ) == L // d for L >= 0
    if lin is None:
        return None
    # L = X + k*d + c ?   ( floor( L / d ) + c0 == k + c0 + floor(( X + c ) / d ))
    rest = dict( lin )
    for a, co in X.items():
        if a == '':
            continue
        if rest.get( a ) != co:
            return ( 'other', 'numerator %s is not the offset remainder plus the budget' % norm_text( body ))
        del rest[a]
    k = rest.pop( d, 0 )
    c = rest.pop( '', 0 ) - X.get( '', 0 )
    if rest:
        return ( 'other', 'numerator has extra terms %s' % sorted( rest ))
    k += c0
    # equals ceil( X / d ) for all X >= 0, d >= 1  iff  ( k, c ) == ( 1, -1 );  equals floor iff ( 0, 0 )
    if ( k, c ) == ( 1, -1 ):
        return ( 'ceil', 'floor(( X + d - 1 ) / d )' )
    if ( k, c ) == ( 0, 0 ):
        return ( 'floor', 'rounds DOWN: with X = 1, d = 2 it yields 0 elements where 1 is needed' )
    # witness: find small X, d where k + floor(( X + c ) / d ) != ceil( X / d )
    for dd in ( 1, 2, 4, 8 ):
        for xx in range( 0, 3 * dd + 2 ):
            if k + ( xx + c ) // dd != -( -xx // dd ):
                return ( 'other', 'differs from ceil( X / d ): X = %d, d = %d gives %d instead of %d' % ( xx, dd, k + ( xx + c ) // dd, -( -xx // dd )))
    return ( 'other', 'k = %d, c = %d' % ( k, c ))


@rule( 'F-FRAG', props=( 'C04', ), floor=8 )
def f_frag( ctx ):
    """Logix.reply_elements: offset -> ( whole elements skipped, remainder ); budget rounded up to whole elements, at least one; reply clipped
    to the requested end; progress asserted"""
    res = Result( 'F-FRAG' )
    src = ctx.src( LOGIX )
    fn, ret, ( BEG, END, ENDACTUAL, OFFREM, MAXSIZE ) = _roles( src )
    ld = LocalDefs( fn )
    # ---- element size and byte offset
    M = Matcher()
    q = None
    for s in walk_no_nested( fn ):
        m_ = pmatch( s.value, '_off // _siz' ) if isinstance( s, ast.Assign ) and isinstance( s.targets[0], ast.Name ) else None
        if m_ is not None and isinstance( m_['_off'], ast.Name ) and isinstance( m_['_siz'], ast.Name ):
            q = s; M.b = m_
            break
    if q is None:
        # divmod idiom
        for s in walk_no_nested( fn ):
            if isinstance( s, ast.Assign ) and isinstance( s.targets[0], ast.Tuple ) and M.m( s.value, 'divmod( _off, _siz )' ):
                q = s
                break
    if q is None:
        raise AnalysisError( 'reply_elements: the quotient of the byte offset by the element size not found' )
    OFF, SIZ = M.name( '_off' ), M.name( '_siz' )
    if isinstance( q.targets[0], ast.Tuple ):
        Q = q.targets[0].elts[0].id
        rem_ok = dotted( q.targets[0].elts[1] ) == OFFREM
    else:
        Q = q.targets[0].id
        rdefs = ld.defs.get( OFFREM, [] )
        rem_ok = bool( rdefs ) and all(
            pmatch( d, '%s %% %s' % ( OFF, SIZ )) is not None
            or ( linear( d ) is not None and _canon( linear( d )) in ( _canon( { OFF: 1, '%s*%s' % ( Q, SIZ ): -1 } ), ))
            or pmatch( d, '%s - %s * %s' % ( OFF, Q, SIZ )) is not None or pmatch( d, '%s - %s * %s' % ( OFF, SIZ, Q )) is not None
            for d in rdefs )
    if rem_ok:
        res.ok( src, q, 'offset split into whole elements skipped ( %s // %s ) and the remainder within the element' % ( OFF, SIZ ))
    else:
        res.bad( src, q, 'remainder of the byte offset: %s' % [ norm_text( d ) for d in ld.defs.get( OFFREM, [] ) ],
                 'the bytes into the first element must be offset - ( offset // size ) * size (offset % size); otherwise the next fragment starts at the wrong element' )
    # the element size: the tag's own for reads; for the write services it may be re-bound - under a test that names exactly the write
    # services - to the size of the ( basic ) type the request transmits: its byte offset counts elements of THAT type
    szs = [ a for a in walk_no_nested( fn ) if isinstance( a, ast.Assign ) and any( dotted( t ) == SIZ for t in a.targets ) ]
    own = [ a for a in szs if pmatch( a.value, 'attribute.parser.struct_calcsize' ) is not None and src.parent.get( a ) is fn ]
    wr = [ a for a in szs if a not in own ]
    def write_sized( a ):
        g = src.parent.get( a )
        return ( isinstance( g, ast.If ) and a in g.body and { 'WR_TAG_RPY', 'WR_FRG_RPY' } <= attrs_in( g.test ) and not { 'RD_TAG_RPY', 'RD_FRG_RPY' } & attrs_in( g.test )
                 and pmatch( a.value, 'typed_data.datasize( data[context].type )' ) is not None and a.lineno > own[0].lineno and a.lineno < q.lineno )
    # ... for EVERY fixed-size type the type table admits ( BOOL .. LREAL ), and for no other: the part of the guard that speaks about the
    # transmitted type is evaluated for each type code
    from .grammar import grammar_of as _gof
    g_ = _gof( ctx )
    FIXED = ( 'BOOL', 'SINT', 'USINT', 'INT', 'UINT', 'DINT', 'UDINT', 'LINT', 'ULINT', 'REAL', 'LREAL' )
    OTHER = ( 'STRING', 'SSTRING', 'STRUCT' )
    def type_guard_value( test, code ):
        class Sub( ast.NodeTransformer ):
            def visit_Attribute( self, n ):
                if n.attr == 'tag_type' and isinstance( n.value, ast.Name ) and n.value.id in g_.classes:
                    v = g_.class_const( n.value.id, 'tag_type' )
                    return ast.Constant( value=v ) if isinstance( v, int ) else n
                if n.attr == 'type' and 'context' in txt( n.value ):
                    return ast.Constant( value=code )
                self.generic_visit( n ); return n
            def visit_Call( self, n ):
                if isinstance( n.func, ast.Attribute ) and n.func.attr == 'get' and n.args and try_fold( n.args[0] ) == 'type':
                    return ast.Constant( value=code )
                self.generic_visit( n ); return n
        conj = test.values if isinstance( test, ast.BoolOp ) and isinstance( test.op, ast.And ) else [ test ]
        about = [ c_ for c_ in conj if 'type' in txt( c_ ) and 'WR_' not in txt( c_ ) ]
        if not about:
            return True
        vals = [ try_fold( Sub().visit( ast.parse( ast.unparse( c_ ), mode='eval' ).body ), default=None ) for c_ in about ]
        return None if any( v_ is None for v_ in vals ) else all( vals )
    for a in wr:
        gd = src.parent.get( a )
        if not isinstance( gd, ast.If ):
            continue
        wrong_ = []
        for nm in FIXED + OTHER:
            code = g_.class_const( nm, 'tag_type' )
            v_ = type_guard_value( gd.test, code )
            if v_ is None:
                # a guard that also looks at the TAG's type: not decided here - the whole-function table at the end of this rule writes every
                # narrower type into every wider tag and decides it by value
                res.note( 'the type guard of the write element size looks at more than the transmitted type ( %s ): left to the whole-function table' % norm_text( gd.test ))
                wrong_ = None
                break
            if bool( v_ ) != ( nm in FIXED ):
                wrong_.append( nm )
        if wrong_ is None:
            pass
        elif wrong_:
            res.bad( src, gd, 'the write element size is that of the transmitted type for %s' % ( 'all but ' + ', '.join( w for w in wrong_ if w in FIXED ) if any( w in FIXED for w in wrong_ ) else 'also ' + ', '.join( wrong_ )),
                     'the type table admits BOOL .. LREAL data into wider tags; for a type left out of the guard the byte offset of a tile is converted with the TAG\'s element size again: tiles from the second on land on the wrong elements ( acknowledged 0x00 ) or are refused' )
        else:
            res.ok( src, gd, 'the transmitted type\'s size is used for every fixed-size type ( %d type codes evaluated ), the tag\'s for text / UDT types' % len( FIXED + OTHER ))
    if len( own ) == 1 and own[0].lineno < q.lineno and all( write_sized( a ) for a in wr ):
        res.ok( src, own[0], 'element size = attribute.parser.struct_calcsize' + ( '; for the write services: the size of the type transmitted' if wr else '' ))
    else:
        res.bad( src, fn, 'element size %s' % [ norm_text( a.value ) for a in szs ], 'byte offsets of reads must be converted with the element size of the tag\'s own type ( of writes: with the tag\'s or the transmitted type\'s )' )
    # the size the write offsets are converted with is the size the elements occupy on the wire: typed_data.datasize( type, n ) is exactly
    # n times the struct size of the type ( no rounding up to words: one-octet types would report 2 octets per element - fragments land at
    # half the addressed index, and one starting beyond the end of the tag passes every bounds assertion )
    psrc = ctx.src( 'server/enip/parser.py' )
    ds = psrc.get( 'typed_data.datasize' )
    rets = [ r_ for r_ in ast.walk( ds ) if isinstance( r_, ast.Return ) ]
    # ( by value: the body is evaluated for the element sizes 1, 2, 4, 8 and counts 0, 1, 3, 7 )
    from .fold import run_block, Record, NoFold as NoFold_
    dpar = [ a_.arg for a_ in ds.args.args if a_.arg not in ( 'cls', 'self' ) ]
    exact = True
    try:
        for code, width in (( 0xC1, 1 ), ( 0xC3, 2 ), ( 0xC4, 4 ), ( 0xCB, 8 )):
            for cnt in ( 0, 1, 3, 7 ):
                out_ = run_block( ds.body, { 'cls.TYPES_SUPPORTED': { code: Record( struct_calcsize=width, tag_type=code ) }, dpar[0]: code, dpar[1]: cnt }, ignore_calls=( 'log', ))
                if not ( out_.kind == 'return' and out_.value == width * cnt ):
                    exact = False
    except ( NoFold_, IndexError ) as exc:
        raise AnalysisError( 'typed_data.datasize not foldable: %s' % exc )
    if exact:
        res.ok( psrc, rets[0] if rets else ds, 'typed_data.datasize( type, n ) = n * struct size of the type, exactly' )
    else:
        res.bad( psrc, rets[0] if rets else ds, 'typed_data.datasize does not return exactly <type>.struct_calcsize * size', 'Logix.reply_elements converts the byte offset of a Write Tag Fragmented with this size: rounded or padded, tiles of one-octet types land on the wrong elements and a tile beyond the end of the tag is acknowledged' )
    # a write does not begin inside an element: its remainder is asserted 0 on the write branch ( it is silently dropped otherwise: the data
    # lands on the element the offset rounds down to and the request is acknowledged )
    wbr = [ i for i in walk_no_nested( fn ) if isinstance( i, ast.If ) and { 'RD_TAG_RPY', 'RD_FRG_RPY' } <= attrs_in( i.test ) and i.orelse and src.parent.get( i ) is fn ]
    if not wbr:
        raise AnalysisError( 'reply_elements: read / write branch not found' )
    wz = [ a for b in wbr[0].orelse for a in ast.walk( b ) if isinstance( a, ast.Assert ) and ( pmatch( a.test, '%s == 0' % OFFREM ) is not None or pmatch( a.test, 'not %s' % OFFREM ) is not None ) ]
    if wz:
        res.ok( src, wz[0], 'a write is refused unless its byte offset falls on an element boundary' )
    else:
        res.bad( src, wbr[0], 'the write branch never looks at the remainder of the byte offset ( %s )' % OFFREM,
                 'a Write Tag Fragmented that begins inside an element is acknowledged and stored at the element the offset rounds down to - the same offset on a read is refused' )
    # the offset applies to the fragmented services only, default 0
    offd = ld.defs.get( OFF, [] )
    if offd and any( try_fold( d ) == 0 for d in offd ) and any( pmatch( d, "data[context].get( 'offset' ) or 0" ) is not None for d in offd ):
        st = [ s for s in ast.walk( fn ) if isinstance( s, ast.Assign ) and dotted( s.targets[0] ) == OFF and pmatch( s.value, "data[context].get( 'offset' ) or 0" ) is not None ]
        g = [ a for a in src.ancestors( st[0] ) if isinstance( a, ast.If ) ]
        if g and { 'RD_FRG_RPY', 'WR_FRG_RPY' } <= attrs_in( g[0].test ) and not { 'RD_TAG_RPY', 'WR_TAG_RPY' } & attrs_in( g[0].test ):
            res.ok( src, st[0], 'a byte offset is honoured for the Fragmented services only (default 0)' )
        else:
            res.bad( src, st[0], 'offset guard', 'only Read/Write Tag Fragmented carry a byte offset' )
    else:
        res.bad( src, fn, 'byte offset %s' % [ norm_text( d ) for d in offd ], "the byte offset must be data[context].offset (0 when absent) for the Fragmented services" )
    # beg advanced by the quotient, exactly once
    adv = [ s for s in walk_no_nested( fn ) if ( isinstance( s, ast.AugAssign ) and dotted( s.target ) == BEG and isinstance( s.op, ast.Add ) and dotted( s.value ) == Q )
            or ( isinstance( s, ast.Assign ) and dotted( s.targets[0] ) == BEG and ( pmatch( s.value, '%s + %s' % ( BEG, Q )) or pmatch( s.value, '%s + %s' % ( Q, BEG )))) ]
    if len( adv ) == 1 and not isinstance( src.parent.get( adv[0] ), ( ast.If, ast.For, ast.While )):
        res.ok( src, adv[0], 'the first element is advanced by the whole elements the offset skips, once, unconditionally' )
    else:
        res.bad( src, adv[0] if adv else fn, 'advance of the first element (%d sites)' % len( adv ), 'the first element returned must be the requested start plus offset // size' )
    # ---- the read budget rounded up, at least one element
    rd = [ i for i in walk_no_nested( fn ) if isinstance( i, ast.If ) and { 'RD_TAG_RPY', 'RD_FRG_RPY' } <= attrs_in( i.test ) and any( isinstance( s, ast.Assign ) for s in i.body ) ]
    if not rd:
        raise AnalysisError( 'reply_elements: read branch not found' )
    rdb = rd[-1]
    ends = ld.defs.get( END, [] )
    EM = Matcher()
    if len( ends ) == 1 and ( EM.m( ends[0], 'min( %s, _endmax )' % ENDACTUAL ) or EM.m( ends[0], 'min( _endmax, %s )' % ENDACTUAL )) and isinstance( EM.b['_endmax'], ast.Name ):
        res.ok( src, ends[0], 'end = min( requested end, capacity end ): a fragment never reaches beyond the requested elements' )
        ENDMAX = EM.name( '_endmax' )
    else:
        res.bad( src, ret, 'end = %s' % [ norm_text( d ) for d in ends ], 'the reply must end at the smaller of the requested end and the capacity end' )
        return res
    mx = [ s for s in rdb.body if isinstance( s, ast.Assign ) and dotted( s.targets[0] ) == ENDMAX ]
    AM = Matcher()
    if not ( mx and ( AM.m( mx[0].value, '%s + _adv' % BEG ) or AM.m( mx[0].value, '_adv + %s' % BEG ))):
        res.bad( src, rdb, 'capacity end of a read', 'the capacity end must be the (advanced) first element plus the number of elements the budget admits' )
        return res
    advexpr = AM.b['_adv']
    if isinstance( advexpr, ast.Name ):
        ad = [ s.value for s in rdb.body if isinstance( s, ast.Assign ) and dotted( s.targets[0] ) == advexpr.id ]
        if len( ad ) != 1:
            raise AnalysisError( 'reply_elements: definition of %s in the read branch not found' % advexpr.id )
        advexpr = ad[0]
    # at least one element
    inner = advexpr
    atleast = False
    if is_call_to( advexpr, 'max' ) and len( advexpr.args ) == 2:
        a, b = advexpr.args
        if try_fold( b ) == 1: inner, atleast = a, True
        elif try_fold( a ) == 1: inner, atleast = b, True
    if atleast:
        res.ok( src, advexpr, 'a read fragment carries at least one whole element ( max( ..., 1 ))' )
    else:
        res.bad( src, advexpr, advexpr, 'every fragment must carry at least one whole element, whatever the budget: otherwise a transfer of large elements never progresses' )
    X = { OFFREM: 1, MAXSIZE: 1 }
    kind = _ceil_div( inner, X, SIZ )
    if kind is None:
        raise AnalysisError( 'reply_elements: element count of a read fragment is not a recognised rounding division: %s' % norm_text( inner ))
    if kind[0] == 'ceil':
        res.ok( src, inner, 'elements per read fragment = ceil(( offset remainder + budget ) / size ) [%s]: the budget rounded up to whole elements' % kind[1] )
    else:
        res.bad( src, inner, inner, 'the number of elements of a read fragment must be ( offset remainder + budget ) / size rounded UP: %s' % kind[1] )
    bd = ld.defs.get( MAXSIZE, [] )
    if bd and all( pmatch( d, "data[context].get( 'max_size' ) or self.MAX_BYTES" ) is not None for d in bd ):
        res.ok( src, fn, 'budget = per-request max_size, else the class attribute MAX_BYTES' )
    else:
        res.bad( src, fn, 'budget %s' % [ norm_text( d ) for d in bd ], 'the reply budget must be the per-request max_size or, by default, self.MAX_BYTES (user-alterable)' )
    # the budget is read through the class at request time: an instance-level store ( self.MAX_BYTES = ... ) would freeze it per object, and a
    # later change of Logix.MAX_BYTES (documented as user-alterable) would be ignored
    cd_ = src.get( 'Logix' )
    inst = [ s_ for s_ in ast.walk( cd_ ) if isinstance( s_, ( ast.Assign, ast.AugAssign )) and any( dotted( t_ ) == 'self.MAX_BYTES' for t_ in ( s_.targets if isinstance( s_, ast.Assign ) else [ s_.target ] )) ]
    if inst:
        res.bad( src, inst[0], inst[0], 'an instance attribute shadows the class-level reply budget: altering Logix.MAX_BYTES after the Message Router exists no longer limits the fragments' )
    else:
        res.ok( src, cd_, 'MAX_BYTES is only a class attribute (read at request time, user-alterable)' )
    # ---- progress asserted on the way to the return
    cfg = CFG( fn )
    prog = [ n for n in cfg.nodes if n.kind == 'stmt' and isinstance( n.stmt, ast.Assert ) and ( pmatch( n.stmt.test, '%s < %s' % ( BEG, END )) or pmatch( n.stmt.test, '%s > %s' % ( END, BEG ))) ]
    rn = cfg.node_of( ret )
    if prog and cfg.must_pass( cfg.entry, rn, prog, correlated=False ):
        # ... and no store to beg / end between the assertion and the return
        late = [ n for n in cfg.reachable( prog[-1] ) if n.kind == 'stmt' and isinstance( n.stmt, ( ast.Assign, ast.AugAssign ))
                 and any( dotted( t ) in ( BEG, END ) for t in ( n.stmt.targets if isinstance( n.stmt, ast.Assign ) else [ n.stmt.target ] )) ]
        if late:
            res.bad( src, late[0].stmt, late[0].stmt, 'the element range is changed after it was checked' )
        else:
            res.ok( src, prog[0].stmt, 'every reply is asserted to carry at least one element ( beg < end ) before the range is returned' )
    else:
        res.bad( src, ret, 'progress assertion', 'beg < end must be asserted on every path to the return: an empty fragment makes the client loop forever' )
    # ---- a byte offset is turned into an element index by dividing by the element size: for STRING / SSTRING that size is an ESTIMATE
    #      ( struct_calcsize = 80 ), so a non-zero offset addresses the wrong elements ( offset 80 = "element 1" ) - acknowledged with success,
    #      a write destroys elements of the previous fragment.  By value, the whole body on a record standing for the tag: such a request is
    #      refused, the same request on fixed-size elements and on structures is served
    from .fold import run_block as _run, Record as _Rec, NoFold as _NoFold
    PARAMS = [ a.arg for a in fn.args.args if a.arg not in ( 'self', 'cls' ) ]
    if len( PARAMS ) < 3:
        raise AnalysisError( 'Logix.reply_elements: parameters ( attribute, data, context ) not found' )
    EXTRA = {}									# further parameters take their defaults
    for a_, d_ in zip( reversed( fn.args.args ), reversed( fn.args.defaults )):
        v_ = try_fold( d_, { 'MAX_BYTES': 500, 'self.MAX_BYTES': 500, 'Logix.MAX_BYTES': 500 }, default=NoFold )
        if v_ is not NoFold:
            EXTRA[a_.arg] = v_
    def extent( tag, size, svc, cx ):
        att = _Rec( parser=_Rec( struct_calcsize=size, tag_type=tag ), n=40 )
        env = { 'self.RD_TAG_RPY': 0xCC, 'self.RD_FRG_RPY': 0xD2, 'self.WR_TAG_RPY': 0xCD, 'self.WR_FRG_RPY': 0xD3, 'self.MAX_BYTES': 500,
                'resolve_element': lambda p_: ( 0, ), 'type': type, 'tuple': tuple, 'len': lambda x: x.n if isinstance( x, _Rec ) else len( x ),
                'STRING.tag_type': 0xD0, 'SSTRING.tag_type': 0xDA, 'STRUCT.tag_type': 0x2A0, 'typed_data.datasize': lambda t, *a: 4,
                **EXTRA, PARAMS[0]: att, PARAMS[1]: { 'service': svc, 'path': 'P', 'read_frag': cx, 'write_frag': cx },
                PARAMS[2]: 'read_frag' if svc == 0xD2 else 'write_frag' }
        try:
            return _run( [ st for st in fn.body if not ( isinstance( st, ast.Expr ) and isinstance( st.value, ast.Constant )) ], env, ignore_calls=( 'log', )).kind
        except _NoFold as exc:
            if res.findings:
                return None					# the clauses above have already reported this tree: not decided here, not hidden
            raise AnalysisError( 'Logix.reply_elements: not a decision fragment: %s' % exc )
    cells_ = (( 'Read Tag Fragmented of STRING elements at offset 80', 0xD0, 80, 0xD2, { 'offset': 80, 'elements': 20 }, 'raise' ),
               ( 'Read Tag Fragmented of SSTRING elements at offset 160', 0xDA, 80, 0xD2, { 'offset': 160, 'elements': 20 }, 'raise' ),
               ( 'Write Tag Fragmented of STRING elements at offset 80', 0xD0, 80, 0xD3, { 'offset': 80, 'elements': 20, 'type': 0xD0, 'data': [ 'a' ] * 5 }, 'raise' ),
               ( 'Read Tag Fragmented of STRING elements at offset 0', 0xD0, 80, 0xD2, { 'offset': 0, 'elements': 20 }, 'return' ),
               ( 'Read Tag Fragmented of DINT elements at offset 80', 0xC4, 4, 0xD2, { 'offset': 80, 'elements': 30 }, 'return' ),
               ( 'Read Tag Fragmented of structures at offset 80', 0x2A0, 8, 0xD2, { 'offset': 80, 'elements': 30 }, 'return' ))
    # ... and the byte offset of a WRITE counts elements of the type it transmits - every basic type, signed or not ( CIP type codes are not
    # ordered by width: USINT 0xC6 lies above DINT 0xC4 ): by value, the second tile of a narrower type lands where the first ended
    WIDTH = { 0xC1: 1, 0xC2: 1, 0xC6: 1, 0xC3: 2, 0xC7: 2, 0xC4: 4, 0xC8: 4, 0xCA: 4, 0xC5: 8, 0xC9: 8, 0xCB: 8 }
    def extent2( tag, sent, off ):
        att = _Rec( parser=_Rec( struct_calcsize=WIDTH[tag], tag_type=tag ), n=40 )
        cx = { 'offset': off, 'elements': 20, 'type': sent, 'data': [ 1, 2 ] }
        env = { 'self.RD_TAG_RPY': 0xCC, 'self.RD_FRG_RPY': 0xD2, 'self.WR_TAG_RPY': 0xCD, 'self.WR_FRG_RPY': 0xD3, 'self.MAX_BYTES': 500,
                'Logix.RD_TAG_RPY': 0xCC, 'Logix.RD_FRG_RPY': 0xD2, 'Logix.WR_TAG_RPY': 0xCD, 'Logix.WR_FRG_RPY': 0xD3, 'Logix.MAX_BYTES': 500,
                'resolve_element': lambda p_: ( 0, ), 'type': type, 'tuple': tuple, 'len': lambda x: x.n if isinstance( x, _Rec ) else len( x ),
                'STRING.tag_type': 0xD0, 'SSTRING.tag_type': 0xDA, 'STRUCT.tag_type': 0x2A0, 'typed_data.datasize': lambda t, *a: WIDTH[t] * ( a[0] if a else 1 ),
                **EXTRA, PARAMS[0]: att, PARAMS[1]: { 'service': 0xD3, 'path': 'P', 'read_frag': cx, 'write_frag': cx }, PARAMS[2]: 'write_frag' }
        try:
            out = _run( [ st for st in fn.body if not ( isinstance( st, ast.Expr ) and isinstance( st.value, ast.Constant )) ], env, ignore_calls=( 'log', ))
        except _NoFold as exc:
            if res.findings:
                return None
            raise AnalysisError( 'Logix.reply_elements: not a decision fragment: %s' % exc )
        return out.value[0] if out.kind == 'return' and isinstance( out.value, tuple ) else out.kind
    wrong2 = []
    for tag, sent in (( 0xC4, 0xC2 ), ( 0xC4, 0xC6 ), ( 0xC4, 0xC3 ), ( 0xC4, 0xC7 ), ( 0xC5, 0xC8 ), ( 0xC3, 0xC6 ), ( 0xCB, 0xCA ), ( 0xC4, 0xC4 ), ( 0xC4, 0xC1 )):
        off = 6 * WIDTH[sent]					# the tile behind six elements of the transmitted type
        got = extent2( tag, sent, off )
        res.cells += 1
        if got is None:
            break
        if got != 6:
            wrong2.append(( tag, sent, off, got ))
    if wrong2:
        tag, sent, off, got = wrong2[0]
        res.bad( src, fn, 'Logix.reply_elements: a Write Tag Fragmented of type 0x%02X into a tag of type 0x%02X at byte offset %d starts at element %r, not 6' % ( sent, tag, off, got ),
                 'the byte offset of a write counts elements of the transmitted type: converted with the tag\'s element size, the tiles of a narrower type overlap or skip elements ( every tile acknowledged 0x00 ) - %d of 9 type pairs' % len( wrong2 ), func='Logix.reply_elements' )
    elif got is not None:
        res.ok( src, fn, 'a write\'s byte offset counts elements of the type transmitted, for signed and unsigned narrower types alike ( 9 type pairs )' )
    for what, tag, size, svc, cx, want in cells_:
        got = extent( tag, size, svc, cx )
        res.cells += 1
        if got is None:
            break
        if got != want:
            res.bad( src, fn, 'Logix.reply_elements: %s is %s' % ( what, 'served' if got == 'return' else 'refused' ),
                     'the size of a STRING / SSTRING element is an estimate: dividing a byte offset by it addresses other elements than the client means - a fragmented read returns the wrong strings with status 0x00 / 0x06, a fragmented write overwrites elements of the fragment before; only offset 0 can be served' if want == 'raise'
                     else 'a continuation at a byte offset is how fixed-size elements and structures are transferred in fragments', func='Logix.reply_elements' )
            break
    else:
        res.ok( src, fn, 'a non-zero byte offset into elements of indeterminate size is refused; fixed-size elements and structures are served ( %d cells )' % len( cells_ ))
    return res


@rule( 'F-STATUS', props=( 'C04', 'C05', 'C03' ), floor=4 )
def f_status( ctx ):
    """Logix.request: a read replies attribute[beg:end] with status 0x00 exactly when end == endactual (fixed-size elements), else 0x06; a
    write stores data into attribute[beg:end]; the range comes from reply_elements of the same request"""
    res = Result( 'F-STATUS' )
    src = ctx.src( LOGIX )
    re_, ret, names = _roles( src )
    fn = src.get( 'Logix.request' )
    un = [ s for s in ast.walk( fn ) if isinstance( s, ast.Assign ) and is_call_to( s.value, 'self.reply_elements' ) ]
    if len( un ) != 1 or not isinstance( un[0].targets[0], ast.Tuple ) or len( un[0].targets[0].elts ) != 5:
        raise AnalysisError( 'Logix.request: unpacking of self.reply_elements( ... ) not found' )
    BEG, END, ENDACTUAL, OFFREM, MAXSIZE = ( e.id for e in un[0].targets[0].elts )
    cargs = [ dotted( a ) for a in un[0].value.args ]
    ATT, CTX = ( cargs + [ None, None, None ] )[0], ( cargs + [ None, None, None ] )[2]
    if len( cargs ) == 3 and cargs[1] == 'data' and ATT and CTX:
        res.ok( src, un[0], 'the element range is computed from this request ( attribute, data, context ) and unpacked in the order it is returned' )
    else:
        res.bad( src, un[0], un[0].value, 'the range must be computed from the request being answered' )
    rd = [ i for i in ast.walk( fn ) if isinstance( i, ast.If ) and { 'RD_TAG_RPY', 'RD_FRG_RPY' } <= attrs_in( i.test ) and i.lineno > un[0].lineno ]
    if not rd:
        raise AnalysisError( 'Logix.request: read branch after reply_elements not found' )
    rdb = rd[0]
    RM = Matcher()
    recs = RM.find( rdb, '_recs = %s[%s:%s]' % ( ATT, BEG, END ))
    if recs is not None:
        res.ok( src, recs, 'a read returns attribute[beg:end]' )
        # ... all of it: the completion decision ( end == endactual ) speaks about the range [beg:end), so what is shipped is that range - the
        # local is bound once, never trimmed or re-bound afterwards ( a fragment cut to the byte budget AFTER the range was rounded up to
        # whole elements is reported complete although its last element was dropped: the transfer ends one element short, silently )
        RECS = RM.name( '_recs' )
        again = [ a_ for a_ in ast.walk( rdb ) if isinstance( a_, ( ast.Assign, ast.AugAssign )) and a_ is not recs and any(
            isinstance( t_, ast.Name ) and t_.id == RECS for tg_ in ( a_.targets if isinstance( a_, ast.Assign ) else [ a_.target ] ) for t_ in ast.walk( tg_ )) ]
        mut = [ c_ for c_ in ast.walk( rdb ) if isinstance( c_, ast.Call ) and isinstance( c_.func, ast.Attribute ) and dotted( c_.func.value ) == RECS and c_.func.attr in ( 'pop', 'remove', 'clear', 'append', 'extend', 'insert' ) ] \
            + [ d_ for d_ in ast.walk( rdb ) if isinstance( d_, ast.Delete ) and any( RECS in names_in( t_ ) for t_ in d_.targets ) ]
        # ( the UDT branch, outside this property, legitimately replaces the records by their trimmed byte rendering )
        def in_struct_( n_ ):
            return any( isinstance( a, ast.If ) and 'STRUCT' in txt( a.test ) and any( n_ is y for b in a.body for y in ast.walk( b ))
                        for a in src.ancestors( n_ ) if any( a is x for x in ast.walk( rdb )))
        again = [ a_ for a_ in again if not in_struct_( a_ ) ]
        mut = [ m_ for m_ in mut if not in_struct_( m_ ) ]
        if again or mut:
            bad_ = ( again + mut )[0]
            res.bad( src, bad_, 'Logix.request changes the data of a read after taking attribute[beg:end] ( %s )' % norm_text( bad_ )[:80],
                     'the status is decided for the range [beg:end): trimmed to the byte budget, the last fragment is sent with status 0x00 although its final element was cut off - the reassembled transfer is one element short' )
        else:
            res.ok( src, recs, 'the data shipped is the whole range the completion status refers to ( %s is bound once )' % RECS )
    else:
        res.bad( src, rdb, 'read data', 'the data returned must be exactly attribute[beg:end]' )
    # status store of the read branch
    sts = [ s for s in rdb.body if isinstance( s, ast.Assign ) and any( dotted( t ) == 'data.status' for t in s.targets ) ]
    if len( sts ) != 1:
        raise AnalysisError( 'Logix.request: status store of the read branch not found' )
    ld = LocalDefs( fn )
    # the non-STRUCT definition of every local the status depends on
    def non_struct_def( name ):
        cands = []
        for s in ast.walk( rdb ):
            if isinstance( s, ast.Assign ) and dotted( s.targets[0] ) == name:
                anc = [ a for a in src.ancestors( s ) if isinstance( a, ast.If ) and 'STRUCT' in txt( a.test ) and any( a is x for x in ast.walk( rdb )) ]
                in_struct_body = any( any( s is y for b in a.body for y in ast.walk( b )) for a in anc )
                if not in_struct_body:
                    cands.append( s.value )
        return cands
    def ev( e, same ):
        """evaluate e with `END == ENDACTUAL` := same; names resolved through their non-STRUCT definition"""
        if isinstance( e, ast.Constant ):
            return e.value
        if isinstance( e, ast.Name ):
            ds = non_struct_def( e.id )
            if len( ds ) != 1:
                raise KeyError( e.id )
            return ev( ds[0], same )
        if isinstance( e, ast.IfExp ):
            return ev( e.body if ev( e.test, same ) else e.orelse, same )
        if isinstance( e, ast.UnaryOp ) and isinstance( e.op, ast.Not ):
            return not ev( e.operand, same )
        if isinstance( e, ast.BoolOp ):
            vs = [ ev( v, same ) for v in e.values ]
            return all( vs ) if isinstance( e.op, ast.And ) else any( vs )
        if isinstance( e, ast.Compare ) and len( e.ops ) == 1 and { dotted( e.left ), dotted( e.comparators[0] ) } == { END, ENDACTUAL }:
            op = e.ops[0]
            # reply_elements guarantees end <= endactual ( end = min( endactual, ... ))
            return { ast.Eq: same, ast.NotEq: not same, ast.Lt: ( not same ) if dotted( e.left ) == END else False, ast.GtE: same if dotted( e.left ) == END else True,
                     ast.LtE: True if dotted( e.left ) == END else same, ast.Gt: False if dotted( e.left ) == END else ( not same ) }[type( op )]
        raise KeyError( norm_text( e ))
    # for fixed-size elements the reply is rounded outwards to whole elements and may exceed the budget by part of an element: completion
    # must therefore not depend on the byte budget / offset remainder (that criterion is valid for the STRUCT byte-trimming branch only)
    def budget_dependent( e, depth=0 ):
        for n_ in ast.walk( e ):
            if isinstance( n_, ast.Name ):
                if n_.id in ( OFFREM, MAXSIZE ):
                    return n_.id
                if depth < 4:
                    for d_ in non_struct_def( n_.id ):
                        r_ = budget_dependent( d_, depth + 1 )
                        if r_:
                            return r_
        return None
    dep = budget_dependent( sts[0].value )
    if dep:
        res.bad( src, sts[0], 'read status of fixed-size elements depends on %s' % dep,
                 'a fragment of fixed-size elements is rounded up to whole elements and may legitimately exceed the byte budget; deciding completion from byte counts makes the final fragment report 0x06 although all requested elements were delivered - the transfer never ends with 0x00' )
        return res
    try:
        done, more = ev( sts[0].value, True ), ev( sts[0].value, False )
    except KeyError as exc:
        raise AnalysisError( 'Logix.request: read status depends on %s, outside the modelled subset' % exc )
    if ( done, more ) == ( 0x00, 0x06 ):
        res.ok( src, sts[0], 'read status = 0x00 iff end == endactual (all requested elements shipped), else 0x06 (more data) - for fixed-size elements' )
    else:
        res.bad( src, sts[0], 'read status: end == endactual -> 0x%02x, end < endactual -> 0x%02x' % ( done, more ),
                 'a fragment that reaches the requested end must reply 0x00 and any earlier one 0x06; otherwise the transfer ends early (data missing) or never ends' )
    # ---- the structure ( UDT ) branch ships octets, cut to the byte window [ offset, offset + budget ): by value, on records of 8 octets - what
    #      is shipped is that window of the records' rendering, and the transfer is complete iff the last requested record was rendered AND the
    #      window reaches the end of the rendering ( a window that ends exactly AT the end is complete: a follow-up read has nothing to fetch )
    sif = [ i for i in rdb.body if isinstance( i, ast.If ) and 'STRUCT' in txt( i.test ) ]
    stest = sts[0].value.test if isinstance( sts[0].value, ast.IfExp ) else None
    if sif and isinstance( stest, ast.Name ) and recs is not None:
        from .fold import run_block, Record
        COMPL = stest.id
        wrong = []
        for nrec, off, same in (( 61, 0, True ), ( 61, 0, False ), ( 62, 0, True ), ( 62, 488, True ), ( 10, 0, True ), ( 122, 0, True ), ( 122, 488, True ), ( 122, 488, False ), ( 1, 4, True )):
            rendering = b''.join( bytes( [ k % 251 ] ) * 8 for k in range( nrec ))
            env = { RM.name( '_recs' ): [ Record( data=Record( input=bytes( [ k % 251 ] ) * 8 )) for k in range( nrec ) ],
                    'octets_encode': bytes, 'bytes': bytes, OFFREM: off, MAXSIZE: 488, END: 200, ENDACTUAL: 200 if same else 300 }
            try:
                run_block( sif[0].body, env, ignore_calls=( 'log', ))
            except NoFold as exc:
                raise AnalysisError( 'Logix.request: the structure branch of a read is not a decision fragment: %s' % exc )
            res.cells += 1
            want_c = same and off + 488 >= len( rendering )
            shipped = env.get( RM.name( '_recs' ))
            shipped = shipped.get( 'input' ) if isinstance( shipped, dict ) else shipped
            if bool( env.get( COMPL )) != want_c or shipped != rendering[off:off + 488]:
                wrong.append(( nrec, off, same, bool( env.get( COMPL )), want_c, shipped == rendering[off:off + 488] ))
        if wrong:
            nrec, off, same, got, want, okship = wrong[0]
            res.bad( src, sif[0], 'structure read of %d records of 8 octets, window at %d, last record %s: complete = %s ( specified %s ), window %s' % (
                nrec, off, 'rendered' if same else 'not yet rendered', got, want, 'shipped' if okship else 'NOT what is shipped' ),
                     'a fragment that carries the last octet must be the last one ( 0x00 ): marked 0x06, the client asks for the rest at an offset equal to the data size and is refused 0xFF/0x2105 - a complete read ends in an error ( only when the data fills the window exactly ); marked 0x00 early, the transfer ends short' )
        else:
            res.ok( src, sif[0], 'structure reads ship the byte window of the rendering and are complete iff the last record is rendered and the window reaches its end ( 9 cells )' )
    # write branch
    wr = [ s for s in ast.walk( fn ) if isinstance( s, ast.Assign ) and pmatch( s.targets[0], '%s[%s:%s]' % ( ATT, BEG, END )) is not None ]
    if len( wr ) == 1 and pmatch( wr[0].value, 'data[%s].data' % CTX ) is not None and any( wr[0] is x for b in rdb.orelse for x in ast.walk( b )):
        res.ok( src, wr[0], 'a write stores exactly data[context].data into attribute[beg:end]' )
        st = [ s for s in rdb.orelse if isinstance( s, ast.Assign ) and any( dotted( t ) == 'data.status' for t in s.targets ) ]
        if st and try_fold( st[0].value ) == 0 and st[0].lineno > wr[0].lineno:
            res.ok( src, st[0], 'write status 0x00 after the store' )
        else:
            res.bad( src, wr[0], 'write status', 'a completed write must reply 0x00, stored after the data' )
    else:
        res.bad( src, rdb, 'write store', 'a write must store the request\'s data into attribute[beg:end] and nothing else' )
    return res


@rule( 'S-EXT', props=( 'C14', 'C04', 'C01' ), floor=2 )
def s_ext( ctx ):
    """Logix.request pre-loads a failure status WITH an extended status word; every branch that stores a success status (0x00, or 0x06 = partial
    data, more to come) removes that extended status unconditionally in the same block - a reply with status 0x06 that still carries the
    pre-loaded extended word is two octets longer than the layout an independent client decodes"""
    res = Result( 'S-EXT' )
    src = ctx.src( LOGIX )
    fn = src.get( 'Logix.request' )
    pre = [ s for s in ast.walk( fn ) if isinstance( s, ast.Assign ) and any( dotted( t ) == 'data.status_ext' for t in s.targets ) ]
    if not pre:
        raise AnalysisError( 'Logix.request: pre-loaded extended status not found' )
    succ = []
    for s in ast.walk( fn ):
        if isinstance( s, ast.Assign ) and any( dotted( t ) == 'data.status' for t in s.targets ) and s.lineno > pre[-1].lineno:
            vals = set()
            for c in ast.walk( s.value ):
                if isinstance( c, ast.Constant ) and isinstance( c.value, int ) and not isinstance( c.value, bool ):
                    vals.add( c.value )
            if vals and vals <= { 0x00, 0x06 }:
                succ.append( s )
    if len( succ ) < 2:
        raise AnalysisError( 'Logix.request: success status stores not found (%d)' % len( succ ))
    def removes( st ):
        return ( isinstance( st, ast.Expr ) and pmatch( st.value, "data.pop( 'status_ext' )" ) is not None ) or pmatch( st, "data.pop( 'status_ext', _d )" ) is not None \
            or ( isinstance( st, ast.Delete ) and any( 'status_ext' in txt( t ) for t in st.targets ))
    from .rules_history import _k3, U
    cfg = CFG( fn, may_raise=lambda n_: False )
    tr = [ t for t in fn.body if isinstance( t, ast.Try ) ]
    removal_nodes = [ nd for nd in cfg.nodes if nd.kind == 'stmt' and removes( nd.stmt ) ]
    # the end of the request handling: the first statement after the outer try (the reply is produced there)
    after_try = [ nd for nd in cfg.nodes if nd.stmt is not None and tr and nd.stmt in fn.body and fn.body.index( nd.stmt ) > fn.body.index( tr[0] ) ]
    for s in succ:
        vals = sorted( { c.value for c in ast.walk( s.value ) if isinstance( c, ast.Constant ) and isinstance( c.value, int ) and not isinstance( c.value, bool ) } )
        sn = cfg.node_of( s )
        pn = cfg.node_of( pre[-1] )
        if pn is not None and removal_nodes and cfg.must_pass( pn, sn, removal_nodes, correlated=False ):
            res.ok( src, s, 'the pre-loaded extended status was already removed on every path to this success status' )
            continue
        kept = []
        for v in vals:
            def edge_ok( a_, b_, label, v=v ):
                if a_.kind == 'test' and a_.expr is not None and label in ( 'true', 'false' ):
                    r_ = _k3( a_.expr, { 'data.status': v } )
                    if r_ is not U and bool( r_ ) != ( label == 'true' ):
                        return False
                return True
            reach = cfg.reachable( sn, avoid=set( removal_nodes ), edge_ok=edge_ok )
            if any( e in reach for e in after_try ) or cfg.exit in reach:
                kept.append( v )
        if not kept:
            res.ok( src, s, 'after the success status %s the pre-loaded extended status is removed on every path to the reply' % [ '0x%02x' % v for v in vals ] )
        else:
            res.bad( src, s, '%s: with status %s the pre-loaded extended status survives to the reply' % ( norm_text( s ), ', '.join( '0x%02x' % v for v in kept )),
                     'status 0x06 (partial data) is a success too: keeping the pre-loaded extended status word makes every non-final fragment reply two octets longer, so an independent client reads type and data shifted' )
    return res


@rule( 'F-CLIENT', props=( 'C04', 'C12' ), floor=2 )
def f_client( ctx ):
    """client.read / client.write: the element count put into the request is the caller's `elements` argument, replaced only by a count spelled
    in the path ( TAG[a-b] / TAG*n ); the byte offset is the caller's.  For a fragmented transfer `elements` is the length of the whole range,
    not of the data carried by one fragment."""
    res = Result( 'F-CLIENT' )
    src = ctx.src( 'server/enip/client.py' )
    for qn in ( 'client.read', 'client.write' ):
        fn = src.get( qn )
        M = Matcher()
        pp = M.find( fn, '( _seg, _elm, _cnt ) = device.parse_path_elements( path )' )
        if pp is None:
            raise AnalysisError( '%s: parse of the path ( device.parse_path_elements ) not found' % qn )
        CNT = M.name( '_cnt' )
        stores = [ s for s in walk_no_nested( fn ) if isinstance( s, ( ast.Assign, ast.AugAssign )) and any(
            isinstance( t, ast.Name ) and t.id == 'elements' for tg in ( s.targets if isinstance( s, ast.Assign ) else [ s.target ] ) for t in ast.walk( tg )) ]
        bad = False
        for s in stores:
            g = src.parent.get( s )
            if isinstance( s, ast.Assign ) and dotted( s.value ) == CNT and isinstance( g, ast.If ) and s in g.body and pmatch( g.test, '%s is not None' % CNT ) is not None:
                res.ok( src, s, '%s: a count spelled in the path replaces the elements argument' % qn )
            else:
                bad = True
                res.bad( src, s, '%s: %s' % ( qn, norm_text( s )), 'the request\'s element count must be the caller\'s `elements` (or the count spelled in the path): deriving it from the data of ONE fragment makes every Write Tag Fragmented tile at a non-zero offset invalid (elements < offset/size + len( data )) - only the first tile is stored' )
        # ... and a fragment is not refused for carrying fewer elements than the range: every refusal ( assert / if..raise ) that sits on the
        # way to the fragmented request is evaluated for a legitimate tile - 3 elements of a 10 element range at a non-zero byte offset
        if qn == 'client.write':
            tile = dict( elements=10, data=( 0, 0, 0 ), offset=8, tag_type=0xC3 )
            plain = [ i for i in walk_no_nested( fn ) if isinstance( i, ast.If ) and pmatch( i.test, 'offset is None' ) is not None ]
            def in_plain_( n_ ):
                return any( n_ is y for i in plain for b in i.body for y in ast.walk( b ))
            refusals = [ ( a_, a_.test, False ) for a_ in walk_no_nested( fn ) if isinstance( a_, ast.Assert ) ] \
                     + [ ( i_, i_.test, True ) for i_ in walk_no_nested( fn ) if isinstance( i_, ast.If ) and any( isinstance( b_, ast.Raise ) for b_ in i_.body ) ]
            hit = False
            for n_, t_, sense in refusals:
                if in_plain_( n_ ):
                    continue
                v = try_fold( t_, tile, default=None )
                if v is not None and bool( v ) == sense:
                    hit = bad = True
                    res.bad( src, n_, '%s refuses a tile of a larger range ( %s )' % ( qn, norm_text( t_ )[:60] ),
                             'for Write Tag Fragmented `elements` is the size of the whole range while `data` holds one fragment: a client that insists on elements == len( data ) can only ever send whole-range writes, a range tiled by several requests is never stored' )
            if not hit:
                res.ok( src, fn, '%s: no refusal on the way to the fragmented request rejects a tile ( 3 of 10 elements at byte offset 8 )' % qn )
        # the request carries exactly those locals
        used = [ d for d in ast.walk( fn ) if isinstance( d, ast.Dict ) and any( try_fold( k ) == 'elements' for k in d.keys ) ]
        for d in used:
            kv = { try_fold( k ): v for k, v in zip( d.keys, d.values ) }
            if dotted( kv.get( 'elements' )) == 'elements' and ( 'offset' not in kv or dotted( kv['offset'] ) == 'offset' ):
                res.ok( src, d, '%s: request carries elements=elements%s' % ( qn, ', offset=offset' if 'offset' in kv else '' ))
            else:
                bad = True
                res.bad( src, d, d, 'the request must carry the element count and byte offset it was asked for' )
    return res
