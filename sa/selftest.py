def run_for_property( prop, root=None ):
    return dict( variants=0, fired=0, silent_ok=0, skipped=0, misses=[] )
def main( prop=None, jobs=16, verbose=False ):
    return 0
